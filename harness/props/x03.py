"""X03 (extension, not a listed property) -- ReactorBase life cycle: run / stop / crash / callWhenRunning,
the startup and shutdown system events, timed calls around shutdown, run-after-stop / run-after-crash.
Spec: specs/ReactorLife.tla.  Reported under coverage.extra_modules of the nearest property (C12)."""

META = dict(
    id="X03", extension=True, nearest="C12",
    specs=["ReactorLife.tla", "ReactorLifeMC.tla", "ReactorLifeTrace.tla"],
    technique="TLA+ spec of ReactorBase's run/stop/crash state machine with both system events as a control stack "
              "+ TLC trace validation of a real ReactorBase whose doIteration is scripted",
    level_text="extension module: grows the specification beyond the listed properties",
    level_note="not a listed property; alarms are reported as EXTRA-ALARM, never as VIOLATION.  Trusted: the scripted "
               "doIteration/seconds/installWaker of the ReactorBase subclass (no real I/O, signals, threads or waker); "
               "removeSystemEventTrigger, cancel/reset of timed calls and callFromThread are not modelled (C12/C08/C09/C13 cover them)",
    design_ref="4 (extensions)",
    rule="history = tree of user operations (top level, inside doIteration, inside callbacks); exhaustive over a small "
         "alphabet up to length 3/4 plus seeded-random ones; distinct by event sequence",
)

MAX_ITER = 40          # doIteration calls per history before the harness gives up (only mutants get there)


class _Raise(Exception):
    pass


def run_history(ops):
    """Drive one real ReactorBase along `ops` (JSON-able tree, see random_ops).  Returns the trace."""
    from twisted.internet import defer, error
    from twisted.internet.base import ReactorBase

    ev = []
    st = dict(now=0, iters=0, aborted=False)
    stream = list(ops)
    fns = []          # id-1 -> dict(body=..., d=Deferred|None)

    def log(e, **kw):
        kw["e"] = e
        kw["r"] = bool(reactor.running)
        ev.append(kw)
        return kw

    class R(ReactorBase):
        def installWaker(self):
            pass

        def seconds(self):
            return st["now"]

        def removeAll(self):
            return []

        def doIteration(self, t):
            st["iters"] += 1
            if st["aborted"] or st["iters"] > MAX_ITER:
                if not st["aborted"]:
                    st["aborted"] = True
                    log("abort")
                self._started = False      # escape hatch of the harness; the trace is already unacceptable
                self.running = False
                return
            log("iter", t=-1 if t is None else int(t))
            out = "ret"
            while True:
                if not stream:
                    do_op(["crash"])
                    break
                op = stream.pop(0)
                if op[0] == "ret":
                    break
                if op[0] == "throw":
                    out = "raise"
                    break
                do_op(op)
            log("end", out=out)
            if out == "raise":
                raise _Raise()

    reactor = R()

    def new_fn(body):
        k = len(fns) + 1
        rec = dict(body=body, d=defer.Deferred() if body.get("out") == "dfr" else None)
        fns.append(rec)

        def f():
            log("cb", f=k)
            for op in body.get("ops", []):
                do_op(op)
            out = body.get("out", "ret")
            log("end", out=out)
            if out == "raise":
                raise _Raise()
            return rec["d"]
        return k, f

    def do_op(op):
        if st["aborted"]:
            return
        name = op[0]
        if name == "cwr":
            k, f = new_fn(op[1])
            e = log("cwr", f=k, res="?")
            n0 = len(ev)
            exc = False
            try:
                h = reactor.callWhenRunning(f)
            except _Raise:
                h, exc = None, True
            e["res"] = "ran" if (h is None) else "queued"
            if h is None:
                log("cwrret", exc=exc)
            elif len(ev) != n0:
                e["res"] = "queued-but-called"
        elif name == "trig":
            k, f = new_fn(op[3])
            log("trig", ev=op[1], ph=op[2], f=k)
            reactor.addSystemEventTrigger(op[2], {"su": "startup", "sd": "shutdown"}[op[1]], f)
        elif name == "later":
            k, f = new_fn(op[2])
            log("later", d=op[1], f=k)
            reactor.callLater(op[1], f)
        elif name == "stop":
            e = log("stop", res="ok")
            try:
                reactor.stop()
            except error.ReactorNotRunning:
                e["res"] = "ReactorNotRunning"
            except Exception as x:      # noqa
                e["res"] = type(x).__name__
        elif name == "crash":
            log("crash")
            reactor.crash()
        elif name == "adv":
            log("adv", d=op[1])
            st["now"] += op[1]
        elif name == "fire":
            cands = [i + 1 for i, r in enumerate(fns) if r["d"] is not None and not r["d"].called]
            if not cands:
                return
            k = cands[op[1] % len(cands)]
            log("fire", f=k)
            fns[k - 1]["d"].callback(None)
            log("firedone")
        elif name == "run":
            e = log("run", res="in")
            try:
                reactor.run(installSignalHandlers=False)
            except (error.ReactorAlreadyRunning, error.ReactorNotRestartable) as x:
                e["res"] = type(x).__name__
                return
            except Exception as x:      # noqa
                e["res"] = type(x).__name__
                return
            if not st["aborted"]:
                log("returned")
        elif name in ("ret", "throw"):
            pass
        else:
            raise ValueError(op)

    while stream and not st["aborted"]:
        do_op(stream.pop(0))
    return {"cfg": {"v": 1}, "ops": ops, "ev": ev}


# ---------------------------------------------------------------- histories
def F(ops=(), out="ret"):
    return {"ops": [list(o) for o in ops], "out": out}


PROLOGUES = [
    [],
    [["cwr", F()], ["trig", "sd", "before", F()], ["trig", "sd", "during", F()], ["trig", "sd", "after", F()], ["later", 0, F()]],
    [["trig", "sd", "before", F(out="dfr")], ["trig", "su", "before", F(out="dfr")], ["cwr", F([["later", 0, F()]])]],
    [["trig", "su", "after", F([["stop"]])], ["trig", "sd", "during", F([["crash"]], "raise")], ["later", 1, F([["cwr", F()]])]],
]
ALPHABET = [["run"], ["stop"], ["crash"], ["ret"], ["fire", 0], ["adv", 1], ["cwr", F()],
            ["later", 0, F([["stop"]])], ["trig", "sd", "after", F()], ["throw"]]


def exhaustive(maxlen, prologues):
    import itertools
    import copy
    out = []
    for p in prologues:
        for n in range(1, maxlen + 1):
            for seq in itertools.product(ALPHABET, repeat=n):
                if not any(o[0] == "run" for o in seq):
                    continue          # nothing of the life cycle happens without run()
                out.append(copy.deepcopy(p) + copy.deepcopy(list(seq)))
    return out


def random_fn(rng, depth):
    ops = []
    if depth > 0:
        for _ in range(rng.choice([0, 0, 0, 1, 1, 2])):
            ops.append(random_op(rng, depth - 1, inside=True))
    return {"ops": ops, "out": rng.choice(["ret"] * 6 + ["dfr"] * 2 + ["raise"])}


def random_op(rng, depth, inside=False):
    r = rng.random()
    if r < 0.12:
        return ["cwr", random_fn(rng, depth)]
    if r < 0.30:
        fn = random_fn(rng, depth)
        ph = rng.choice(["before", "before", "during", "after"])
        if ph == "before" and rng.random() < 0.5:
            fn["out"] = "dfr"
        return ["trig", rng.choice(["sd", "sd", "su"]), ph, fn]
    if r < 0.45:
        return ["later", rng.choice([0, 0, 1, 2]), random_fn(rng, depth)]
    if r < 0.57:
        return ["stop"]
    if r < 0.62:
        return ["crash"]
    if r < 0.67:
        return ["run"]
    if r < 0.74:
        return ["adv", rng.choice([1, 1, 2])]
    if r < 0.84:
        return ["fire", rng.randrange(4)]
    if inside:
        return ["later", 0, random_fn(rng, 0)]
    return ["throw"] if r < 0.87 else ["ret"]


def random_ops(rng):
    ops = [random_op(rng, 2) for _ in range(rng.choice([0, 1, 2, 3, 4]))]
    ops = [o for o in ops if o[0] not in ("ret", "throw")]
    ops.append(["run"])
    for _ in range(rng.randint(2, 16)):
        ops.append(random_op(rng, 2))
    if rng.random() < 0.3:
        ops += [["stop"], ["ret"], ["ret"], ["run"], ["stop"]]
    return ops


def _quiet():
    """twisted prints critical log events (the swallowed exceptions we provoke) to stderr until logging is begun."""
    from twisted.logger import globalLogBeginner
    if getattr(_quiet, "done", False):
        return
    _quiet.done = True
    globalLogBeginner.beginLoggingTo([lambda e: None], discardBuffer=True, redirectStandardIO=False)


ACTIONS = ["Cwr", "Trig", "Later", "Stop", "Crash", "Run", "Adv", "Fire", "End", "CallBefore", "CallPhase", "CallNow",
           "CallTimed", "Iter", "Returned", "CwrRet", "FireDone", "BeforeDone", "DoReallyStart", "DoCrashTrigger",
           "DoDisconnectAll", "PhaseSwitch", "ContDone", "LoopTop", "RucDone"]


def _report(ctx, traces, rej):
    for x in rej[:10]:
        t = traces[x.idx]
        e = t["ev"][x.reached] if x.reached < len(t["ev"]) else None
        ctx.violation("reactorlife/%s" % (e or {}).get("e"),
                      "ReactorBase execution not explained by ReactorLife.tla at event %d: %s (after %s)"
                      % (x.reached, e, t["ev"][max(0, x.reached - 3):x.reached]), dict(ops=t["ops"]))


def run(ctx):
    _quiet()
    ctx.mc("ReactorLifeMC", "ReactorLifeMC.cfg")
    ctx.mc("ReactorLifeMC", ctx.pick("ReactorLifeMC.f2.cfg", "ReactorLifeMC.thorough.cfg"), coverage=False)
    ctx.require_actions("ReactorLifeMC", ACTIONS)
    hs = exhaustive(ctx.pick(3, 4), ctx.pick(PROLOGUES[:2], PROLOGUES))
    nex = len(hs)
    for _ in range(ctx.pick(700, 15000)):
        hs.append(random_ops(ctx.rng))
    traces = [run_history(h) for h in hs]
    ctx.log("%d real executions (%d exhaustive-short, %d random), %d events" % (len(traces), nex, len(traces) - nex, sum(len(t["ev"]) for t in traces)))
    ctx.note_traces(traces)
    rej = ctx.validate("ReactorLifeTrace", traces, shard_size=ctx.pick(700, 3000))
    _report(ctx, traces, rej)
    ctx.extra["exhaustive_short"] = nex
    ctx.extra["events"] = sum(len(t["ev"]) for t in traces)

    def mutate(t, rng):
        if len(t["ev"]) < 4:
            return None
        i = rng.randrange(len(t["ev"]))
        e = t["ev"][i]
        how = rng.randrange(4)
        if how == 0:
            e["r"] = not e["r"]
        elif how == 1 and e["e"] == "iter":
            e["t"] = e["t"] + 1
        elif how == 2 and e["e"] == "cb":
            e["f"] = e["f"] + 1
        elif how == 3 and e["e"] in ("stop", "run", "cwr"):
            e["res"] = {"ok": "ReactorNotRunning", "ReactorNotRunning": "ok", "in": "ReactorNotRestartable", "ran": "queued",
                        "queued": "ran"}.get(e["res"], "in")
        elif e["e"] in ("cb", "returned", "iter") and i < len(t["ev"]) - 1:
            del t["ev"][i]          # (dropping the last event only shortens the trace: still a valid prefix)
        else:
            return None
        return t
    bad = {x.idx for x in rej}
    good = [t for i, t in enumerate(traces) if i not in bad]
    ctx.rng.shuffle(good)
    ctx.selftest_rejects("ReactorLifeTrace", good[:300], mutate, n=20)


def replay(ctx, obj):
    _quiet()
    t = run_history(obj["ops"])
    for e in t["ev"]:
        print(e)
    for x in ctx.validate("ReactorLifeTrace", [t]):
        ctx.violation("reactorlife/replay", "rejected at %d" % x.reached, dict(ops=t["ops"]))
