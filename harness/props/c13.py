"""C13 -- callFromThread runs each call once, in the reactor thread, in per-thread order, promptly.

Specs:    specs/ThreadCalls.tla      Abs layer = the property (Issue / Run guarded by per-producer counters)
          specs/ThreadCallsMC.tla    exhaustive TLC: the guarded actions imply the clauses stated over the history
          specs/ThreadCallsImpl.tla  the algorithm as coded (threadCallQueue, snapshot drain, self-pipe waker,
                                     Check / Block / Wake); TLC: safety, refinement of Abs, liveness Issue ~> Ran
                                     under fairness of the reactor only; without wakeUp() liveness must fail
          (specs/ThreadCallsAio.tla: model of the asyncio reactor's former callLater(0)-based callFromThread, kept as the
           record of the repaired ordering defect; not part of the check any more)
          specs/ThreadCallsTrace.tla trace validation of real reactor runs
Binding:  harness/adapters/c13_driver.py, one subprocess per reactor run (select, poll, epoll, asyncio),
          1..16 real threads issuing callFromThread with seeded pause patterns; the trace is what the reactor
          side observed (executing thread, producer, sequence number, idle flag, latency class) plus the issue
          counts.  TLC decides.
"""
import json
import os
import subprocess
import sys

META = dict(
    id="C13",
    specs=["ThreadCalls.tla", "ThreadCallsMC.tla", "ThreadCallsImpl.tla", "ThreadCallsImplMC.tla", "ThreadCallsTrace.tla"],
    technique="TLA+ Abs spec of callFromThread (exactly once / per-producer order / reactor thread / promptness) checked exhaustively; Impl spec of threadCallQueue + snapshot drain + self-pipe waker checked by TLC for safety, refinement of Abs and liveness (Issue ~> Ran under reactor fairness only; the model without wakeUp must violate it); TLC trace validation of genuinely concurrent runs of the real select/poll/epoll/asyncio reactors",
    level_text="TLC checks on the design that every issued call runs exactly once, in per-producer order, and is eventually run without help from unrelated events (liveness across the Check/Block window), for 1-2 producers x <=2-3 calls exhaustively; every recorded run of the four real reactors with 1..16 producer threads is validated by TLC as a behaviour of the Abs specification (all logged fields matched, no call lost, idle-issued calls within the promptness bound).",
    level_note="Trusted: TLC, CPython threads, the driver's logging (thread identity, callback arguments, monotonic clock). Real concurrency is sampled under OS scheduling, not enumerated. Promptness is a 5 s bound against 'sleeps until an unrelated event' (none exists in the runs). Not decided: behaviour at reactor shutdown, calls issued before run().",
    design_ref="2.5 C13",
    rule="case = one real reactor run (reactor, clock, producer scripts with seeded pauses); distinct = hash of the recorded execution order; non-trivial = calls of at least two producers interleaved or at least one idle-issued call",
)

REACTORS = ["select", "poll", "epoll", "asyncio"]
LAT_UNIT_MS = 5000
GRACE_MS = 15000
HERE = os.path.dirname(os.path.abspath(__file__))
DRIVER = os.path.join(os.path.dirname(HERE), "adapters", "c13_driver.py")


def py():
    return "/venv/bin/python" if os.path.exists("/venv/bin/python") else sys.executable


# --------------------------------------------------------------------------- scripts

def gen_scripts(rng, shape, nthreads, ncalls, raising=0.0):
    """Producer scripts: per producer a list of [kind, usec] or [kind, usec, 1] (the callable raises); see c13_driver.py."""
    out = []
    for _ in range(nthreads):
        s = []
        n = max(1, int(ncalls * rng.uniform(0.6, 1.0)))
        if shape == "stress":          # long tight bursts of all producers, each followed by idle-latency probes
            for _round in range(2):
                s += [[0, 0] for _k in range(n // 2)]
                s += [[1, rng.randint(2000, 20000)] for _k in range(2)]
            n = 0
        for _k in range(n):
            r = rng.random()
            if shape == "probe":       # mostly idle probes: the reactor sleeps between calls
                if r < 0.6:
                    s.append([1, rng.randint(1000, 25000)])
                elif r < 0.8:
                    s.append([0, 0])
                else:
                    s.append([0, rng.randint(20, 400)])
            elif shape == "window":    # short gaps: the next call arrives while the reactor heads back to sleep
                if r < 0.85:
                    s.append([0, rng.randint(10, 300)])
                elif r < 0.95:
                    s.append([0, 0])
                else:
                    s.append([1, rng.randint(100, 3000)])
            elif shape == "burst":     # tight loops
                s.append([0, 0] if r < 0.995 else [0, rng.randint(100, 2000)])
            else:                      # mixed
                if r < 0.7:
                    s.append([0, 0])
                elif r < 0.9:
                    s.append([0, rng.randint(50, 500)])
                elif r < 0.98:
                    s.append([0, rng.randint(1000, 5000)])
                else:
                    s.append([1, rng.randint(2000, 15000)])
        if raising:
            for e in s:
                if rng.random() < raising:
                    e.append(1)
        out.append(s)
    return out


def plan(ctx):
    """List of run configurations (deterministic under ctx.seed)."""
    rng = ctx.rng
    cfgs = []
    per = ctx.pick(3, 40)
    for reactor in REACTORS:
        for k in range(per):
            if k == 0:
                shape, nt, nc = "probe", rng.randint(1, 3), ctx.pick(25, 40)
            elif k == 1:
                shape, nt, nc = "mixed", rng.randint(6, 16), ctx.pick(80, 300)
            elif k == 2:
                shape, nt, nc = "window", rng.randint(2, 5), ctx.pick(120, 400)
            else:
                shape = rng.choice(["probe", "mixed", "window", "burst", "mixed", "burst"])
                nt = rng.randint(1, 16)
                total = rng.choice([200, 500, 1000, 2000, 4000, 10000]) if shape != "probe" else rng.choice([30, 60, 100])
                nc = max(1, total // nt)
            # callbacks that block for a moment / a short interpreter switch interval: producers enqueue while the
            # reactor is in the middle of a drain
            yld = 0 if shape == "probe" else rng.choice([0, 2, 3, 7])
            # some of the issued callables raise (every run but the first of a reactor has a few)
            raising = 0.0 if k == 0 else rng.choice([0.02, 0.1, 0.3])
            cfgs.append(dict(reactor=reactor, clock="real", timer=3600 if rng.random() < 0.3 else 0,
                             shape=shape, producers=gen_scripts(rng, shape, nt, nc, raising), cb_yield=yld,
                             switch_us=rng.choice([0, 0, 200, 1000])))
        # heavy multi-producer traffic, then calls issued while the reactor is idle (is it still woken?)
        for k in range(ctx.pick(1, 4)):
            cfgs.append(dict(reactor=reactor, clock="real", timer=3600 if k % 2 else 0, shape="stress",
                             producers=gen_scripts(rng, "stress", 8, ctx.pick(1000, 4000), 0.01 if k % 2 else 0.0),
                             cb_yield=0, switch_us=rng.choice([0, 200])))
        # a platform whose clock has 1 ms granularity (time.time() may be that coarse)
        for k in range(ctx.pick(1, 6)):
            shape = ["burst", "mixed", "window"][k % 3]
            nt = rng.randint(2, 8)
            cfgs.append(dict(reactor=reactor, clock="ms", timer=0, shape=shape, cb_yield=rng.choice([0, 3]), switch_us=0,
                             producers=gen_scripts(rng, shape, nt, ctx.pick(60, 400), rng.choice([0.0, 0.1]))))
    for c in cfgs:
        c["lat_unit_ms"] = LAT_UNIT_MS
        c["grace_ms"] = GRACE_MS
    return cfgs


# --------------------------------------------------------------------------- running

def run_one(cfg, repo_src):
    from harness.core import MachineryError
    env = dict(os.environ)
    env["PYTHONPATH"] = repo_src
    env.pop("PYTHONSTARTUP", None)
    try:
        p = subprocess.run([py(), DRIVER], input=json.dumps(cfg), capture_output=True, text=True, env=env,
                           timeout=600)
    except subprocess.TimeoutExpired:
        raise MachineryError("C13 driver timed out (reactor=%s)" % cfg["reactor"])
    try:
        res = json.loads(p.stdout)
    except ValueError:
        raise MachineryError("C13 driver produced no result (reactor=%s rc=%s): %s" % (cfg["reactor"], p.returncode, p.stderr[-2000:]))
    if not os.path.realpath(res["twisted"]).startswith(os.path.realpath(repo_src)):
        raise MachineryError("driver imported twisted from %s" % res["twisted"])
    n = [len(s) for s in cfg["producers"]] + [1]
    return {"cfg": {"n": n, "reactor": cfg["reactor"], "clock": cfg["clock"], "timer": cfg["timer"], "shape": cfg["shape"],
                    "cb_yield": cfg.get("cb_yield", 0), "switch_us": cfg.get("switch_us", 0),
                    "raising_calls": sum(1 for s in cfg["producers"] for e in s if len(e) > 2), "reactor_class": res["reactor_class"]},
            "ev": res["ev"], "stuck": res["stuck"], "stderr": p.stderr[-400:]}


def run_all(ctx, cfgs):
    from concurrent.futures import ThreadPoolExecutor
    from harness.core import REPO
    src = os.path.join(REPO, "src")
    nw = max(1, min(int(os.environ.get("VERIF_SHARDS") or 6), 8))
    with ThreadPoolExecutor(nw) as ex:
        return list(ex.map(lambda c: run_one(c, src), cfgs))


def nontrivial(t):
    ev = [e for e in t["ev"] if e["e"] == "run"]
    inter = any(a["p"] != b["p"] for a, b in zip(ev, ev[1:]))
    return inter or any(e["idle"] for e in ev)


def classify(t, reached):
    """Name of the clause the rejected event falls under -- used for the fingerprint/message only."""
    done = {}
    for e in t["ev"][:reached]:
        if e["e"] == "run":
            done[e["p"]] = e["i"]
    if reached >= len(t["ev"]):
        return "complete"
    e = t["ev"][reached]
    if e["e"] == "end":
        if e["exc"]:
            return "callFromThread-raised"
        return "lost-calls"
    exp = done.get(e["p"], 0) + 1
    if e["thr"] != "R":
        return "wrong-thread"
    if e["i"] > exp:
        return "per-thread-order"
    if e["i"] < exp:
        return "ran-twice"
    if e["idle"] and e["lat"] != 0:
        return "idle-call-late"
    return "other"


def fingerprint(t, rej):
    return "%s/clock=%s/%s" % (t["cfg"]["reactor"], t["cfg"]["clock"], classify(t, rej.reached))


def mutate(t, rng):
    """Corrupt one logged field / drop / duplicate / reorder one event (binding self-test)."""
    ev = t["ev"]
    runs = [k for k, e in enumerate(ev) if e["e"] == "run"]
    if len(runs) < 3:
        return None
    kind = rng.randrange(7)
    k = rng.choice(runs[:-1])
    if kind == 0:
        del ev[k]                                   # a call that never ran
    elif kind == 1:
        ev.insert(rng.choice(runs), dict(ev[k]))    # a call that ran twice
    elif kind == 2:
        same = [j for j in runs if j > k and ev[j]["p"] == ev[k]["p"]]
        if not same:
            return None
        j = same[0]
        ev[k], ev[j] = ev[j], ev[k]                 # two calls of one producer swapped
    elif kind == 3:
        ev[k]["thr"] = "T"
    elif kind == 4:
        idle = [j for j in runs if ev[j]["idle"]]
        if not idle:
            return None
        ev[rng.choice(idle)]["lat"] = 1
    elif kind == 5:
        ev[-1]["issued"][ev[k]["p"] - 1] += 1
    else:
        ev[-1]["exc"] = 1
    return t


# --------------------------------------------------------------------------- the check

def model_checks(ctx):
    from harness.core import MachineryError

    def must_ok(r, what):
        if not r.ok:
            raise MachineryError("%s: %s\n%s" % (what, r.error, r.out[-1500:]))

    def must_fail(r, kind, what):
        if r.ok or r.kind != kind:
            raise MachineryError("vacuity: %s expected a %s violation, got ok=%s kind=%s" % (what, kind, r.ok, r.kind))

    must_ok(ctx.mc("ThreadCallsMC", ctx.pick("ThreadCallsMC.cfg", "ThreadCallsMC.thorough.cfg")), "ThreadCalls (Abs) violates its own invariants")
    ctx.require_actions("ThreadCallsMC", ["IssueStep", "RunStep"])
    if ctx.quick:
        must_fail(ctx.mc("ThreadCallsMC", "ThreadCallsMCReach3.cfg", must_pass=False,
                         label="vacuity: quiescent history with an idle-issued call and a late non-idle call reachable"),
                  "invariant", "Abs reachability")
    else:
        must_fail(ctx.mc("ThreadCallsMC", "ThreadCallsMCReach.cfg", must_pass=False, label="vacuity: quiescent non-trivial history reachable"),
                  "invariant", "Abs reachability")
        must_fail(ctx.mc("ThreadCallsMC", "ThreadCallsMCReach2.cfg", must_pass=False, label="vacuity: late non-idle call allowed"),
                  "invariant", "Abs late-call reachability")
    must_ok(ctx.mc("ThreadCallsImplMC", ctx.pick("ThreadCallsImplMC.cfg", "ThreadCallsImplMC.thorough.cfg"),
                   label="Impl: safety + refinement of Abs + liveness"), "ThreadCallsImpl fails")
    ctx.require_actions("ThreadCallsImplMC", ["EnqueueStep", "WakeUpStep", "Check", "RunOne", "DrainEnd", "Block", "Wake", "Unrelated"])
    must_fail(ctx.mc("ThreadCallsImplMC", "ThreadCallsImplNoWake.cfg", must_pass=False,
                     label="vacuity: without the producers' wakeUp() liveness must fail"), "property", "Impl without wakeUp")
    if ctx.quick:
        return {}
    must_fail(ctx.mc("ThreadCallsImplMC", "ThreadCallsImplReach.cfg", must_pass=False,
                     label="vacuity: enqueue inside the Check/Block window reachable"), "invariant", "Impl window reachability")
    return {}


def report(ctx, traces, rej, cfgs):
    for x in rej[:20]:
        t = traces[x.idx]
        ev = t["ev"][x.reached] if x.reached < len(t["ev"]) else None
        before = [e for e in t["ev"][:x.reached] if e["e"] == "run" and ev and e["p"] == ev.get("p")][-2:]
        ctx.violation(fingerprint(t, x),
                      "%s reactor (clock=%s, %d producer threads, shape %s): run not explained by ThreadCalls.tla at event %d: %s "
                      "[%s; previous calls of that producer seen running: %s]" % (
                          t["cfg"]["reactor_class"], t["cfg"]["clock"], len(t["cfg"]["n"]) - 1, t["cfg"]["shape"], x.reached, ev,
                          classify(t, x.reached), [e["i"] for e in before]),
                      dict(config=cfgs[x.idx] if cfgs else None, rejected_at=x.reached, repeats=5))


def run(ctx):
    from concurrent.futures import ThreadPoolExecutor
    cfgs = plan(ctx)
    # real runs need no TLC: start them first, model-check meanwhile
    with ThreadPoolExecutor(1) as bg:
        fut = bg.submit(run_all, ctx, cfgs)
        model_checks(ctx)
        traces = fut.result()
    order = sorted(range(len(traces)), key=lambda k: len(traces[k]["ev"]))      # small ones first (evidence samples)
    traces = [traces[k] for k in order]
    cfgs = [cfgs[k] for k in order]
    for t in traces:
        ctx.note_trace(t, nontrivial=nontrivial(t))
    ctx.extra["real_runs"] = len(traces)
    ctx.extra["calls_executed"] = sum(len(t["ev"]) - 1 for t in traces)
    ctx.extra["max_threads"] = max(len(t["cfg"]["n"]) - 1 for t in traces)
    ctx.extra["idle_issued_calls"] = sum(1 for t in traces for e in t["ev"] if e.get("idle"))
    ctx.extra["promptness_bound_s"] = LAT_UNIT_MS / 1000.0
    ctx.extra["runs_per_reactor"] = {r: sum(1 for t in traces if t["cfg"]["reactor"] == r) for r in REACTORS}
    ctx.extra["stuck_runs"] = sum(1 for t in traces if t["stuck"])
    ctx.exhaustive = False
    ctx.log("recorded %d real reactor runs, %d calls, %d idle-issued" % (len(traces), ctx.extra["calls_executed"], ctx.extra["idle_issued_calls"]))
    slim = [{"cfg": t["cfg"], "ev": t["ev"]} for t in traces]
    nsh = ctx.pick(2, 8)
    rej = ctx.validate("ThreadCallsTrace", slim, shard_size=max(1, (len(slim) + nsh - 1) // nsh))
    report(ctx, traces, rej, cfgs)
    bad = {x.idx for x in rej}
    good = [t for k, t in enumerate(slim) if k not in bad and len(t["ev"]) <= 3000]
    ctx.selftest_rejects("ThreadCallsTrace", good * 4, mutate, n=ctx.pick(14, 40))


def replay(ctx, obj):
    from harness.core import REPO
    cfg = obj["config"]
    traces = [run_one(cfg, os.path.join(REPO, "src")) for _ in range(int(obj.get("repeats", 5)))]
    for t in traces:
        ctx.note_trace(t, nontrivial=nontrivial(t))
    rej = ctx.validate("ThreadCallsTrace", [{"cfg": t["cfg"], "ev": t["ev"]} for t in traces])
    report(ctx, traces, rej, [cfg] * len(traces))
    print("replayed %d runs, %d rejected" % (len(traces), len(rej)))
