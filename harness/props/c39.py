"""C39 -- Telnet option negotiation always converges.

Specs:    specs/TelnetNegObs.tla   the property over observable events (Abs layer, verdicts)
          specs/TelnetNeg.tla      will/wont/do/dont + the 16 *_map handlers of telnet.Telnet transcribed,
                                   two endpoints, FIFO channels (Impl-shaped layer)
          TelnetNegMC (exhaustive + liveness), TelnetNegTrace / TelnetNegAbsTrace (trace validation),
          TelnetNegSim (behaviour generation)
Binding:  two real twisted.conch.telnet.Telnet objects with accepting/refusing policies and a
          controlled message queue per direction.  One event per public call / per delivered
          negotiation message, carrying what an application can see: the messages written to the
          transport, the request Deferreds that fired (and with what), escaping exceptions, and -- when
          nothing is in flight -- each side's view of every option.  TLC decides.
"""
import itertools

META = dict(
    id="C39",
    specs=["TelnetNegObs.tla", "TelnetNeg.tla", "TelnetNegMC.tla", "TelnetNegTrace.tla", "TelnetNegAbsTrace.tla", "TelnetNegSim.tla"],
    technique="TLA+ transcription of Telnet.will/wont/do/dont and the 16 willMap/wontMap/doMap/dontMap handlers for two endpoints over FIFO channels; TLC exhaustive over all policies x request sequences x delivery interleavings (safety) and with fair delivery (termination, every Deferred fires); TLC trace validation of real Telnet pairs (state-hashed exhaustive interleavings, random long runs, TLC-generated behaviours), verdict by a property-only observer spec",
    level_text="TLC proves on the transcribed negotiation algorithm, for every accept/refuse policy of both sides, every sequence of up to the stated number of will/wont/do/dont requests and every interleaving with message deliveries: every request Deferred fires exactly once, at most two messages per request are ever written (no loops), under fair delivery the channels drain, and whenever nothing is in flight both sides agree on every option. Every recorded execution of two real Telnet objects is validated by TLC as a behaviour of that specification with every logged field matched; the verdict on a real execution is taken by TLC from a second specification that states only the property.",
    level_note="Trusted: TLC; the adapter's recording of transport writes, Deferred callbacks and getOptionState(); messages are delivered whole (byte-level splitting is C38's subject) and channels are FIFO/lossless as TCP is. Requests issued from inside Deferred callbacks (re-entrant) are not generated. Only the premise policies (a side requests only options its own policy accepts) are explored.",
    design_ref="2.8 C39",
    rule="history = sequence of will/wont/do/dont requests by either side and single-message deliveries on a pair of real Telnet objects with given enableLocal/enableRemote policies; distinct = hash of (cfg, events); non-trivial = at least two different event kinds",
)

CMD = {251: "WILL", 252: "WONT", 253: "DO", 254: "DONT"}
CMDB = {v: k for k, v in CMD.items()}
IAC = 255
OPTBYTES = [1, 3, 24, 31, 0, 34, 254, 39]      # concrete option codes an abstract option may stand for


class World:
    """Two real Telnet endpoints + one FIFO queue per direction."""

    def __init__(self, cfg, optcodes=None):
        from twisted.conch import telnet

        self.cfg = cfg
        self.nopt = cfg["nopt"]
        self.code = list(optcodes or OPTBYTES[:self.nopt])       # option index (1-based) -> byte value
        self.idx = {c: i + 1 for i, c in enumerate(self.code)}
        self.q = {1: [], 2: []}          # q[e] = messages in flight TO e (raw bytes)
        self.ev = []
        self.ops = []
        self.stack = []                  # events of the calls in progress (delivery, nested request)
        self.follow = None
        self.orphan = {"fired": []}
        self.nreq = 0
        self.dfr = {}                    # id(Deferred) -> request id (state key only)
        self.pending = set()
        self.deliveries = 0
        world = self

        class Transport:
            def __init__(self, owner):
                self.owner = owner
                self.buf = b""

            def write(self, data):
                self.buf += data

        class EP(telnet.Telnet):
            def __init__(self, n):
                telnet.Telnet.__init__(self)
                self.n = n

            def enableLocal(self, option):
                o = world.idx.get(option[0])
                return bool(o and cfg["accL"][self.n - 1][o - 1])

            def enableRemote(self, option):
                o = world.idx.get(option[0])
                return bool(o and cfg["accR"][self.n - 1][o - 1])

            def disableLocal(self, option):
                pass

            def disableRemote(self, option):
                pass

        self.ep = {}
        for n in (1, 2):
            p = EP(n)
            p.makeConnection(Transport(n))
            self.ep[n] = p

    # -- helpers
    def _collect(self, p):
        """Messages p wrote during the call -> queue to the peer; returns their abstract form."""
        t = self.ep[p].transport
        data, t.buf = t.buf, b""
        sent = []
        i = 0
        while i < len(data):
            chunk = data[i:i + 3]
            if len(chunk) == 3 and chunk[0] == IAC and chunk[1] in CMD and chunk[2] in self.idx:
                sent.append([CMD[chunk[1]], self.idx[chunk[2]]])
                self.q[3 - p].append(chunk)
                i += 3
            else:                       # not a negotiation message: nothing the specification can match
                sent.append(["BYTES:" + data[i:].hex(), 0])
                break
        return sent

    def _quiet(self):
        if self.q[1] or self.q[2]:
            return
        st = []
        for n in (1, 2):
            row = []
            for o in range(1, self.nopt + 1):
                s = self.ep[n].getOptionState(bytes([self.code[o - 1]]))
                row.append([s.us.state == "yes", s.him.state == "yes"])
            st.append(row)
        self.ev.append({"e": "quiet", "st": st})

    def _fire(self, rid, val):
        """A request Deferred fired (callback attached by the driver).  If it fired inside a delivery and the
        driver planned a follow-up for this delivery, the callback issues that request synchronously."""
        (self.stack[-1] if self.stack else self.orphan)["fired"].append([rid, val])
        self.pending.discard(rid)
        f = self.follow
        if f is not None and len(self.stack) == 1 and self.stack[0]["e"] == "recv":
            self.follow = None
            self.request(f[0], f[1][0], f[1][1], re=True)

    def request(self, p, k, o, re=False):
        if not re:
            self.ops.append(["req", p, k, o])
        else:
            # what the handler wrote before it fired the Deferred belongs to the delivery event
            self.stack[-1]["sent"] += self._collect(p)
        self.nreq += 1
        rid = self.nreq
        ev = {"e": "req", "p": p, "k": k, "o": o, "id": rid, "sent": [], "fired": [], "exc": "", "re": re}
        self.ev.append(ev)
        self.stack.append(ev)
        try:
            d = getattr(self.ep[p], k)(bytes([self.code[o - 1]]))
            self.pending.add(rid)
            self.dfr[id(d)] = (rid, d)
            d.addCallbacks(lambda r, rid=rid: self._fire(rid, str(r)), lambda f, rid=rid: self._fire(rid, f.type.__name__))
        except BaseException as e:       # no action of the specification raises from a request
            ev["exc"] = type(e).__name__
        self.stack.pop()
        ev["sent"] += self._collect(p)
        if not re:
            self._quiet()

    def deliver(self, p, follow=None):
        """Deliver the oldest message in flight to p.  follow = (kind, option): if a request Deferred of p fires
        during this delivery, its callback synchronously calls kind(option) on p."""
        self.ops.append(["recv", p] + ([list(follow)] if follow else []))
        raw = self.q[p].pop(0)
        self.deliveries += 1
        ev = {"e": "recv", "p": p, "m": [CMD[raw[1]], self.idx[raw[2]]], "sent": [], "fired": [], "exc": ""}
        self.ev.append(ev)
        self.stack.append(ev)
        self.follow = (p, follow) if follow else None
        try:
            self.ep[p].dataReceived(raw)
        except BaseException as e:
            ev["exc"] = type(e).__name__
        self.follow = None
        del self.stack[:]
        ev["sent"] += self._collect(p)
        self._quiet()

    def drain(self, rng=None):
        """Deliver until nothing is in flight; give up (overrun event) after a generous cap."""
        cap = 8 * self.nreq + 64
        n = 0
        while self.q[1] or self.q[2]:
            if n >= cap:
                self.ev.append({"e": "overrun"})
                return
            sides = [p for p in (1, 2) if self.q[p]]
            self.deliver(rng.choice(sides) if rng else sides[0])
            n += 1

    def apply(self, op):
        if op[0] == "req":
            self.request(op[1], op[2], op[3])
        elif op[0] == "recv":
            if self.q[op[1]]:
                self.deliver(op[1], tuple(op[2]) if len(op) > 2 else None)
        elif op[0] == "drain":
            self.drain()

    def key(self):
        """Hash key for the exhaustive exploration (pruning only, never a verdict)."""
        k = [self.nreq, tuple(sorted(self.pending)), tuple(self.q[1]), tuple(self.q[2])]
        for n in (1, 2):
            for o in range(1, self.nopt + 1):
                s = self.ep[n].getOptionState(bytes([self.code[o - 1]]))
                for pv in (s.us, s.him):
                    d = pv.onResult
                    k.append((pv.state, bool(pv.negotiating), self.dfr.get(id(d), (0,))[0] if d is not None else 0))
        return tuple(k)

    def trace(self):
        return {"cfg": self.cfg, "ops": [list(o) for o in self.ops], "codes": self.code, "ev": [dict(e) for e in self.ev]}


KINDS = ("will", "wont", "do", "dont")


def allowed_requests(cfg):
    out = []
    for p in (1, 2):
        for o in range(1, cfg["nopt"] + 1):
            for k in KINDS:
                if k == "will" and not cfg["accL"][p - 1][o - 1]:
                    continue
                if k == "do" and not cfg["accR"][p - 1][o - 1]:
                    continue
                out.append(("req", p, k, o))
    return out


def run_ops(cfg, ops, codes=None):
    w = World(cfg, codes)
    for op in ops:
        w.apply(tuple(op))
    return w


def explore(cfg, maxreq, max_traces=None, follow=True):
    """All interleavings of <= maxreq requests (any side/kind/option allowed by the premise) with
    single-message deliveries, on the real objects, pruned by hashing the reached state.  With
    follow=True every delivery during which a request Deferred fires is also explored with every
    allowed follow-up request issued synchronously from that Deferred's callback."""
    reqs = allowed_requests(cfg)
    seen = set()
    traces = []
    stats = {"states": 0, "edges": 0, "truncated": False, "reentrant": 0}

    def rec(ops):
        if max_traces is not None and len(traces) >= max_traces:
            stats["truncated"] = True
            return
        w = run_ops(cfg, ops)
        k = w.key()
        nxt = []
        if k not in seen:
            seen.add(k)
            stats["states"] += 1
            if w.nreq < maxreq:
                nxt += reqs
            for p in (1, 2):
                if w.q[p]:
                    nxt.append(("recv", p))
                    if follow and w.nreq < maxreq:
                        w2 = run_ops(cfg, ops + [("recv", p)])
                        if any(e["e"] == "recv" and e["fired"] for e in w2.ev[len(w.ev):]):
                            nxt += [("recv", p, (r[2], r[3])) for r in reqs if r[1] == p]
        if not nxt:
            traces.append(w.trace())
            return
        for op in nxt:
            stats["edges"] += 1
            if len(op) == 3 and op[0] == "recv":
                stats["reentrant"] += 1
            rec(ops + [op])

    rec([])
    return traces, stats


def policies(nopt):
    rows = list(itertools.product([False, True], repeat=nopt))
    for a1, a2, r1, r2 in itertools.product(rows, repeat=4):
        yield {"nopt": nopt, "accL": [list(a1), list(a2)], "accR": [list(r1), list(r2)]}


def random_history(ctx, cfg, nreq):
    rng = ctx.rng
    codes = rng.sample(OPTBYTES, cfg["nopt"])
    w = World(cfg, codes)
    reqs = allowed_requests(cfg)
    left = nreq
    while left > 0 and reqs:
        r = rng.random()
        sides = [p for p in (1, 2) if w.q[p]]
        if sides and r < 0.55:
            p = rng.choice(sides)
            fu = None
            if rng.random() < 0.4:               # a follow-up issued from the callback, should a Deferred fire
                op = rng.choice([q for q in reqs if q[1] == p] or [None])
                fu = (op[2], op[3]) if op else None
            w.deliver(p, fu)
        else:
            op = rng.choice(reqs)
            w.request(op[1], op[2], op[3])
            left -= 1
        if rng.random() < 0.05:
            w.drain(rng)
    w.ops.append(["drain"])
    w.drain()
    return w.trace()


def mutate(t, rng):
    """Corrupt one logged field / drop one event (binding self-test)."""
    evs = t["ev"]
    c = rng.randrange(4)
    if c == 0:
        cands = [i for i, e in enumerate(evs) if e["e"] in ("req", "recv") and e["sent"]]
        if cands:
            e = evs[rng.choice(cands)]
            m = e["sent"][0]
            m[0] = {"WILL": "WONT", "WONT": "WILL", "DO": "DONT", "DONT": "DO"}[m[0]]
            return t
    if c == 1:
        cands = [i for i, e in enumerate(evs) if e["e"] == "recv" and e["fired"]]
        if cands:
            evs[rng.choice(cands)]["fired"] = []          # a Deferred that never fires
            return t
    if c == 2:
        cands = [i for i, e in enumerate(evs) if e["e"] == "quiet"]
        if cands:
            st = evs[rng.choice(cands)]["st"]
            st[0][0][0] = not st[0][0][0]                  # the sides disagree
            return t
    cands = [i for i, e in enumerate(evs) if e["e"] == "recv"]
    if cands:
        del evs[rng.choice(cands)]                         # a delivery goes missing
        return t
    return None


def abs_validate(ctx, module, traces, shard_size=1500):
    """Run the property-only trace spec over `traces` (batched, sharded).  Unlike ctx.validate this
    keeps TLC's output: the spec prints <<"VIOL", tid, l, clauses>> for every step at which a clause
    of the property is broken (and goes on with the rest of the trace).  Returns
    {index: [(event index, [clauses]), ...]} for the traces TLC did not accept."""
    import json
    import os
    from concurrent.futures import ThreadPoolExecutor
    from harness import core

    shards = [traces[i:i + shard_size] for i in range(0, len(traces), shard_size)]

    def one(si):
        path = os.path.join(ctx.work, "abs-%s-%d-%d.json" % (module, si, os.getpid()))
        with open(path, "w") as f:
            json.dump(shards[si], f, separators=(",", ":"))
        r = core.run_tlc(module, module + ".cfg", ctx.work, workers=1, env={"TRACE_FILE": path},
                         props=("-Dtlc2.tool.queue.IStateQueue=StateDeque",))
        os.remove(path)
        return si, r

    n = max(1, min(int(os.environ.get("VERIF_SHARDS") or core.NCPU), len(shards)))
    with ThreadPoolExecutor(n) as ex:
        results = list(ex.map(one, range(len(shards))))
    bad = {}
    for si, r in results:
        ctx.states += r.distinct
        ctx.transitions += r.generated
        base = si * shard_size
        viols = core.extract_printed(r.out, "VIOL")
        rej = None
        for v in core.extract_printed(r.out, "REJECTED"):
            rej = v[1]
        if not r.ok and rej is None:
            raise core.MachineryError("TLC failed on %s without REJECTED line: %s\n%s" % (module, r.error, r.out[-2000:]))
        for v in viols:
            bad.setdefault(base + v[1] - 1, []).append((v[2] - 1, sorted(v[3])))
        for tid, l in (rej or []):
            if base + tid - 1 not in bad:      # stuck without a flagged clause: cannot happen with a total observer
                bad[base + tid - 1] = [(l - 1, ["trace-not-explained"])]
    for k in bad:
        bad[k] = sorted(set((a, tuple(c)) for a, c in bad[k]))
    return bad


def fingerprint(trace, at, clauses):
    e = trace["ev"][at] if at is not None and at < len(trace["ev"]) else {}
    detail = e.get("e", "?")
    if detail == "recv":
        detail += ":" + e["m"][0] + (":" + e["exc"] if e.get("exc") else "")
    elif detail == "req":
        detail += ":" + e["k"] + (":" + e["exc"] if e.get("exc") else "")
    return "+".join(clauses) + "@" + detail


def judge(ctx, traces, rej, what):
    """Traces the Impl-shaped spec rejected are re-judged by the property-only spec (the verdict)."""
    if not rej:
        return set()
    sus = [traces[x.idx] for x in rej]
    bad = abs_validate(ctx, "TelnetNegAbsTrace", sus)
    oks = [i for i in range(len(sus)) if i not in bad]
    ctx.impl_drift += len(oks)
    ctx.traces_ok += len(oks)          # accepted by the verdict layer
    if oks:
        t, x = sus[oks[0]], rej[oks[0]]
        ctx.log("impl drift: %d executions differ from the transcribed algorithm but satisfy the property; first at event %d: %s"
                % (len(oks), x.reached, t["ev"][x.reached] if x.reached < len(t["ev"]) else None))
        ctx.extra.setdefault("impl_drift_samples", []).append(dict(cfg=t["cfg"], ops=t["ops"], codes=t.get("codes"), at=x.reached))
    for i in sorted(bad):
        t = sus[i]
        for at, clauses in bad[i]:
            e = t["ev"][at] if at < len(t["ev"]) else {}
            ctx.violation(fingerprint(t, at, list(clauses)),
                          "%s: real Telnet pair breaks %s at event %s: %s" % (what, list(clauses), at, e),
                          dict(cfg=t["cfg"], ops=t["ops"], codes=t.get("codes"), rejected_at=at, clauses=list(clauses)))
    return {rej[i].idx for i in bad}


REACHABLE = ["WillBusy", "WillAlready", "WillSend", "WontBusy", "WontAlready", "WontSend",
             "DoBusy", "DoAlready", "DoSend", "DontBusy", "DontAlready", "DontSend",
             "WillNoFalse", "WillNoTrue", "WontNoTrue", "WontYesFalse", "WontYesTrue",
             "DoNoFalse", "DoNoTrue", "DontNoTrue", "DontYesFalse", "DontYesTrue", "Quiet"]


def run(ctx):
    from harness.core import MachineryError

    # (a) the design: exhaustive safety + liveness on the transcribed algorithm
    for cfgname in ctx.pick(["TelnetNegMC.cfg"], ["TelnetNegMC.thorough.cfg", "TelnetNegMC.2opt.cfg"]):
        r = ctx.mc("TelnetNegMC", cfgname)
        if not r.ok:
            raise MachineryError("TelnetNeg (transcribed algorithm) violates the property in TLC: %s\n%s" % (r.error, "".join(r.cex[-3:])[:3000]))
    ctx.require_actions("TelnetNegMC", REACHABLE)
    r = ctx.mc("TelnetNegMC", ctx.pick("TelnetNegLive.cfg", "TelnetNegLive.thorough.cfg"), coverage=False)
    if not r.ok:
        raise MachineryError("TelnetNeg liveness (termination / every Deferred fires) fails in TLC: %s" % r.error)

    # (b) code -> spec
    traces = []
    ex = {}
    trunc = False
    for cfg in policies(1):
        ts, st = explore(cfg, ctx.pick(3, 5))
        traces += ts
        ex["1opt"] = [ex.get("1opt", [0, 0])[0] + st["states"], ex.get("1opt", [0, 0])[1] + st["edges"]]
    full = {"nopt": 2, "accL": [[True, True], [True, True]], "accR": [[True, True], [True, True]]}
    mixed = {"nopt": 2, "accL": [[True, False], [True, True]], "accR": [[True, True], [False, True]]}
    for cfg in (full, mixed):
        ts, st = explore(cfg, ctx.pick(2, 3), max_traces=ctx.pick(4000, 60000))
        traces += ts
        trunc = trunc or st["truncated"]
        ex["2opt"] = [ex.get("2opt", [0, 0])[0] + st["states"], ex.get("2opt", [0, 0])[1] + st["edges"]]
    ctx.exhaustive = not trunc
    ctx.extra["exhaustive_real"] = dict(one_option_all_16_policies=dict(max_requests=ctx.pick(3, 5), states=ex["1opt"][0], edges=ex["1opt"][1]),
                                        two_options_2_policies=dict(max_requests=ctx.pick(2, 3), states=ex["2opt"][0], edges=ex["2opt"][1]))
    nex = len(traces)
    ctx.log("exhaustive interleavings on the real objects: %d maximal paths (%s)" % (nex, ex))
    pols2 = list(policies(2))
    for i in range(ctx.pick(400, 10000)):
        cfg = ctx.rng.choice(pols2) if ctx.rng.random() < 0.7 else full
        traces.append(random_history(ctx, cfg, ctx.rng.randint(4, 40)))
    # (c) spec -> code
    behs = ctx.simulate("TelnetNegSim", "TelnetNegSim.cfg", num=ctx.pick(30, 1500), depth=16)
    ctx.rng.shuffle(behs)
    behs = behs[:ctx.pick(150, 3000)]
    drift = 0
    for b in behs:
        ops = []
        for h in b["hist"]:
            if h["e"] == "req" and h["re"]:
                ops[-1] = ["recv", ops[-1][1], [h["k"], h["o"]]]     # issued from the callback fired by that delivery
            elif h["e"] == "req":
                ops.append(["req", h["p"], h["k"], h["o"]])
            elif h["e"] == "recv":
                ops.append(["recv", h["p"]])
        w = run_ops(b["cfg"], ops)
        pred = [h for h in b["hist"] if h["e"] != "quiet"]
        real = [e for e in w.ev if e["e"] != "quiet"]
        if pred != real:
            drift += 1
        w.ops.append(["drain"])
        w.drain()
        traces.append(w.trace())
    ctx.extra["spec_behaviours_replayed"] = len(behs)
    ctx.extra["spec_behaviours_not_reproduced"] = drift
    ctx.note_traces(traces)
    nre = sum(1 for t in traces for e in t["ev"] if e["e"] == "req" and e["re"])
    ctx.extra["reentrant_requests_executed"] = nre     # requests issued synchronously from a firing Deferred's callback
    ctx.log("recorded %d real executions (%d events, %d requests issued from inside a Deferred callback)"
            % (len(traces), sum(len(t["ev"]) for t in traces), nre))
    rej = ctx.validate("TelnetNegTrace", traces, shard_size=ctx.pick(1500, 4000))
    badidx = judge(ctx, traces, rej, "history")
    rejidx = {x.idx for x in rej}
    good = [t for i, t in enumerate(traces) if i not in rejidx and len(t["ev"]) >= 6 and t["ev"][-1]["e"] == "quiet"]
    if not good:
        raise MachineryError("no accepted trace to run the binding self-test on")
    ctx.selftest_rejects("TelnetNegTrace", good[-300:], mutate, n=20)
    ctx.selftest_rejects("TelnetNegAbsTrace", good[-300:], mutate, n=20)


def replay(ctx, obj):
    w = run_ops(obj["cfg"], obj["ops"], obj.get("codes"))
    t = w.trace()
    ctx.note_trace(t)
    rej = ctx.validate("TelnetNegTrace", [t])
    judge(ctx, [t], rej, "replayed history")
    for e in t["ev"]:
        print(e)
