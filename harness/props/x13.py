"""X13 (extension, not a listed property) -- twisted.mail.pop3.POP3 server session state machine.
Spec: specs/Pop3Session.tla.  Reported under coverage.extra_modules of the nearest property (C40).

The REAL pop3.POP3 protocol is bound to a StringTransport subclass (which additionally behaves like a real
FileDescriptor once the harness declares the connection lost: writes are dropped, a registered producer is stopped, a
producer registered afterwards is stopped at once) and to a REAL cred Portal over a recording realm / IMailbox and a
checker whose outcome (accept / reject / deny / answer later) is chosen by the user name.  `schedule` (the documented
cooperator hook) hands the iterator to the harness, which finishes it in a later `run` op; the FileSender pull producer
of RETR/TOP is likewise pumped by `run`.  One event per op: every line written and every realm/mailbox/logout call, in
order, plus the escaping exception class and transport.disconnecting."""

import re

META = dict(
    id="X13", extension=True, nearest="C40",
    specs=["Pop3Session.tla", "Pop3SessionMC.tla", "Pop3SessionTrace.tla"],
    technique="TLA+ spec of the POP3 server session (AUTHORIZATION/TRANSACTION/UPDATE, pipelining queue, long operations, "
              "logout) model-checked by TLC + TLC trace validation of the real pop3.POP3 on StringTransport with a real "
              "cred Portal (exhaustive-short and seeded-random command histories)",
    level_text="extension module: grows the specification beyond the listed properties",
    level_note="not a listed property; alarms are reported as EXTRA-ALARM, never as VIOLATION.  One connection; whole lines "
               "only (line framing is LineOnlyReceiver's); synchronous mailbox; timeouts (TimeoutMixin), CAPA/AUTH/RPOP and "
               "argument-count errors are not modelled; the transport's behaviour after connection loss is emulated after "
               "abstract.FileDescriptor",
    design_ref="4 (extensions)",
    rule="history of connect / command line / fire pending login (ok|fail) / run pending long operation / connection lost; "
         "an op whose precondition does not hold is dropped; distinct by (mailbox size, event sequence)",
)

MSGS = [b"Subject: m1\nX-A: m1\n\nm1 line\n.m1 dot\n", b"Subject: m2\n\nm2 body\nm2 tail", b"Subject: m3\n\n"]
SHAPE = [dict(hl=3, bl=2, tail=False), dict(hl=2, bl=1, tail=True), dict(hl=2, bl=0, tail=False)]
USERS = {1: b"good", 2: b"nobody", 3: b"later", 4: b"denied"}
PASSWORD = b"se cret"          # the space exercises do_PASS joining *words
MAGIC = b"<magic@x13>"
_QUIET = []

FIXED = {
    b"+OK " + MAGIC: "ok:greet",
    b"+OK USER accepted, send PASS": "ok:user",
    b"+OK Authentication succeeded": "ok:auth",
    b"+OK Top of message follows": "ok:top",
    b"-ERR Authentication failed": "err:authfail",
    b"-ERR Access denied: <class 'twisted.cred.error.LoginDenied'>": "err:denied",
    b"-ERR USER required before PASS": "err:nouser",
    b"-ERR Bad message number argument": "err:badnum",
    b"-ERR message deleted": "err:deleted",
    b"-ERR bad protocol or server: ValueError: ": "err:valueerror",
    b"-ERR bad protocol or server: POP3Error: Unknown protocol command: XYZZY": "err:unknown",
    b".": "dot",
    b"": "blank",
}
NOAUTH = re.compile(rb"^-ERR bad protocol or server: POP3Error: not authenticated yet: cannot do [A-Z]+$")
PATS = [(re.compile(rb"^\+OK (\d+) (\d+)$"), "ok"), (re.compile(rb"^\+OK (\d+)$"), "ok"), (re.compile(rb"^\+OK uid(\d+)$"), "okuid"),
        (re.compile(rb"^(\d+) (\d+)$"), "ln"), (re.compile(rb"^(\d+) uid(\d+)$"), "uid"),
        (re.compile(rb"^-ERR Invalid message-number: (\d+)$"), "err:invnum")]


def wire_table():
    """text of wire line -> (k, j): j-th line of message k as it must appear on the wire (dot-stuffed)"""
    tab = {}
    for k, m in enumerate(MSGS, 1):
        lines = m.split(b"\n")
        if lines[-1] == b"":
            lines.pop()
        for j, ln in enumerate(lines, 1):
            if ln.startswith(b"."):
                ln = b"." + ln
            if ln:
                tab[ln] = (k, j)
    return tab


WIRE = wire_table()


def classify(line):
    if line == b"+OK ":
        return ["ok", -1, -1]
    if line in FIXED:
        return [FIXED[line], -1, -1]
    if NOAUTH.match(line):
        return ["err:noauth", -1, -1]
    for pat, tag in PATS:
        m = pat.match(line)
        if m:
            g = [int(x) for x in m.groups()]
            if all(x < 100000 for x in g):
                return [tag, g[0], g[1] if len(g) > 1 else -1]
    if line in WIRE:
        return ["msg", WIRE[line][0], WIRE[line][1]]
    return ["junk", -1, -1]


def cfg_for(n):
    return {"msgs": [dict(size=len(MSGS[i]), **SHAPE[i]) for i in range(n)]}


def render(cmd):
    nm, a, b = cmd
    if nm == "USER":
        return b"USER " + USERS[a]
    if nm == "PASS":
        return b"PASS " + (PASSWORD if a == 1 else b"wrong pw")
    if nm == "APOP":
        import hashlib
        good = hashlib.md5(MAGIC + PASSWORD).hexdigest().encode("ascii")
        return b"APOP " + USERS[a] + b" " + (good if b == 1 else b"0" * 32)
    if nm in ("LIST", "UIDL") and a == -1:
        return nm.encode("ascii")
    if nm == "DELE" and a == -2:
        return b"DELE x"
    if nm in ("LIST", "UIDL", "RETR", "DELE"):
        return nm.encode("ascii") + b" %d" % a
    if nm == "TOP":
        return b"TOP %d %d" % (a, b)
    return nm.encode("ascii")


def run_history(n, ops):
    """Drive one real POP3 server protocol through `ops`; returns the trace (cfg, ops actually applied, events)."""
    from zope.interface import implementer
    from twisted.cred import checkers, credentials, error as credError, portal
    from twisted.internet import defer, task
    from twisted.internet.error import ConnectionDone
    from twisted.internet.testing import StringTransport
    from twisted.mail import pop3
    from twisted.python.failure import Failure
    import io

    if not _QUIET:
        # pop3 reports refused commands with log.err; the global publisher prints critical events to stderr until
        # logging is started: start it with a null observer (harness environment only).
        from twisted.logger import globalLogBeginner
        try:
            globalLogBeginner.beginLoggingTo([lambda event: None], redirectStandardIO=False, discardBuffer=True)
        except Exception:
            pass
        _QUIET.append(1)
    rec = []          # ("w", bytes) | ("c", [tag, session, arg]) in order
    nsess = [0]
    later = []        # [deferred, username] of logins answered later
    sched = []        # [(iterator, deferred)] handed to p.schedule and not finished yet

    class Transport(StringTransport):
        gone = False

        def write(self, data):
            if not self.gone:
                rec.append(("w", bytes(data)))

        def writeSequence(self, data):
            self.write(b"".join(data))

        def registerProducer(self, producer, streaming):
            if self.gone:                      # abstract.FileDescriptor.registerProducer on a disconnected transport
                if self.producer is not None:
                    raise RuntimeError("Cannot register two producers")
                producer.stopProducing()
            else:
                StringTransport.registerProducer(self, producer, streaming)

    @implementer(pop3.IMailbox)
    class RecMailbox:
        def __init__(self, k):
            self.k, self.marks, self.expunged = k, set(), set()

        def _check(self, i):
            if not isinstance(i, int) or i < 0 or i >= n:
                raise ValueError()

        def listMessages(self, i=None):
            sizes = [0 if j in self.marks or j in self.expunged else len(MSGS[j]) for j in range(n)]
            if i is None:
                return sizes
            self._check(i)
            return sizes[i]

        def getMessage(self, i):
            self._check(i)
            if i in self.marks or i in self.expunged:
                raise ValueError()
            return io.BytesIO(MSGS[i])

        def getUidl(self, i):
            self._check(i)
            return b"uid%d" % (i + 1)

        def deleteMessage(self, i):
            rec.append(("c", ["c:delete", self.k, i if isinstance(i, int) and -5 < i < 50 else 99]))
            self._check(i)
            if i in self.marks or i in self.expunged:
                raise ValueError()
            self.marks.add(i)

        def undeleteMessages(self):
            rec.append(("c", ["c:undelete", self.k, -1]))
            self.marks.clear()

        def sync(self):
            rec.append(("c", ["c:sync", self.k, -1]))
            self.expunged |= self.marks
            self.marks.clear()

    @implementer(portal.IRealm)
    class Realm:
        def requestAvatar(self, avatarId, mind, *interfaces):
            nsess[0] += 1
            k = nsess[0]
            rec.append(("c", ["c:avatar", k, -1]))
            return pop3.IMailbox, RecMailbox(k), lambda: rec.append(("c", ["c:logout", k, -1]))

    @implementer(checkers.ICredentialsChecker)
    class Checker:
        credentialInterfaces = (credentials.IUsernamePassword, credentials.IUsernameHashedPassword)

        def requestAvatarId(self, creds):
            u = creds.username
            if u == USERS[1]:
                if creds.checkPassword(PASSWORD):
                    return u
                raise credError.UnauthorizedLogin()
            if u == USERS[3]:
                d = defer.Deferred()
                later.append([d, u])
                return d
            if u == USERS[4]:
                raise credError.LoginDenied()
            raise credError.UnauthorizedLogin()

    clock = task.Clock()
    p = pop3.POP3()
    p.portal = portal.Portal(Realm(), [Checker()])
    p.magic = MAGIC
    p.callLater = clock.callLater              # TimeoutMixin hook: keep timeouts off the global reactor (not modelled)

    def schedule(it):
        d = defer.Deferred()
        sched.append((it, d))
        return d
    p.schedule = schedule
    tr = Transport()
    state = dict(up=False, lost=False)
    ev, applied = [], []

    def flush():
        obs, buf = [], b""
        for kind, x in rec + [("c", None)]:
            if kind == "w":
                buf += x
                continue
            if buf:
                parts = buf.split(b"\r\n")
                obs.extend(classify(ln) for ln in parts[:-1])
                if parts[-1]:
                    obs.append(["partial", -1, -1])
                buf = b""
            if x is not None:
                obs.append(x)
        del rec[:]
        return obs

    for op in ops:
        op = tuple(op)
        e = None
        exc = ""
        try:
            if op[0] == "connect":
                if state["up"]:
                    continue
                state["up"] = True
                e = {"e": "connect"}
                p.makeConnection(tr)
            elif not state["up"]:
                continue
            elif op[0] == "line":
                if state["lost"]:
                    continue
                cmd = list(op[1])
                e = {"e": "line", "cmd": cmd}
                p.dataReceived(render(cmd) + b"\r\n")
            elif op[0] == "fire":
                k, ok = op[1], bool(op[2])
                if k < 1 or k > len(later) or later[k - 1][0] is None:
                    continue
                d, u = later[k - 1]
                later[k - 1][0] = None
                e = {"e": "fire", "k": k, "ok": ok}
                if ok:
                    d.callback(u)
                else:
                    d.errback(credError.UnauthorizedLogin())
            elif op[0] == "run":
                if sched:
                    it, d = sched.pop(0)
                    e = {"e": "run"}
                    for _ in it:
                        pass
                    d.callback(it)
                elif tr.producer is not None:
                    e = {"e": "run"}
                    prod = tr.producer             # pump this transfer only (draining the queue may register the next one)
                    for _ in range(50):
                        if tr.producer is not prod:
                            break
                        prod.resumeProducing()
                else:
                    continue
            elif op[0] == "lost":
                if state["lost"]:
                    continue
                state["lost"] = True
                e = {"e": "lost"}
                tr.gone = True                 # abstract.FileDescriptor.connectionLost: stop the producer, then tell the protocol
                if tr.producer is not None:
                    prod, tr.producer = tr.producer, None
                    prod.stopProducing()
                p.connectionLost(Failure(ConnectionDone()))
            else:
                continue
        except Exception as x:      # the exception class escaping a public entry point is an observable
            exc = type(x).__name__
        e["obs"] = flush()
        e["exc"] = exc
        e["closing"] = bool(tr.disconnecting)
        ev.append(e)
        applied.append([op[0]] + [list(x) if isinstance(x, (list, tuple)) else x for x in op[1:]])
    for c in clock.getDelayedCalls():
        c.cancel()
    return {"cfg": cfg_for(n), "n": n, "ops": applied, "ev": ev}


# ---------------------------------------------------------------------------------------------------------------
AUTH = [("USER", 1, -1), ("USER", 2, -1), ("USER", 3, -1), ("USER", 4, -1), ("PASS", 1, -1), ("PASS", 0, -1),
        ("APOP", 1, 1), ("APOP", 1, 0), ("APOP", 2, 1), ("APOP", 3, 1), ("APOP", 4, 1)]


def all_cmds(n, tops=(0, 1, 5)):
    idx = list(range(0, n + 2))
    cmds = list(AUTH) + [(nm, -1, -1) for nm in ("STAT", "LIST", "UIDL", "RSET", "NOOP", "LAST", "QUIT", "XYZZY")]
    cmds.append(("DELE", -2, -1))
    cmds += [(nm, i, -1) for nm in ("LIST", "UIDL", "RETR", "DELE") for i in idx]
    cmds += [("TOP", i, k) for i in idx for k in tops]
    return cmds


def random_ops(rng, n):
    """A plausible client: logs in (sometimes clumsily), issues transaction commands with pipelining, quits or drops."""
    ops = [("connect",)]
    cmds = all_cmds(n)
    trans = [c for c in cmds if c[0] not in ("USER", "PASS", "APOP")]
    style = rng.random()
    # authorization phase
    r = rng.random()
    if r < 0.45:
        ops += [("line", ("USER", 1, -1)), ("line", ("PASS", 1, -1))]
    elif r < 0.65:
        ops += [("line", ("APOP", 1, 1)), ("line", ("USER", 1, -1)), ("line", ("PASS", 1, -1))][rng.choice([0, 0, 1]):]
    elif r < 0.8:
        ops += [("line", rng.choice([("USER", 3, -1), ("APOP", 3, 1)]))]
        if ops[-1][1][0] == "USER":
            ops.append(("line", ("PASS", rng.choice([0, 1]), -1)))
    elif r < 0.9:
        for _ in range(rng.randint(1, 4)):
            ops.append(("line", rng.choice(cmds)))
    nlater = 0
    for _ in range(rng.randint(2, 22)):
        r = rng.random()
        if r < 0.55:
            c = rng.choice(trans)
            ops.append(("line", c))
            if style < 0.5 and rng.random() < 0.8:
                ops.append(("run",))          # a client that waits for each answer
        elif r < 0.67:
            c = rng.choice(AUTH)
            ops.append(("line", c))
            nlater += 1
        elif r < 0.82:
            ops.append(("run",))
        elif r < 0.92:
            ops.append(("fire", rng.randint(1, max(1, nlater)), rng.random() < 0.6))
        elif r < 0.96:
            ops.append(("line", ("QUIT", -1, -1)))
        else:
            ops.append(("lost",))
    for _ in range(rng.randint(0, 3)):
        ops.append(rng.choice([("run",), ("lost",), ("fire", rng.randint(1, max(1, nlater)), rng.random() < 0.5), ("run",)]))
    return ops


def short_histories(n, ntails=2):
    """Exhaustive-short: after a fixed successful login, every sequence of 2 ops from a focused alphabet, then
    run / lost / run -- covers every pair (long op or DELE or QUIT) x (any command) under pipelining and not;
    plus every 2-deep queue (head from 7, any second command) behind a RETR in progress."""
    first = [("line", c) for c in [("STAT", -1, -1), ("LIST", -1, -1), ("RETR", 1, -1), ("TOP", 1, 1), ("DELE", 1, -1),
                                   ("QUIT", -1, -1), ("APOP", 3, 1), ("RSET", -1, -1)]] + [("run",), ("lost",)]
    second = [("line", c) for c in all_cmds(n, tops=(1,))] + [("run",), ("lost",), ("fire", 1, True), ("fire", 1, False)]
    tails = [[("run",), ("lost",), ("run",)], [("lost",), ("run",), ("fire", 1, True)]]
    out = []
    for a in first:
        for b in second:
            for tl in tails[:ntails]:
                out.append([("connect",), ("line", ("USER", 1, -1)), ("line", ("PASS", 1, -1)), ("line", ("DELE", n, -1)), a, b] + tl)
    # two commands pipelined behind a transfer in progress: every (queue head from 7) x (any command)
    heads = [("STAT", -1, -1), ("RETR", 1, -1), ("TOP", n, 1), ("DELE", 1, -1), ("QUIT", -1, -1), ("XYZZY", -1, -1), ("USER", 3, -1)]
    for a in heads:
        for b in all_cmds(n, tops=(1,)):
            out.append([("connect",), ("line", ("USER", 1, -1)), ("line", ("PASS", 1, -1)), ("line", ("RETR", n, -1)),
                        ("line", a), ("line", b), ("run",), ("run",), ("fire", 1, True), ("run",), ("lost",)])
    return out


def fingerprint(t, reached):
    e = t["ev"][reached] if reached < len(t["ev"]) else None
    if e is None:
        return "pop3/end"
    return "pop3/%s%s" % (e["e"], "/" + e["cmd"][0] if e["e"] == "line" else "")


def check_catalog(ctx):
    """Pop3SessionMC.Catalog must describe the messages this harness serves."""
    import os
    from harness import core
    src = open(os.path.join(core.SPECS, "Pop3SessionMC.tla")).read()
    for i, m in enumerate(cfg_for(3)["msgs"]):
        want = "[size |-> %d, hl |-> %d, bl |-> %d, tail |-> %s]" % (m["size"], m["hl"], m["bl"], "TRUE" if m["tail"] else "FALSE")
        if want not in src:
            raise core.MachineryError("Pop3SessionMC.Catalog out of date: expected %s" % want)
    # SHAPE must describe MSGS
    for m, sh in zip(MSGS, SHAPE):
        head, body = m.split(b"\n\n", 1)
        assert sh["hl"] == head.count(b"\n") + 2 and sh["bl"] == body.count(b"\n") and sh["tail"] == (not body.endswith(b"\n") and body != b"")


def run(ctx):
    check_catalog(ctx)
    ctx.mc("Pop3SessionMC", ctx.pick("Pop3SessionMC.cfg", "Pop3SessionMC.thorough.cfg"), coverage=False)
    ctx.mc("Pop3SessionMC", "Pop3SessionMC.cov.cfg")
    ctx.require_actions("Pop3SessionMC", ["Connect", "Line", "FireAny", "Run", "Lost"])

    traces = []
    ns = ctx.pick([2], [1, 2, 3])
    for n in ns:
        for ops in short_histories(n, ctx.pick(1, 2)):
            traces.append(run_history(n, ops))
    nshort = len(traces)
    for _ in range(ctx.pick(1000, 20000)):
        n = ctx.rng.choice([0, 1, 2, 2, 3, 3])
        traces.append(run_history(n, random_ops(ctx.rng, n)))
    ctx.note_traces(traces)
    ctx.extra["short_histories"] = nshort
    ctx.extra["events"] = sum(len(t["ev"]) for t in traces)
    seen = set()
    for t in traces:
        for e in t["ev"]:
            for o in e["obs"]:
                seen.add(o[0])
            if e["exc"]:
                seen.add("exc:" + e["exc"])
    ctx.extra["observation_tags_seen"] = sorted(seen)
    rej = ctx.validate("Pop3SessionTrace", traces, shard_size=ctx.pick(3000, 4000))
    for x in rej[:10]:
        t = traces[x.idx]
        e = t["ev"][x.reached] if x.reached < len(t["ev"]) else None
        ctx.violation(fingerprint(t, x.reached),
                      "pop3.POP3 execution not explained by Pop3Session.tla at event %d: %s" % (x.reached, e),
                      dict(n=t["n"], ops=t["ops"]))

    def mutate(t, rng):
        c = [i for i, e in enumerate(t["ev"]) if e["obs"]]
        if not c:
            return None
        i = rng.choice(c)
        e = t["ev"][i]
        r = rng.random()
        if r < 0.4:
            del e["obs"][rng.randrange(len(e["obs"]))]            # a reply / mailbox call goes missing
        elif r < 0.7:
            j = rng.randrange(len(e["obs"]))
            e["obs"].insert(j, list(e["obs"][j]))                 # ... or happens twice
        elif r < 0.85:
            e["closing"] = not e["closing"]
        else:
            j = rng.randrange(len(e["obs"]))
            e["obs"][j][1] += 1                                   # wrong number / session / index
        return t
    bad = {x.idx for x in rej}
    ctx.selftest_rejects("Pop3SessionTrace", [t for i, t in enumerate(traces) if i not in bad][nshort // 2: nshort // 2 + 400], mutate, n=20)


def replay(ctx, obj):
    t = run_history(obj["n"], [tuple(tuple(x) if isinstance(x, list) else x for x in o) for o in obj["ops"]])
    for e in t["ev"]:
        print(e)
    for x in ctx.validate("Pop3SessionTrace", [t]):
        ctx.violation(fingerprint(t, x.reached), "rejected at %d" % x.reached, dict(n=t["n"], ops=t["ops"]))
