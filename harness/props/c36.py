"""C36 -- SSH channels respect flow control and flush before closing.

Specs:    specs/SshChannelObs.tla   the property over observable events (Abs layer, verdicts)
          specs/SshChannel.tla      SSHChannel.write/writeExtended/addWindowBytes/loseConnection and
                                    SSHConnection.ssh_CHANNEL_DATA/adjustWindow/sendClose transcribed
          SshChannelMC (exhaustive), SshChannelTrace / SshChannelAbsTrace (trace validation),
          SshChannelSim (behaviour generation)
Binding:  two real SSHConnection objects, one SSHChannel each, opened through the real
          CHANNEL_OPEN / OPEN_CONFIRMATION exchange, joined by a controlled message queue per
          direction.  One event per application call / delivered message, carrying the messages
          the side emitted (type, stream, payload bytes) and the bytes handed to the receiving
          application.  TLC decides.
"""
import struct

META = dict(
    id="C36",
    specs=["SshChannelObs.tla", "SshChannel.tla", "SshChannelMC.tla", "SshChannelTrace.tla", "SshChannelAbsTrace.tla", "SshChannelSim.tla"],
    technique="TLA+ transcription of SSHChannel.write/writeExtended/addWindowBytes/loseConnection and SSHConnection's data/adjust/close handling with a property observer; TLC exhaustive over windows/packet sizes from 1, all short application histories and delivery interleavings, collecting every class of broken clause and replaying a shortest counterexample of each on the real objects; TLC trace validation of real SSHConnection/SSHChannel pairs (state-hashed exhaustive histories, random long histories, TLC-generated behaviours), verdict by a property-only observer spec",
    level_text="TLC explores the transcribed channel algorithm for every window and packet size in the stated range, every sequence of writes (normal and two extended types), loseConnection, manual window grants and every delivery interleaving up to the stated number of application calls, evaluating every clause of the property (window, max packet, per-stream order and completeness once enough window is granted, close only after flush and then sent, compliant peer never refused, window replenished) at every step; each class of broken clause TLC finds is reproduced on the real objects. Every recorded execution of a real connection pair is validated by TLC step by step, with the verdict taken from a specification that states only the property.",
    level_note="Trusted: TLC; the adapter's decoding of CHANNEL_DATA/EXTENDED_DATA/WINDOW_ADJUST/CLOSE payloads and recording of dataReceived/extReceived. Messages are whole SSH packets on a FIFO lossless queue (the transport layer is C35). The application does not write after loseConnection() or after the peer closed. Stream length <= 250 bytes so a byte value identifies its position.",
    design_ref="2.8 C36",
    rule="history = sequence of write(stream, n) / loseConnection / manual adjustWindow(n) calls and single-message deliveries on a real connection pair with receiver window W and max packet P (from 1); distinct = hash of (cfg, events); non-trivial = at least two different event kinds",
)

MSG_ADJUST, MSG_DATA, MSG_EXT, MSG_EOF, MSG_CLOSE = 93, 94, 95, 96, 97


def _ns(b):
    (n,) = struct.unpack(">L", b[:4])
    return b[4:4 + n]


class World:
    """Sender S (conn 1) and receiver R (conn 2), one channel, two FIFO message queues."""

    def __init__(self, cfg):
        from twisted.conch.ssh import channel, connection

        self.cfg = cfg
        self.ev = []
        self.ops = []
        self.q = {1: [], 2: []}           # q[i] = packets in flight TO connection i
        self.got = []
        self.written = [0, 0, 0]
        self.app_closed = False           # S's application asked for / was told about the close
        self.chan = {}
        self.hook = None                  # application call to make from S's next startWriting() callback
        self.hook_done = []
        self.sw = False
        world = self

        class Inner:
            def logPrefix(self):
                return "fake"

        class Transport:
            def __init__(self, me):
                self.me = me
                self.transport = Inner()

            def sendPacket(self, mtype, payload):
                world.q[3 - self.me].append((mtype, payload))

            def sendUnimplemented(self):
                world.q[3 - self.me].append((3, b""))

        class Chan(channel.SSHChannel):
            name = b"test"

            def dataReceived(self, data):
                world.got.append([0, list(data)])

            def extReceived(self, dataType, data):
                world.got.append([dataType, list(data)])

            def startWriting(self):
                # push-producer pattern: the application reacts to startWriting() by calling the channel again
                if self is world.chan.get(1):
                    world.sw = True
                    h, world.hook = world.hook, None
                    if h is not None:
                        world.hook_done = list(h)
                        world._app_call(h)

            def closeReceived(self):
                if self is world.chan[1]:
                    world.app_closed = True
                channel.SSHChannel.closeReceived(self)

        class Conn(connection.SSHConnection):
            def channel_test(self, windowSize, maxPacket, data):
                # the receiving side's channel advertises cfg.win / cfg.pkt
                return Chan(localWindow=cfg["win"], localMaxPacket=cfg["pkt"],
                            remoteWindow=windowSize, remoteMaxPacket=maxPacket)

        self.conn = {}
        for i in (1, 2):
            c = Conn()
            c.transport = Transport(i)
            c.serviceStarted()
            self.conn[i] = c
        s = Chan(conn=self.conn[1])
        self.conn[1].openChannel(s)
        # real handshake: CHANNEL_OPEN -> R, OPEN_CONFIRMATION -> S
        self._pump(2)
        self._pump(1)
        self.chan = {1: s, 2: list(self.conn[2].channels.values())[0]}
        assert not self.q[1] and not self.q[2]

    def _pump(self, i):
        mtype, payload = self.q[i].pop(0)
        self.conn[i].packetReceived(mtype, payload)

    # -- abstraction of packets
    def _abs(self, pkt):
        mtype, p = pkt
        if mtype == MSG_DATA:
            return ["D", 0, list(_ns(p[4:]))]
        if mtype == MSG_EXT:
            return ["X", struct.unpack(">L", p[4:8])[0], list(_ns(p[8:]))]
        if mtype == MSG_CLOSE:
            return ["C", 0, []]
        if mtype == MSG_ADJUST:
            return ["A", struct.unpack(">L", p[4:8])[0], []]
        return ["MSG%d" % mtype, 0, []]

    def _call(self, me, fn):
        """Run fn; returns (messages `me` emitted, exception class name)."""
        before = len(self.q[3 - me])
        exc = ""
        try:
            fn()
        except BaseException as e:
            exc = type(e).__name__
        return [self._abs(p) for p in self.q[3 - me][before:]], exc

    # -- operations
    def write(self, s, n):
        self.ops.append(["write", s, n])
        data = bytes(((self.written[s] + i) % 256) for i in range(1, n + 1))
        self.written[s] += n
        ch = self.chan[1]
        sent, exc = self._call(1, (lambda: ch.write(data)) if s == 0 else (lambda: ch.writeExtended(s, data)))
        self.ev.append({"e": "write", "s": s, "n": n, "sent": sent, "exc": exc})

    def close(self):
        self.ops.append(["close"])
        self.app_closed = True
        sent, exc = self._call(1, self.chan[1].loseConnection)
        self.ev.append({"e": "close", "sent": sent, "exc": exc})

    def _app_call(self, h):
        """write / loseConnection issued re-entrantly (from a channel callback)."""
        ch = self.chan[1]
        if h[0] == "write":
            s_, n = h[1], h[2]
            data = bytes(((self.written[s_] + i) % 256) for i in range(1, n + 1))
            self.written[s_] += n
            ch.write(data) if s_ == 0 else ch.writeExtended(s_, data)
        else:
            self.app_closed = True
            ch.loseConnection()

    def sdeliver(self, hook=None):
        """hook = ("write", s, n) or ("close", 0, 0): what S's application does if the channel calls its
        startWriting() during this delivery."""
        if hook is not None and (self.app_closed and hook[0] == "write" or hook[0] == "write" and self.written[hook[1]] + hook[2] > 250):
            hook = None
        self.ops.append(["sdeliver"] + ([list(hook)] if hook else []))
        pkt = self.q[1].pop(0)
        self.hook, self.hook_done, self.sw = hook, [], False
        sent, exc = self._call(1, lambda: self.conn[1].packetReceived(*pkt))
        self.hook = None
        self.ev.append({"e": "sdeliver", "m": self._abs(pkt), "hook": self.hook_done, "sw": self.sw, "sent": sent, "exc": exc})

    def rdeliver(self):
        self.ops.append(["rdeliver"])
        pkt = self.q[2].pop(0)
        del self.got[:]
        sent, exc = self._call(2, lambda: self.conn[2].packetReceived(*pkt))
        self.ev.append({"e": "rdeliver", "m": self._abs(pkt), "got": [list(g) for g in self.got], "sent": sent, "exc": exc})

    def radjust(self, n):
        self.ops.append(["radjust", n])
        sent, exc = self._call(2, lambda: self.conn[2].adjustWindow(self.chan[2], n))
        self.ev.append({"e": "radjust", "n": n, "sent": sent, "exc": exc})

    def apply(self, op):
        k = op[0]
        if k == "write":
            if not self.app_closed and self.written[op[1]] + op[2] <= 250:
                self.write(op[1], op[2])
        elif k == "close":
            self.close()
        elif k == "sdeliver":
            if self.q[1]:
                self.sdeliver(tuple(op[1]) if len(op) > 1 else None)
        elif k == "rdeliver":
            if self.q[2]:
                self.rdeliver()
        elif k == "radjust":
            self.radjust(op[1])
        elif k == "drain":
            self.drain()

    def drain(self, rng=None):
        n = 0
        while (self.q[1] or self.q[2]) and n < 5000:
            sides = [i for i in (1, 2) if self.q[i]]
            i = rng.choice(sides) if rng else sides[0]
            self.sdeliver() if i == 1 else self.rdeliver()
            n += 1

    def key(self):
        """Hash key for the exhaustive exploration (pruning only, never a verdict)."""
        s, r = self.chan[1], self.chan[2]
        return (tuple(self.written), self.app_closed, s.remoteWindowLeft, bytes(s.buf), tuple((t, bytes(d)) for t, d in s.extBuf),
                bool(s.closing), bool(s.localClosed), bool(s.remoteClosed), r.localWindowLeft, bool(r.localClosed), bool(r.remoteClosed),
                tuple(self.q[1]), tuple(self.q[2]))

    def trace(self):
        return {"cfg": self.cfg, "ops": [list(o) for o in self.ops], "ev": [dict(e) for e in self.ev]}


def run_ops(cfg, ops):
    w = World(cfg)
    for op in ops:
        w.apply(tuple(op))
    return w


def explore(cfg, maxops, sizes, adjs, max_traces=None):
    """All sequences of <= maxops application calls interleaved with all single-message
    deliveries, on the real objects, pruned by hashing the reached state."""
    seen = set()
    traces = []
    stats = {"states": 0, "edges": 0}

    def rec(ops, napp):
        if max_traces is not None and len(traces) >= max_traces:
            stats["truncated"] = True
            return
        w = run_ops(cfg, ops)
        k = (napp,) + w.key()
        nxt = []
        if k not in seen:
            seen.add(k)
            stats["states"] += 1
            if napp < maxops:
                if not w.app_closed:
                    nxt += [(("write", s, n), 1) for s in (0, 1, 2) for n in sizes]
                    nxt.append((("close",), 1))
                nxt += [(("radjust", n), 1) for n in adjs]
            if w.q[1]:
                nxt.append((("sdeliver",), 0))
                if napp < maxops and not w.app_closed:
                    w2 = run_ops(cfg, ops + [("sdeliver",)])
                    if w2.ev[-1]["sw"]:      # the channel called startWriting(): every application reaction to it
                        nxt += [(("sdeliver", ("write", s, n)), 1) for s in (0, 1, 2) for n in sizes]
                        nxt.append((("sdeliver", ("close", 0, 0)), 1))
            if w.q[2]:
                nxt.append((("rdeliver",), 0))
        if not nxt:
            traces.append(w.trace())
            return
        for op, c in nxt:
            stats["edges"] += 1
            rec(ops + [op], napp + c)

    rec([], 0)
    return traces, stats


def random_history(rng, cfg, nops):
    w = World(cfg)
    big = max(2, 2 * cfg["win"])
    for _ in range(nops):
        r = rng.random()
        if (w.q[1] or w.q[2]) and r < 0.5:
            sides = [i for i in (1, 2) if w.q[i]]
            if rng.choice(sides) == 1:
                hk = None
                if rng.random() < 0.4 and not w.app_closed:
                    hk = ("close", 0, 0) if rng.random() < 0.1 else ("write", rng.choice((0, 0, 1, 2)), rng.choice((1, 2, 3, rng.randint(1, big))))
                w.sdeliver(hk)
            else:
                w.rdeliver()
        elif r < 0.88 and not w.app_closed:
            s = rng.choice((0, 0, 1, 1, 2))
            n = rng.choice((1, 1, 2, 3, rng.randint(1, big), rng.randint(1, 3 * big)))
            if w.written[s] + n <= 250:
                w.write(s, n)
        elif r < 0.93:
            w.radjust(rng.choice((1, 1, 2, rng.randint(1, big))))
        elif r < 0.96 and not w.app_closed:
            w.close()
    if rng.random() < 0.7 and not w.app_closed:
        w.close()
    w.ops.append(["drain"])
    w.drain(None)
    # let the receiver's application open the window until everything written can flow
    for _ in range(6):
        if not (w.q[1] or w.q[2]) and rng.random() < 0.8:
            w.radjust(rng.randint(1, 3 * big))
            w.ops.append(["drain"])
            w.drain(None)
    return w.trace()


def mutate(t, rng):
    """Corrupt one logged field / drop one event (binding self-test)."""
    evs = t["ev"]
    c = rng.randrange(4)
    data = [i for i, e in enumerate(evs) if any(m[0] in ("D", "X") and m[2] for m in e["sent"])]
    if c == 0 and data:
        e = evs[rng.choice(data)]
        m = [m for m in e["sent"] if m[0] in ("D", "X") and m[2]][0]
        m[2][-1] = (m[2][-1] % 250) + 1                     # a byte changes
        return t
    if c == 1 and data:
        e = evs[rng.choice(data)]
        m = [m for m in e["sent"] if m[0] in ("D", "X") and m[2]][0]
        m[2].append((m[2][-1] % 250) + 1)                   # one byte more than was sent
        return t
    if c == 2:
        cands = [i for i, e in enumerate(evs) if e["e"] == "rdeliver" and e["got"]]
        if cands:
            evs[rng.choice(cands)]["got"] = []              # accepted data not handed to the application
            return t
    cands = [i for i, e in enumerate(evs) if e["e"] == "sdeliver" and e["m"][0] == "A" and e["sent"]]
    if cands:
        del evs[rng.choice(cands)]                           # window grant goes missing, yet data flowed
        return t
    return None


def abs_validate(ctx, module, traces, shard_size=1500):
    """Run the property-only trace spec over `traces` (batched, sharded).  Unlike ctx.validate this
    keeps TLC's output: the spec prints <<"VIOL", tid, l, clauses>> for every step at which a clause
    of the property is broken (and goes on with the rest of the trace).  Returns
    {index: [(event index, [clauses]), ...]} for the traces TLC did not accept."""
    import json
    import os
    from concurrent.futures import ThreadPoolExecutor
    from harness import core

    shards = [traces[i:i + shard_size] for i in range(0, len(traces), shard_size)]

    def one(si):
        path = os.path.join(ctx.work, "abs-%s-%d-%d.json" % (module, si, os.getpid()))
        with open(path, "w") as f:
            json.dump(shards[si], f, separators=(",", ":"))
        r = core.run_tlc(module, module + ".cfg", ctx.work, workers=1, env={"TRACE_FILE": path},
                         props=("-Dtlc2.tool.queue.IStateQueue=StateDeque",))
        os.remove(path)
        return si, r

    n = max(1, min(int(os.environ.get("VERIF_SHARDS") or core.NCPU), len(shards)))
    with ThreadPoolExecutor(n) as ex:
        results = list(ex.map(one, range(len(shards))))
    bad = {}
    for si, r in results:
        ctx.states += r.distinct
        ctx.transitions += r.generated
        base = si * shard_size
        viols = core.extract_printed(r.out, "VIOL")
        rej = None
        for v in core.extract_printed(r.out, "REJECTED"):
            rej = v[1]
        if not r.ok and rej is None:
            raise core.MachineryError("TLC failed on %s without REJECTED line: %s\n%s" % (module, r.error, r.out[-2000:]))
        for v in viols:
            bad.setdefault(base + v[1] - 1, []).append((v[2] - 1, sorted(v[3])))
        for tid, l in (rej or []):
            if base + tid - 1 not in bad:      # stuck without a flagged clause: cannot happen with a total observer
                bad[base + tid - 1] = [(l - 1, ["trace-not-explained"])]
    for k in bad:
        bad[k] = sorted(set((a, tuple(c)) for a, c in bad[k]))
    return bad


def fingerprint(trace, at, clauses):
    """<clauses>@<event kind>/<input class>: the input class names what a reader needs to reproduce it."""
    evs = trace["ev"]
    e = evs[at] if at is not None and at < len(evs) else {}
    detail = ""
    if "close-before-flush" in clauses:
        wr = [0, 0, 0]
        se = [0, 0, 0]
        for x in evs[:at + 1]:
            if x["e"] == "write":
                wr[x["s"]] += x["n"]
            if x["e"] in ("write", "close", "sdeliver"):
                for m in x["sent"]:
                    if m[0] in ("D", "X") and 0 <= m[1] <= 2:
                        se[m[1]] += len(m[2])
        left = [("data" if s == 0 else "ext") for s in range(3) if wr[s] > se[s]]
        detail = "/unsent=" + "+".join(sorted(set(left)))
    elif "window-not-replenished" in clauses or "compliant-data-refused" in clauses:
        detail = "/win=%d" % trace["cfg"]["win"]
    return "+".join(clauses) + "@" + e.get("e", "?") + detail


def judge(ctx, traces, rej, what):
    """Traces the Impl-shaped spec rejected are re-judged by the property-only spec (the verdict)."""
    if not rej:
        return set()
    sus = [traces[x.idx] for x in rej]
    bad = abs_validate(ctx, "SshChannelAbsTrace", sus)
    oks = [i for i in range(len(sus)) if i not in bad]
    ctx.impl_drift += len(oks)
    ctx.traces_ok += len(oks)          # accepted by the verdict layer
    if oks:
        t, x = sus[oks[0]], rej[oks[0]]
        ctx.log("impl drift: %d executions differ from the transcribed algorithm but satisfy the property; first at event %d: %s"
                % (len(oks), x.reached, t["ev"][x.reached] if x.reached < len(t["ev"]) else None))
        ctx.extra.setdefault("impl_drift_samples", []).append(dict(cfg=t["cfg"], ops=t["ops"], at=x.reached))
    for i in sorted(bad):
        t = sus[i]
        for at, clauses in bad[i]:
            e = t["ev"][at] if at < len(t["ev"]) else {}
            ctx.violation(fingerprint(t, at, list(clauses)),
                          "%s: real SSH channel pair (receiver window %d, max packet %d) breaks %s at event %s: %s"
                          % (what, t["cfg"]["win"], t["cfg"]["pkt"], list(clauses), at, e),
                          dict(cfg=t["cfg"], ops=t["ops"], rejected_at=at, clauses=list(clauses)))
    return {rej[i].idx for i in bad}


def cex_ops(r):
    """(cfg, ops, predicted events) from a TLC counterexample of SshChannelMC."""
    import re
    from harness import core

    cfg = None
    ops = []
    pred = []
    for blk in r.cex:
        vars_ = {}
        for part in re.split(r"\n/\\ ", "\n" + blk.split("\n", 1)[1] if "\n" in blk else ""):
            m = re.match(r"\s*(?:/\\ )?(\w+) = (.*)", part, re.S)
            if m:
                vars_[m.group(1)] = m.group(2).strip()
        if "cfg" in vars_ and cfg is None:
            c = core.parse_tla_value(vars_["cfg"])
            cfg = {"win": c["win"], "pkt": c["pkt"]}
        if "last" in vars_:
            ev = core.parse_tla_value(vars_["last"])
            if ev["e"] == "init":
                continue
            pred.append(ev)
            if ev["e"] == "write":
                ops.append(["write", ev["s"], ev["n"]])
            elif ev["e"] == "radjust":
                ops.append(["radjust", ev["n"]])
            elif ev["e"] == "sdeliver" and ev["hook"]:
                ops.append(["sdeliver", ev["hook"]])
            else:
                ops.append([ev["e"]])
    return cfg, ops, pred


ACTIONS = ["AppWrite", "AppClose", "SDeliverAdjust", "SDeliverClose", "RDeliverData", "RDeliverClose", "RAdjust"]


def design_check(ctx):
    """Exhaustive TLC run of the transcribed algorithm; every class of broken clause is
    reproduced on the real objects (or the model is wrong: machinery error)."""
    from harness import core
    from harness.core import MachineryError

    mccfg = ctx.pick("SshChannelMC.cfg", "SshChannelMC.thorough.cfg")
    r = ctx.mc("SshChannelMC", mccfg, workers=1)
    if not r.ok:
        raise MachineryError("SshChannelMC failed: %s\n%s" % (r.error, r.out[-2000:]))
    ctx.require_actions("SshChannelMC", ACTIONS)
    cl = core.extract_printed(r.out, "CLASSES")
    if not cl:
        raise MachineryError("SshChannelMC did not print its classes")
    classes = sorted((sorted(c[0]), c[1]) for c in cl[-1][1])
    ctx.extra["design_violation_classes"] = [dict(clauses=c[0], event=c[1]) for c in classes]
    ctx.log("TLC on the transcribed algorithm: classes of broken clauses = %s" % classes)
    out = []
    for clauses, evk in classes:
        r2 = ctx.mc("SshChannelMC", ctx.pick("SshChannelCex.cfg", "SshChannelCex.thorough.cfg"), coverage=False,
                    env={"VCLAUSE": clauses[0], "VEVENT": evk}, must_pass=False, label="cex %s@%s" % (clauses[0], evk))
        if r2.ok or r2.kind != "invariant":
            raise MachineryError("no counterexample for class %s@%s: %s" % (clauses, evk, r2.error))
        cfg, ops, pred = cex_ops(r2)
        w = run_ops(cfg, ops)
        t = w.trace()
        t["from"] = "TLC counterexample %s@%s" % ("+".join(clauses), evk)
        if [dict(e) for e in w.ev] != pred:
            ctx.log("counterexample %s@%s: the real objects do NOT behave as the model predicts (model misrepresents the code)" % (clauses, evk))
            ctx.extra.setdefault("design_cex_not_reproduced", []).append(dict(clauses=clauses, event=evk, ops=ops, cfg=cfg))
        out.append(t)
    return out


def run(ctx):
    from harness.core import MachineryError

    # (a) the design: TLC on the transcribed algorithm, counterexamples replayed on the real code
    traces = design_check(ctx)
    ncex = len(traces)

    # (b) code -> spec: exhaustive short histories on the real pair, random long ones
    ex = [0, 0]
    cfgs = ctx.pick([(1, 1), (2, 1), (2, 2), (3, 2)], [(1, 1), (2, 2), (3, 1), (3, 2), (4, 3)])
    for win, pkt in cfgs:
        ts, st = explore({"win": win, "pkt": pkt}, ctx.pick(3, 4), sizes=(1, 3), adjs=(2,))
        traces += ts
        ex[0] += st["states"]
        ex[1] += st["edges"]
    ctx.exhaustive = True
    ctx.extra["exhaustive_real"] = dict(window_packet_pairs=[list(c) for c in cfgs], max_app_calls=ctx.pick(3, 4), states=ex[0], edges=ex[1])
    ctx.log("exhaustive histories on the real pair: %d maximal paths (%d states, %d edges)" % (len(traces) - ncex, ex[0], ex[1]))
    for i in range(ctx.pick(250, 8000)):
        cfg = {"win": ctx.rng.choice((1, 2, 3, 4, 5, 7, 8, 16, 33)), "pkt": ctx.rng.choice((1, 2, 3, 4, 5, 8, 16))}
        traces.append(random_history(ctx.rng, cfg, ctx.rng.randint(6, 60)))
    # (c) spec -> code
    behs = ctx.simulate("SshChannelSim", "SshChannelSim.cfg", num=ctx.pick(30, 1500), depth=18)
    ctx.rng.shuffle(behs)
    behs = behs[:ctx.pick(150, 3000)]
    drift = 0
    for b in behs:
        ops = [["write", h["s"], h["n"]] if h["e"] == "write" else ["radjust", h["n"]] if h["e"] == "radjust"
               else ["sdeliver", h["hook"]] if h["e"] == "sdeliver" and h["hook"] else [h["e"]] for h in b["hist"]]
        w = run_ops(b["cfg"], ops)
        if [dict(e) for e in w.ev] != b["hist"]:
            drift += 1
        traces.append(w.trace())
    ctx.extra["spec_behaviours_replayed"] = len(behs)
    ctx.extra["spec_behaviours_not_reproduced"] = drift
    ctx.note_traces(traces)
    ctx.log("recorded %d real executions (%d events)" % (len(traces), sum(len(t["ev"]) for t in traces)))
    rej = ctx.validate("SshChannelTrace", traces, shard_size=ctx.pick(1500, 4000))
    judge(ctx, traces, rej, "history")
    rejidx = {x.idx for x in rej}
    # every design-level counterexample must also be rejected as a real execution
    for i in range(ncex):
        if i not in rejidx:
            raise MachineryError("TLC counterexample '%s' does not reproduce on the real code: the model misrepresents the code"
                                 % traces[i].get("from"))
    # self-test on histories that end with everything delivered (so a dropped/corrupted event must show later)
    good = [t for i, t in enumerate(traces) if i not in rejidx and len(t["ev"]) >= 8 and t["ops"][-1] == ["drain"]]
    if not good:
        raise MachineryError("no accepted trace to run the binding self-test on")
    ctx.selftest_rejects("SshChannelTrace", good[-400:], mutate, n=20)
    ctx.selftest_rejects("SshChannelAbsTrace", good[-400:], mutate, n=20)


def replay(ctx, obj):
    w = run_ops(obj["cfg"], obj["ops"])
    t = w.trace()
    ctx.note_trace(t)
    rej = ctx.validate("SshChannelTrace", [t])
    judge(ctx, [t], rej, "replayed history")
    for e in t["ev"]:
        print(e)
