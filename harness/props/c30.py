"""C30 -- AMP wire format round-trips under every split; unrepresentable boxes are refused at send.

Spec:     specs/AmpWire.tla (box layer, byte strings as run lists with the REAL lengths),
          AmpWireMC (exhaustive TLC over length classes x all class-distinct splits),
          AmpWireTrace (trace validation), AmpWireArg* (class-level structure of the
          String / Unicode / Boolean / ListOf / AmpList codecs).
Binding:  a real BinaryBoxProtocol sends real AmpBoxes through sendBox() onto a recording
          transport; the written bytes are handed, in driver-chosen pieces, to a second real
          BinaryBoxProtocol whose boxReceiver records every parsed box; after every piece the
          whole prefix is also parsed in ONE piece with amp.parseString.  TLC decides.
"""
import itertools
import re

META = dict(
    id="C30",
    specs=["AmpWireOps.tla", "AmpWire.tla", "AmpWireMC.tla", "AmpWireTrace.tla", "AmpWireArg.tla", "AmpWireArgMC.tla", "AmpWireArgTrace.tla"],
    technique="TLA+ format specification of the AMP box wire format over run-length byte strings with real boundary lengths "
              "(TLC exhaustive over length classes, all class-distinct split points) + TLC trace validation of real "
              "AmpBox.serialize/BinaryBoxProtocol runs (exhaustive class configurations x split schedules, random boxes and "
              "splits), plus a class-level structural spec of the String/Unicode/Boolean/ListOf/AmpList codecs",
    level_text="TLC checks on the specification that, for every sequence of boxes over the key/value length classes "
               "{0,1,mid,255,256}x{0,1,mid,65535,65536} and non-bytes kinds and every split of the stream that is distinct up to "
               "segment-interior equivalence, the length-prefixed parser delivers exactly the complete accepted boxes, equal and in "
               "order, and that unrepresentable boxes write nothing; every recorded run of the real sender/receiver pair is "
               "validated by TLC as a behaviour of that specification with the written bytes, the parsed boxes and the one-piece "
               "parse of every prefix matched.",
    level_note="Claimed for the BOX layer and for the STRUCTURE of String, Unicode (UTF-8 arithmetic), Boolean, ListOf and AmpList. "
               "NOT decided: the value codecs Integer, Float, Decimal, DateTime and Path (numeric / calendar / filesystem fidelity: "
               "NaN, inf, -0.0, huge integers, Decimal specials, UTC offsets) -- a class-level TLA+ specification does not decide "
               "them and no claim is made for them. Trusted: TLC, the adapter's run-length encoding of observed bytes, the "
               "recording transports. Split points strictly inside a key/value body are sampled, not enumerated (they are "
               "equivalent for a length-prefixed parser; the spec run covers first/last byte and every boundary).",
    design_ref="2.6 C30",
    rule="case = (sequence of boxes given as run-length keys/values or non-bytes kinds, schedule of send / deliver(n) steps); "
         "distinct = hash of (cfg, events); non-trivial = at least one send and one deliver event",
)

MAXK, MAXV = 255, 65535
BOUNDARY_BYTES = [0x00, 0x01, 0x0A, 0x0D, 0x20, 0x41, 0x7F, 0x80, 0xFE, 0xFF]

_RUN = re.compile(rb"(.)\1*", re.S)


def rle(b):
    return [[m.group(1)[0], m.end() - m.start()] for m in _RUN.finditer(bytes(b))]


def unrle(runs):
    return b"".join(bytes([x]) * n for x, n in runs)


def norm(runs):
    out = []
    for x, n in runs:
        if n <= 0:
            continue
        if out and out[-1][0] == x:
            out[-1][1] += n
        else:
            out.append([x, n])
    return out


def concretise(x):
    """<<kind, runs>> -> python object put into the box."""
    kind, runs = x
    if kind == "B":
        return unrle(runs)
    if kind == "S":
        return unrle(runs).decode("latin-1")
    if kind == "I":
        return 7
    if kind == "N":
        return None
    if kind == "T":
        return (b"x",)
    raise ValueError(kind)


def box_defects(box):
    d = []
    if not box:
        d.append("emptybox")
    for k, v in box:
        if k[0] != "B":
            d.append("nonbytes-key-" + k[0])
        else:
            n = sum(c for _, c in k[1])
            if n == 0:
                d.append("emptykey")
            elif n > MAXK:
                d.append("longkey")
        if v[0] != "B":
            d.append("nonbytes-val-" + v[0])
        elif sum(c for _, c in v[1]) > MAXV:
            d.append("longval")
    return sorted(set(d))


def plain(box):
    """parsed AmpBox -> [[key runs, value runs], ...]"""
    return [[rle(k), rle(v)] for k, v in box.items()]


class _Transport:
    disconnecting = False

    def __init__(self):
        self.writes = []
        self.closed = False

    def write(self, data):
        self.writes.append(data)

    def writeSequence(self, seq):
        for d in seq:
            self.write(d)

    def loseConnection(self):
        self.closed = True

    def getPeer(self):
        return "peer"

    def getHost(self):
        return "host"


def run_wire(cfg, ops, sender="bbp"):
    """Drive real amp objects.  ops: ("send",) | ("deliver", n) | ("deliver_frac", f) -- the latter are resolved
    to a byte count at run time and stored resolved."""
    from twisted.protocols import amp

    class Rec:
        def __init__(self):
            self.boxes = []

        def startReceivingBoxes(self, sender):
            pass

        def ampBoxReceived(self, box):
            self.boxes.append(box)

        def stopReceivingBoxes(self, reason):
            pass

    st = _Transport()
    sp = amp.AMP() if sender == "amp" else amp.BinaryBoxProtocol(Rec())
    sp.makeConnection(st)
    rt = _Transport()
    rec = Rec()
    rp = amp.BinaryBoxProtocol(rec)
    rp.makeConnection(rt)

    wire = bytearray()
    pos = 0
    nsent = 0
    ev, info, rops = [], [], []
    for op in ops:
        if op[0] == "send":
            if nsent >= len(cfg["boxes"]):
                continue
            spec = cfg["boxes"][nsent]
            nsent += 1
            box = amp.AmpBox()
            for k, v in spec:
                box[concretise(k)] = concretise(v)
            n0 = len(st.writes)
            exc = ""
            try:
                sp.sendBox(box)
                res = "ok"
            except Exception as e:          # refusal at send time
                res = "refused"
                exc = type(e).__name__
            wr = b"".join(st.writes[n0:])
            wire += wr
            ev.append({"e": "send", "res": res, "wr": rle(wr)})
            info.append({"exc": exc, "defects": box_defects(spec)})
            rops.append(["send"])
        else:
            avail = len(wire) - pos
            if op[0] == "deliver_frac":
                n = max(1, min(avail - 1, int(round(op[1] * avail))))        # never the whole rest: leaves >= 1 byte
            else:
                n = op[1]
            n = min(n, avail)
            if n <= 0:
                continue
            n0 = len(rec.boxes)
            try:
                rp.dataReceived(bytes(wire[pos:pos + n]))
                res = "ok"
            except Exception as e:
                res = "EXC:" + type(e).__name__
            pos += n
            try:
                one = [plain(b) for b in amp.parseString(bytes(wire[:pos]))]
            except Exception as e:
                one = []
                res = res if res != "ok" else "EXC1:" + type(e).__name__
            ev.append({"e": "deliver", "n": n, "res": res, "new": [plain(b) for b in rec.boxes[n0:]],
                       "one": one, "closed": bool(rt.closed)})
            info.append({})
            rops.append(["deliver", n])
    return {"cfg": cfg, "ops": rops, "sender": sender, "ev": ev, "info": info}


# --------------------------------------------------------------------------- case generation

def B(fill, n):
    return ["B", norm([[fill, n]])]


def class_pairs(j, keylens, vallens, mid_k=3, mid_v=3):
    kf = 0 if j == 1 else 107
    vf = 0 if j == 1 else 255
    keys = [B(kf, mid_k if n == "mid" else n) for n in keylens] + [["S", [[106 + j, 1]]]]
    vals = [B(vf, mid_v if n == "mid" else n) for n in vallens] + [["S", [[118, 1]]], ["N", []]]
    return [[k, v] for k in keys for v in vals]


def class_configs(shapes, keylens, vallens, rng=None):
    """All sequences of boxes of the given shapes over the class alphabet (the AmpWireMC family)."""
    for sh in shapes:
        per_box = []
        for n in sh:
            if n == 0:
                per_box.append([[]])
            elif n == 1:
                per_box.append([[p] for p in class_pairs(1, keylens, vallens)])
            else:
                per_box.append([[p, q] for p in class_pairs(1, keylens, vallens) for q in class_pairs(2, keylens, vallens)
                                if p[0] != q[0]])
        for boxes in itertools.product(*per_box):
            yield {"boxes": [list(b) for b in boxes]}


def marks_of(cfg):
    """Interesting split offsets (segment boundaries +-1) assuming refused boxes write nothing -- used only to
    CHOOSE schedules; any split is legal."""
    off = 0
    marks = set()
    for box in cfg["boxes"]:
        if box_defects(box) and box_defects(box) != ["emptybox"]:
            continue
        segs = []
        for k, v in sorted(box, key=lambda p: unrle(p[0][1])):
            segs += [2, sum(c for _, c in k[1]), 2, sum(c for _, c in v[1])]
        segs.append(2)
        for s in segs:
            off += s
            marks.update((off - 1, off, off + 1))
    return sorted(m for m in marks if 0 < m <= off), off


def schedule_all_then(cfg, cuts):
    ops = [("send",)] * len(cfg["boxes"])
    prev = 0
    for c in cuts:
        if c > prev:
            ops.append(("deliver", c - prev))
            prev = c
    return ops


def schedules_for(cfg, rng, nrandom):
    marks, total = marks_of(cfg)
    nb = len(cfg["boxes"])
    out = [schedule_all_then(cfg, [total])]                       # one piece
    if total:
        out.append(schedule_all_then(cfg, marks + [total]))       # every class-distinct boundary, in order
        # interleaved: send one box, deliver all but the last byte, send the next, ...
        ops = []
        for _ in range(nb):
            ops += [("send",), ("deliver_frac", 0.999)]
        ops.append(("deliver", total))
        out.append(ops)
        for _ in range(nrandom):
            k = rng.randint(1, min(6, len(marks)))
            cuts = sorted(set(rng.sample(marks, k) + [rng.randint(1, total) for _ in range(rng.randint(0, 2))]))
            out.append(schedule_all_then(cfg, cuts + [total]))
    return out


def rand_runs(rng, n):
    """A byte string of length n as 1..4 runs over boundary byte values."""
    if n == 0:
        return []
    k = min(n, rng.choice([1, 1, 2, 3, 4]))
    cutpts = sorted(rng.sample(range(1, n), k - 1)) if k > 1 else []
    lens = [b - a for a, b in zip([0] + cutpts, cutpts + [n])]
    # bias: put single bytes at the ends
    if k >= 3 and rng.random() < 0.5 and n >= 3:
        lens = [1] + [n - 2] + [1] if k == 3 else lens
    return norm([[rng.choice(BOUNDARY_BYTES), l] for l in lens])


def rand_len(rng, classes, maxmid):
    c = rng.choice(classes)
    if c == "mid":
        return rng.randint(2, maxmid)
    return c


def rand_cfg(rng):
    klens = [1, 1, "mid", "mid", "mid", 254, 255, 0, 256, 300]
    vlens = [0, 0, 1, "mid", "mid", "mid", 65534, 65535, 65536, 70000]
    boxes = []
    for _ in range(rng.randint(1, 4)):
        box = []
        seen = set()
        for _ in range(rng.choice([0, 1, 1, 2, 2, 3, 4])):
            r = rng.random()
            if r < 0.04:
                k = [rng.choice(["S", "I", "N"]), []]
                if k[0] == "S":
                    k[1] = [[rng.choice([97, 107, 233]), rng.randint(1, 3)]]
            else:
                k = ["B", rand_runs(rng, rand_len(rng, klens, 253))]
            r = rng.random()
            if r < 0.04:
                v = [rng.choice(["S", "I", "N", "T"]), []]
                if v[0] == "S":
                    v[1] = [[rng.choice([97, 118, 233]), rng.randint(0, 3)]]
            else:
                big = rng.random() < 0.25
                v = ["B", rand_runs(rng, rand_len(rng, vlens if big else [0, 1, "mid"], 65533 if big else 40))]
            key = (k[0], tuple(map(tuple, k[1])))
            if key in seen or (k[0] == "I" and any(s[0] == "I" for s in seen)) or (k[0] == "N" and any(s[0] == "N" for s in seen)):
                continue
            seen.add(key)
            box.append([k, v])
        boxes.append(box)
    return {"boxes": boxes}


def rand_schedule(cfg, rng):
    marks, total = marks_of(cfg)
    nb = len(cfg["boxes"])
    mode = rng.random()
    if mode < 0.3 or not total:
        cuts = sorted(set(rng.randint(1, max(1, total)) for _ in range(rng.randint(0, 8))))
        return schedule_all_then(cfg, cuts + [total])
    if mode < 0.6:
        k = rng.randint(1, min(10, len(marks)))
        return schedule_all_then(cfg, sorted(set(rng.sample(marks, k))) + [total])
    ops = []
    for _ in range(nb):
        ops.append(("send",))
        for _ in range(rng.randint(0, 3)):
            ops.append(("deliver_frac", rng.random()))
    for _ in range(rng.randint(0, 3)):
        ops.append(("deliver_frac", rng.random()))
    ops.append(("deliver", max(1, total)))
    return ops


ARG_CPS = [0, 65, 127, 128, 2047, 2048, 55295, 55296, 57343, 57344, 65535, 65536, 1114111]
STR, UNI, BOOL = ["Str"], ["Uni"], ["Bool"]
NONE_V = ["N", []]


def S_(n, fill=0):
    return ["S", norm([[fill, n]])]


def _seqs_upto(items, n):
    out = [[]]
    for k in range(1, n + 1):
        out += [list(x) for x in itertools.product(items, repeat=k)]
    return out


def arg_class_cases():
    """The AmpWireArgMC family, mirrored (each case is run on the real codecs)."""
    F1 = [[rle(b"a"), STR, 0], [rle(b"b"), STR, 1]]
    F2 = [[rle(b"a"), UNI, 1], [rle(b"b"), ["List", BOOL], 0]]
    cases = []
    cases += [(STR, S_(n)) for n in (0, 1, 3, 65533, 65534, 65535, 65536)]
    cases += [(UNI, ["U", cps]) for cps in _seqs_upto(ARG_CPS, 2)]
    cases += [(BOOL, ["B", b]) for b in (0, 1)]
    cases += [(["List", STR], ["L", es]) for es in _seqs_upto([S_(n) for n in (0, 1, 65531, 65533, 65534, 65536)], 2)]
    cases += [(["List", STR], ["L", [S_(0), S_(1), S_(n)]]) for n in (65527, 65528, 65529)]
    cases += [(["List", BOOL], ["L", es]) for es in _seqs_upto([["B", 0], ["B", 1]], 3)]
    cases += [(["List", UNI], ["L", es]) for es in _seqs_upto([["U", []], ["U", [65536]], ["U", [128, 55296]]], 2)]
    inner = [["L", es] for es in _seqs_upto([S_(0), S_(1)], 2)]
    cases += [(["List", ["List", STR]], ["L", ls]) for ls in _seqs_upto(inner, 2)]
    cases += [(["List", ["List", STR]], ["L", [["L", [S_(n)]]]]) for n in (65530, 65531, 65532)]
    rows1 = [[a, b] for a in (S_(0), S_(1), NONE_V) for b in (S_(0), S_(3), NONE_V)]
    cases += [(["AmpList", F1], ["A", rows]) for rows in _seqs_upto(rows1, 2)]
    cases += [(["AmpList", F1], ["A", [[S_(n), S_(m)]]]) for n in (65525, 65526, 65535, 65536) for m in (0, 1)]
    rows2 = [[a, b] for a in (["U", [2048]], NONE_V) for b in (["L", []], ["L", [["B", 1]]])]
    cases += [(["AmpList", F2], ["A", rows]) for rows in _seqs_upto(rows2, 2)]
    cases += [(["AmpList", []], ["A", [[]] * k]) for k in range(4)]
    nested = ["AmpList", [[rle(b"x"), ["AmpList", F1], 0]]]
    cases += [(nested, ["A", [[["A", rows]]]]) for rows in _seqs_upto([[S_(1), NONE_V], [S_(0), S_(1)]], 2)]
    return [{"name": rle(b"a"), "t": t, "v": v} for t, v in cases]


def rand_type(rng, depth=0):
    r = rng.random()
    if depth >= 2 or r < 0.45:
        return rng.choice([STR, UNI, BOOL])
    if r < 0.75:
        return ["List", rand_type(rng, depth + 1)]
    names = rng.sample(["a", "b", "c", "key", "z9"], rng.randint(0, 3))
    return ["AmpList", [[rle(n.encode()), rand_type(rng, depth + 1), int(rng.random() < 0.4)] for n in sorted(names)]]


def _contains_amplist(t):
    return t[0] == "AmpList" or (t[0] == "List" and _contains_amplist(t[1]))


def rand_value(rng, t, depth=0):
    k = t[0]
    if k == "Str":
        big = depth == 0 and rng.random() < 0.15
        n = rng.choice([65533, 65534, 65535, 65536, rng.randint(60000, 70000)]) if big else rng.choice([0, 1, 2, rng.randint(3, 300)])
        return ["S", rand_runs(rng, n)]
    if k == "Uni":
        n = rng.choice([0, 1, 2, 3, rng.randint(4, 40)])
        return ["U", [rng.choice(ARG_CPS) if rng.random() < 0.5 else rng.choice([rng.randint(0, 127), rng.randint(128, 2047),
                      rng.randint(2048, 65535), rng.randint(65536, 1114111)]) for _ in range(n)]]
    if k == "Bool":
        return ["B", rng.randint(0, 1)]
    if k == "List":
        return ["L", [rand_value(rng, t[1], depth + 1) for _ in range(rng.choice([0, 1, 2, 3, 5]))]]
    rows = []
    for _ in range(rng.choice([0, 1, 2, 3])):
        row = []
        for n, ft, opt in t[1]:
            if opt and rng.random() < 0.4:          # None only for optional fields (None for a required field is outside the domain)
                row.append(NONE_V)
            else:
                row.append(rand_value(rng, ft, depth + 1))
        rows.append(row)
    return ["A", rows]


def rand_arg_case(rng):
    while True:
        t = rand_type(rng)
        # ListOf(AmpList) is documented as unsupported (ListOf needs toString/fromString element types)
        if t[0] == "List" and _contains_amplist(t[1]):
            continue
        if t[0] == "AmpList" and any(ft[0] == "List" and _contains_amplist(ft[1]) for _, ft, _ in t[1]):
            continue
        break
    name = rng.choice([b"a", b"a", b"arg", b"x" * 255, b"y" * 256, b"value_1"])
    return {"name": rle(name), "t": t, "v": rand_value(rng, t)}


def arg_fingerprint(trace, rej):
    if rej.reached >= len(trace["ev"]):
        return "arg/end"
    e = trace["ev"][rej.reached]
    return "arg/%s/%s/%s" % (e["e"], e["res"], trace["cfg"]["t"][0])


def arg_mutate(t, rng):
    evs = t["ev"]
    e = evs[rng.randrange(len(evs))]
    if e["e"] == "enc":
        if e["res"] == "refused":
            e["res"], e["wr"] = "ok", [[0, 2]]
        elif rng.random() < 0.5 and e["wr"]:
            j = rng.randrange(len(e["wr"]))
            e["wr"][j][0] = (e["wr"][j][0] + 1) % 256
            e["wr"] = norm(e["wr"])
        else:
            e["wr"] = norm(e["wr"] + [[0, 2]])
    else:
        v = e["v"]
        if v[0] == "B":
            v[1] = 1 - v[1]
        elif v[0] == "S":
            v[1] = norm(v[1] + [[1, 1]])
        elif v[0] in ("U",):
            v[1] = v[1] + [65]
        elif v[0] in ("L", "A") and v[1]:
            v[1].pop()
        else:
            e["v"] = ["X", []]
    return t


def run_args(ctx):
    from harness.core import MachineryError
    r = ctx.mc("AmpWireArgMC", "AmpWireArgMC.cfg")
    if not r.ok:
        raise MachineryError("AmpWireArg spec violates its own invariants: " + r.error)
    ctx.require_actions("AmpWireArgMC", ["EncodeOk", "EncodeRefuse", "Decode"])
    traces = [run_arg(c) for c in arg_class_cases()]
    ctx.extra["arg_class_cases"] = len(traces)
    for _ in range(ctx.pick(600, 20000)):
        traces.append(run_arg(rand_arg_case(ctx.rng)))
    for t in traces:
        ctx.note_trace(t, nontrivial=len(t["ev"]) >= 2)
    ctx.log("recorded %d real argument encode/decode executions" % len(traces))
    rej = ctx.validate("AmpWireArgTrace", traces, shard_size=ctx.pick(1500, 4000))
    for x in rej:
        t = traces[x.idx]
        e = t["ev"][x.reached] if x.reached < len(t["ev"]) else None
        ctx.violation(arg_fingerprint(t, x), "argument codec run not explained by AmpWireArg.tla: type %s value %s event %s info %s"
                      % (t["cfg"]["t"], str(t["cfg"]["v"])[:300], str(e)[:300], t["info"][min(x.reached, len(t["info"]) - 1)]),
                      dict(kind="arg", cfg=t["cfg"], rejected_at=x.reached))
    bad = {x.idx for x in rej}
    good = [t for i, t in enumerate(traces) if i not in bad]
    ctx.selftest_rejects("AmpWireArgTrace", good[-200:], arg_mutate, n=16)


def replay_args(ctx, obj):
    t = run_arg(obj["cfg"])
    ctx.note_trace(t)
    rej = ctx.validate("AmpWireArgTrace", [t])
    for x in rej:
        ctx.violation(arg_fingerprint(t, x), "replayed argument case rejected at event %d" % x.reached,
                      dict(kind="arg", cfg=t["cfg"], rejected_at=x.reached))
    for e, i in zip(t["ev"], t["info"]):
        print(str(e)[:400], i)


# --------------------------------------------------------------------------- verdict plumbing

def fingerprint(trace, rej):
    if rej.reached >= len(trace["ev"]):
        return "end"
    e = trace["ev"][rej.reached]
    if e["e"] == "send":
        inf = trace["info"][rej.reached]
        return "send/%s/%s" % (e["res"], "+".join(inf["defects"]) or "representable")
    return "deliver/%s/closed=%s" % (e["res"], e["closed"])


def describe(trace, rej):
    if rej.reached >= len(trace["ev"]):
        return "trace rejected at end"
    e = trace["ev"][rej.reached]
    if e["e"] == "send":
        inf = trace["info"][rej.reached]
        nb = sum(1 for x in trace["ev"][:rej.reached + 1] if x["e"] == "send")
        return ("sendBox of box #%d %s (defects: %s) returned %r (exception %r) and wrote %d bytes; AmpWire.tla does not allow that"
                % (nb, trace["cfg"]["boxes"][nb - 1], inf["defects"] or "none", e["res"], inf["exc"], sum(c for _, c in e["wr"])))
    return "parser output after delivering %d bytes not explained by AmpWire.tla: new=%s one-piece=%s closed=%s res=%s" % (
        e["n"], e["new"], e["one"], e["closed"], e["res"])


def mutate(t, rng):
    evs = t["ev"]
    if not evs:
        return None
    i = rng.randrange(len(evs))
    e = evs[i]
    r = rng.random()
    if e["e"] == "send":
        if r < 0.4 and e["wr"]:
            e["wr"][rng.randrange(len(e["wr"]))][1] += 1          # one more byte written than the format allows
        elif r < 0.7 and e["wr"]:
            j = rng.randrange(len(e["wr"]))
            e["wr"][j][0] = (e["wr"][j][0] + 1) % 256
            e["wr"] = norm(e["wr"])
        else:
            e["res"] = "refused" if e["res"] == "ok" else "ok"
    else:
        if r < 0.35 and e["new"]:
            e["new"].pop(rng.randrange(len(e["new"])))            # a box lost
        elif r < 0.6 and e["one"]:
            b = e["one"][rng.randrange(len(e["one"]))]
            if b:
                b[0][1] = norm(b[0][1] + [[66, 1]])               # a value altered in the one-piece parse
            else:
                b.append([[[65, 1]], []])
        elif r < 0.8:
            e["closed"] = not e["closed"]
        else:
            e["new"] = e["new"] + [[[[[65, 1]], [[66, 1]]]]]       # a box invented
    return t


# --------------------------------------------------------------------------- argument structure (AmpWireArg)

_CMD_CACHE = {}


def _amp_type(t):
    from twisted.protocols import amp
    k = t[0]
    if k == "Str":
        return amp.String()
    if k == "Uni":
        return amp.Unicode()
    if k == "Bool":
        return amp.Boolean()
    if k == "List":
        return amp.ListOf(_amp_type(t[1]))
    if k == "AmpList":
        return amp.AmpList([(unrle(n), _amp_type(ft) if not opt else _amp_type_opt(ft)) for n, ft, opt in t[1]])
    raise ValueError(k)


def _amp_type_opt(t):
    a = _amp_type(t)
    a.optional = True
    return a


def _py_value(t, v):
    """canonical value -> python object handed to the real encoder"""
    if v[0] == "N":
        return None
    k = t[0]
    if k == "Str":
        return unrle(v[1])
    if k == "Uni":
        return "".join(chr(c) for c in v[1])
    if k == "Bool":
        return bool(v[1])
    if k == "List":
        return [_py_value(t[1], e) for e in v[1]]
    return [{unrle(n).decode("ascii"): _py_value(ft, row[i]) for i, (n, ft, opt) in enumerate(t[1])} for row in v[1]]


def _canon(t, o):
    """python object produced by the real decoder -> canonical value (["X", []] when it has an unexpected shape)"""
    X = ["X", []]
    if o is None:
        return ["N", []]
    k = t[0]
    if k == "Str":
        return ["S", rle(o)] if isinstance(o, bytes) else X
    if k == "Uni":
        return ["U", [ord(c) for c in o]] if isinstance(o, str) else X
    if k == "Bool":
        return ["B", int(o)] if isinstance(o, bool) else X
    if k == "List":
        return ["L", [_canon(t[1], e) for e in o]] if isinstance(o, list) else X
    if not isinstance(o, list):
        return X
    rows = []
    for d in o:
        if not isinstance(d, dict) or set(d) != {unrle(n).decode("ascii") for n, _, _ in t[1]}:
            return X
        rows.append([_canon(ft, d[unrle(n).decode("ascii")]) for n, ft, opt in t[1]])
    return ["A", rows]


def run_arg(cfg):
    """One argument of type cfg.t with value cfg.v through a real Command: makeArguments + serialize, then
    parseString + parseArguments."""
    import json as _json
    from twisted.protocols import amp
    key = _json.dumps([cfg["name"], cfg["t"]])
    cmd = _CMD_CACHE.get(key)
    name = unrle(cfg["name"])
    if cmd is None:
        cmd = type("ArgCmd", (amp.Command,), {"arguments": [(name, _amp_type(cfg["t"]))]})
        if len(_CMD_CACHE) < 500:
            _CMD_CACHE[key] = cmd
    proto = amp.AMP()
    ev, info = [], []
    pyname = name.decode("ascii")
    try:
        box = cmd.makeArguments({pyname: _py_value(cfg["t"], cfg["v"])}, proto)
        wire = box.serialize()
        ev.append({"e": "enc", "res": "ok", "wr": rle(wire)})
        info.append({})
    except Exception as e:
        ev.append({"e": "enc", "res": "refused", "wr": []})
        info.append({"exc": type(e).__name__})
        return {"cfg": cfg, "ev": ev, "info": info}
    try:
        boxes = amp.parseString(wire)
        objs = cmd.parseArguments(boxes[0], proto) if len(boxes) == 1 else {}
        ev.append({"e": "dec", "res": "ok", "v": _canon(cfg["t"], objs[pyname]) if pyname in objs else ["X", []]})
        info.append({})
    except Exception as e:
        ev.append({"e": "dec", "res": "EXC:" + type(e).__name__, "v": ["X", []]})
        info.append({"exc": type(e).__name__})
    return {"cfg": cfg, "ev": ev, "info": info}


def run(ctx):
    from harness.core import MachineryError

    # -coverage costs ~5x on these recursive operators: the full class run goes without it, the vacuity guard
    # (every action taken) is evaluated on a sub-family of the same configurations with coverage on.
    r = ctx.mc("AmpWireMC", ctx.pick("AmpWireMC.cfg", "AmpWireMC.thorough.cfg"), coverage=False)
    if not r.ok:
        raise MachineryError("AmpWire spec violates its own invariants: " + r.error)
    if not ctx.quick:
        r2 = ctx.mc("AmpWireMC", "AmpWireMC.thorough2.cfg", coverage=False, label="three boxes / 2+1 pairs over reduced classes")
        if not r2.ok:
            raise MachineryError("AmpWire spec violates its own invariants: " + r2.error)
    rc = ctx.mc("AmpWireMC", "AmpWireMC.cov.cfg", label="coverage / vacuity guard on a sub-family")
    if not rc.ok:
        raise MachineryError("AmpWire spec violates its own invariants: " + rc.error)
    ctx.require_actions("AmpWireMC", ["Send", "Refuse", "Recv"])
    # why an empty key is unrepresentable: with it admitted the round-trip invariant must FAIL (vacuity guard on RoundTrip)
    rn = ctx.mc("AmpWireMC", "AmpWireMC.neg.cfg", must_pass=False, coverage=False, label="negative: empty key admitted")
    if rn.ok or rn.kind != "invariant":
        raise MachineryError("negative control: RoundTrip not violated when empty keys are admitted (%s)" % (rn.kind or "ok"))

    traces = []
    keylens = [0, 1, "mid", 255, 256]
    vallens = [0, 1, "mid", 65535, 65536]
    shapes = ctx.pick([(0,), (1,), (2,), (1, 1)], [(0,), (1,), (2,), (1, 1), (0, 1), (1, 0)])
    family = list(class_configs(shapes, keylens, vallens))
    if not ctx.quick:       # three pairs / three boxes over reduced classes (the AmpWireMC.thorough2 family)
        family += list(class_configs([(2, 1), (1, 2), (1, 1, 1)], [0, 1, 255], [0, 65535]))
    ncfg = 0
    for cfg in family:
        ncfg += 1
        big = any(c >= 65535 for b in cfg["boxes"] for p in b for x in p for _, c in x[1])
        scheds = schedules_for(cfg, ctx.rng, ctx.pick(0, 2))
        npairs = sum(len(b) for b in cfg["boxes"])
        if (ctx.quick and npairs >= 2) or npairs >= 3:
            scheds = scheds[1:2] or scheds                       # the all-boundaries schedule only for the larger configs
        for ops in scheds:
            traces.append(run_wire(cfg, ops, sender="amp" if (ncfg % 2) else "bbp"))
    ctx.exhaustive = True
    ctx.extra["class_configs"] = ncfg
    ctx.extra["class_config_shapes"] = [list(s) for s in shapes]
    nrand = ctx.pick(1200, 25000)
    for i in range(nrand):
        cfg = rand_cfg(ctx.rng)
        traces.append(run_wire(cfg, rand_schedule(cfg, ctx.rng), sender=ctx.rng.choice(["amp", "bbp"])))
    for t in traces:
        ctx.note_trace(t, nontrivial=len({e["e"] for e in t["ev"]}) >= 2)
    ctx.log("recorded %d real executions (%d class configs)" % (len(traces), ncfg))
    rej = ctx.validate("AmpWireTrace", traces, shard_size=ctx.pick(1500, 2500))
    for x in rej:
        t = traces[x.idx]
        ctx.violation(fingerprint(t, x), describe(t, x), dict(kind="wire", cfg=t["cfg"], ops=t["ops"], sender=t["sender"], rejected_at=x.reached))
    bad = {x.idx for x in rej}
    good = [t for i, t in enumerate(traces) if i not in bad and len(t["ev"]) >= 2]
    ctx.selftest_rejects("AmpWireTrace", good[-300:], mutate, n=24)

    run_args(ctx)


def replay(ctx, obj):
    if obj.get("kind") == "arg":
        return replay_args(ctx, obj)
    t = run_wire(obj["cfg"], [tuple(o) for o in obj["ops"]], sender=obj.get("sender", "bbp"))
    ctx.note_trace(t)
    rej = ctx.validate("AmpWireTrace", [t])
    for x in rej:
        ctx.violation(fingerprint(t, x), describe(t, x), dict(kind="wire", cfg=t["cfg"], ops=t["ops"], sender=t["sender"], rejected_at=x.reached))
    for e, i in zip(t["ev"], t["info"]):
        print(e, i)
