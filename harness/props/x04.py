"""X04 (extension, not a listed property) -- endpoints.HostnameEndpoint staggered connection attempts.
Spec: specs/HappyEyeballs.tla.  Reported under coverage.extra_modules of the nearest property (C58)."""

META = dict(
    id="X04", extension=True, nearest="C58",
    specs=["HappyEyeballs.tla", "HappyEyeballsMC.tla", "HappyEyeballsTrace.tla"],
    technique="TLA+ spec of HostnameEndpoint's attempt scheduling + TLC trace validation of the real endpoint on MemoryReactorClock",
    level_text="extension module: grows the specification beyond the listed properties",
    level_note="not a listed property; alarms are reported as EXTRA-ALARM, never as VIOLATION",
    design_ref="4 (extensions)",
    rule="history of connect/advance/attempt-succeeds/attempt-fails/cancel; distinct by event sequence",
)


def run_history(cfg, ops):
    from zope.interface import implementer
    from twisted.internet import endpoints, error
    from twisted.internet.address import IPv4Address
    from twisted.internet.interfaces import IReactorPluggableNameResolver, IHostnameResolver
    from twisted.internet.protocol import Factory, Protocol
    from twisted.internet.testing import MemoryReactorClock, StringTransport
    from twisted.python.failure import Failure

    n, delay = cfg["n"], cfg["delay"]

    @implementer(IHostnameResolver)
    class Resolver:
        def resolveHostName(self, receiver, hostName, portNumber=0, addressTypes=None, transportSemantics="TCP"):
            receiver.resolutionBegan(None)
            for i in range(n):
                receiver.addressResolved(IPv4Address("TCP", "10.0.0.%d" % (i + 1), portNumber))
            receiver.resolutionComplete()
            return receiver

    @implementer(IReactorPluggableNameResolver)
    class R(MemoryReactorClock):
        nameResolver = Resolver()

        def installNameResolver(self, r):
            pass

    reactor = R()
    ep = endpoints.HostnameEndpoint(reactor, b"example.com", 80, attemptDelay=delay)
    protos = []

    class P(Protocol):
        pass

    class F(Factory):
        def buildProtocol(self, addr):
            p = P()
            protos.append(p)
            return p

    result = []
    d = None
    ev = []
    done_attempts = set()
    owner = {}     # id(protocol) -> attempt index

    class AttemptFailed(Exception):
        def __init__(self, i):
            self.i = i

    def res_now():
        if not result:
            return ["none", 0]
        r = result[0]
        if isinstance(r, Failure):
            if r.check(error.ConnectingCancelledError):
                return ["cancelled", 0]
            if r.check(error.DNSLookupError):
                return ["nodns", 0]
            if r.check(AttemptFailed):
                return ["fail", r.value.i]
            return ["fail", -1]
        return ["ok", owner.get(id(r), -1)]

    for op in ops:
        nconn0 = len(reactor.tcpClients)
        stopped0 = {i for i, c in enumerate(reactor.connectors) if c.stoppedConnecting}
        e = None
        if op[0] == "connect":
            if d is not None:
                continue
            d = ep.connect(F())
            d.addBoth(result.append)
            e = {"e": "connect"}
        elif d is None:
            continue
        elif op[0] == "advance":
            reactor.advance(op[1])
            e = {"e": "advance", "d": op[1]}
        elif op[0] in ("succeed", "fail"):
            i = op[1]
            if i < 1 or i > len(reactor.tcpClients) or i in done_attempts or reactor.connectors[i - 1].stoppedConnecting or result:
                continue
            host, port, factory, timeout, bind = reactor.tcpClients[i - 1]
            done_attempts.add(i)
            if op[0] == "succeed":
                p = factory.buildProtocol(IPv4Address("TCP", host, port))
                owner[id(protos[-1])] = i
                p.makeConnection(StringTransport())
                e = {"e": "succeed", "i": i}
            else:
                factory.clientConnectionFailed(reactor.connectors[i - 1], Failure(AttemptFailed(i)))
                e = {"e": "fail", "i": i}
        elif op[0] == "cancel":
            d.cancel()
            e = {"e": "cancel"}
        e["started"] = list(range(nconn0 + 1, len(reactor.tcpClients) + 1))
        stopped = {i for i, c in enumerate(reactor.connectors) if c.stoppedConnecting}
        e["cancelled"] = sorted(i + 1 for i in stopped - stopped0)
        e["res"] = res_now()
        ev.append(e)
    return {"cfg": cfg, "ops": [list(o) for o in ops], "ev": ev}


def random_ops(rng, n):
    ops = [("connect",)]
    for _ in range(rng.randint(2, 14)):
        r = rng.random()
        if r < 0.45:
            ops.append(("advance", rng.choice([0, 1, 1, 2, 3])))
        elif r < 0.62:
            ops.append(("succeed", rng.randint(1, max(1, n))))
        elif r < 0.92:
            ops.append(("fail", rng.randint(1, max(1, n))))
        else:
            ops.append(("cancel",))
    return ops


def run(ctx):
    ctx.mc("HappyEyeballsMC", "HappyEyeballsMC.cfg")
    ctx.require_actions("HappyEyeballsMC", ["Connect", "Advance", "Succeed", "Fail", "Cancel"])
    traces = []
    for _ in range(ctx.pick(2000, 40000)):
        cfg = {"n": ctx.rng.choice([0, 1, 2, 3, 4]), "delay": ctx.rng.choice([1, 2, 3])}
        traces.append(run_history(cfg, random_ops(ctx.rng, cfg["n"])))
    ctx.note_traces(traces)
    rej = ctx.validate("HappyEyeballsTrace", traces, shard_size=3000)
    for x in rej[:10]:
        t = traces[x.idx]
        e = t["ev"][x.reached] if x.reached < len(t["ev"]) else None
        ctx.violation("happy/%s" % (e or {}).get("e"), "HostnameEndpoint execution not explained by HappyEyeballs.tla at event %d: %s" % (x.reached, e),
                      dict(cfg=t["cfg"], ops=t["ops"]))

    def mutate(t, rng):
        c = [i for i, e in enumerate(t["ev"]) if e["started"] or e["cancelled"]]
        if not c:
            return None
        i = rng.choice(c)
        if t["ev"][i]["started"]:
            t["ev"][i]["started"] = []
        else:
            t["ev"][i]["cancelled"] = []
        return t
    bad = {x.idx for x in rej}
    ctx.selftest_rejects("HappyEyeballsTrace", [t for i, t in enumerate(traces) if i not in bad][:200], mutate, n=10)


def replay(ctx, obj):
    t = run_history(obj["cfg"], [tuple(o) for o in obj["ops"]])
    for e in t["ev"]:
        print(e)
    for x in ctx.validate("HappyEyeballsTrace", [t]):
        ctx.violation("happy/replay", "rejected at %d" % x.reached, dict(cfg=t["cfg"], ops=t["ops"]))
