"""C21 -- HTTP server handles pipelined requests one at a time and notifies finish once.

Spec:     specs/HttpServerAbs.tla (the property: application side of one connection),
          HttpServerAbsMC (exhaustive TLC), HttpServerAbsTrace (trace validation);
          specs/HttpServer.tla + HttpServerMC: the channel algorithm as coded (line buffer, _handlingRequest,
          _dataBuffer replay, persistence, notifications), checked by TLC against the same invariants.
Binding:  real twisted.web.http.HTTPChannel + recording http.Request subclass over a recording StringTransport
          (harness/adapters/c18_c19_c21_http.py).  Random well-formed pipelines, random splits, resources that
          finish now / later / never, transport pause / resume, connection loss injected at every operation
          boundary of every base schedule.  One event per observable; TLC decides.
"""
import copy

META = dict(
    id="C21",
    specs=["HttpServerAbs.tla", "HttpServerAbsMC.tla", "HttpServerAbsTrace.tla", "HttpServer.tla", "HttpServerMC.tla"],
    technique="TLA+ spec of the application side of an HTTP/1.1 server connection (TLC exhaustive) + TLA+ model of the HTTPChannel algorithm checked against it + TLC trace validation of real HTTPChannel executions (random pipelines/splits/response timings/pause-resume, connection loss at every operation boundary)",
    level_text="TLC checks one-request-at-a-time, in-order non-interleaved responses and exactly-once notifyFinish (None on finish, failure on loss) on the specification for all schedules within the bounds, and every recorded execution of the real HTTPChannel/Request is validated by TLC as a behaviour of that specification, event by event.",
    level_note="Trusted: TLC; the adapter's classification of written segments (response head by its X-R header, body pieces by their marker, '100 Continue', chunk terminator) and its arithmetic of where generated requests end. notifyFinish() is only called while the request is in the application. No timing is required of hand-over or notification except at quiescence. Schedules beyond the enumerated ones are sampled.",
    design_ref="2.7 C18/C19/C21",
    rule="case = (well-formed pipelined stream, resource plan per request, operation schedule incl. loss point); distinct = hash of (cfg, events); non-trivial = at least two different event kinds",
)


def _adapter():
    from harness.adapters import c18_c19_c21_http as A
    return A


def make_case(rng, nreq=None, big=False):
    A = _adapter()
    nreq = nreq or rng.randint(1, 4)
    stream, ends, closing, descr = A.c21_stream(rng, nreq, big=big)
    plans = []
    for r in range(nreq):
        kind = rng.choice(["now", "now", "later", "later", "later", "never"] if rng.random() < 0.3 else ["now", "later", "later"])
        style = rng.choice(["cl", "chunked"])
        plans.append(dict(kind=kind, nd=rng.choice([0, 1, 1, 2]), renotify=rng.choice([0, 0, 1, 2]), style=style, pre=rng.choice([0, 1, 2]),
                          post=0 if kind == "now" else rng.choice([0, 1, 2])))
    return dict(stream=stream.hex(), ends=ends, closing=closing, plans=plans, descr=descr)


def random_ops(rng, case, n=None):
    total = len(case["stream"]) // 2
    ops = []
    n = n or rng.randint(4, 14)
    # cut points: request boundaries +- 1, inside CRLFs, random
    for _ in range(n):
        x = rng.random()
        if x < 0.5:
            m = rng.choice([1, 2, 3, 7, 20, 60, total])
            if rng.random() < 0.3 and case["ends"]:
                m = max(1, rng.choice(case["ends"]) + rng.choice([-1, 0, 1, 2]))   # interpreted as "up to absolute offset" if > current
                ops.append(["D", m])
                continue
            ops.append(["d", m])
        elif x < 0.68:
            ops.append(["f"])
        elif x < 0.8:
            ops.append(["w"])
        elif x < 0.89:
            ops.append(["p"])
        else:
            ops.append(["r"])
    return ops


def run_ops(case, ops):
    """Execute ops on a real connection; disabled ops are skipped.  Returns the trace."""
    A = _adapter()
    stream = bytes.fromhex(case["stream"])
    ends = case["ends"]
    plans = case["plans"]

    def plan(r):
        return plans[r - 1] if 1 <= r <= len(plans) else dict(kind="now", nd=0, style="cl", pre=0, post=0)

    c = A.Conn(plan=plan, record="c21")
    off = 0
    posted = {}
    driver_paused = False
    done_ops = []

    def deliver(upto):
        nonlocal off
        upto = min(upto, len(stream))
        if upto <= off or not c.can_deliver():
            return False
        k = sum(1 for e in ends if off < e <= upto)
        data = stream[off:upto]
        off = upto
        c.deliver(data, k)
        return True

    def oldest_live():
        return min(c.live) if c.live else None

    def has_producer():
        return getattr(c.transport, "producer", None) is not None

    for op in ops:
        if op[0] == "d":
            if deliver(off + op[1]):
                done_ops.append(op)
        elif op[0] == "D":
            if deliver(op[1]):
                done_ops.append(op)
        elif op[0] == "f":
            r = oldest_live()
            if r is not None and plan(r)["kind"] != "never":
                c.app_finish(r)
                done_ops.append(op)
        elif op[0] == "w":
            r = oldest_live()
            if r is not None and posted.get(r, 0) < plan(r)["post"]:
                posted[r] = posted.get(r, 0) + 1
                c.app_write(r)
                done_ops.append(op)
        elif op[0] == "p":
            if not c.lost and not driver_paused and has_producer():
                driver_paused = True
                c.pause()
                done_ops.append(op)
        elif op[0] == "r":
            if not c.lost and driver_paused and has_producer():
                driver_paused = False
                c.resume()
                done_ops.append(op)
        elif op[0] == "l":
            if not c.lost:
                c.lose()
                done_ops.append(op)
    # quiescence: resume, let every Later resource finish, deliver what is left
    for _ in range(len(ends) + 3):
        progress = False
        if driver_paused and not c.lost and has_producer():
            driver_paused = False
            c.resume()
            progress = True
        for r in sorted(c.live):
            if plan(r)["kind"] == "never":
                continue
            while posted.get(r, 0) < plan(r)["post"]:
                posted[r] = posted.get(r, 0) + 1
                c.app_write(r)
            c.app_finish(r)
            progress = True
        if deliver(len(stream)):
            progress = True
        if not progress:
            break
    c.ev.append({"e": "end"})
    return {"cfg": {"closing": case["closing"]}, "ev": c.ev, "case": case, "ops": [list(o) for o in ops],
            "delivered": off, "wire_len": len(c.wire())}


def loss_variants(ops):
    for i in range(len(ops) + 1):
        yield ops[:i] + [["l"]] + ops[i:]


def mutate(t, rng):
    """Corrupt one logged field / drop or duplicate one event (binding self-test)."""
    evs = t["ev"]
    kinds = [i for i, e in enumerate(evs) if e["e"] in ("recv", "notify", "seg", "finish")]
    if not kinds:
        return None
    i = rng.choice(kinds)
    e = evs[i]
    x = rng.random()
    if e["e"] == "notify":
        if x < 0.5:
            evs.insert(i, copy.deepcopy(e))            # fired twice
        else:
            e["v"] = "fail" if e["v"] == "none" else "none"
    elif e["e"] == "recv":
        if x < 0.5:
            e["r"] += 1                                  # skipped a request
        else:
            # hand-over moved before the previous finish
            js = [j for j in range(i) if evs[j]["e"] == "finish"]
            if not js:
                e["r"] += 1
            else:
                evs.insert(js[-1], evs.pop(i))
    elif e["e"] == "seg":
        if e["k"] in ("head", "body"):
            e["r"] += 1                                  # segment of another response
        elif e["k"] == "r100":
            return None
        else:
            evs.insert(i, copy.deepcopy(e))            # terminator twice
    else:
        del evs[i]                                       # finish never called, yet later events remain
        if not any(ev["e"] in ("notify", "recv") and ev.get("r", 0) >= e["r"] for ev in evs[i:]):
            return None
    return t


def fingerprint(trace, rej):
    e = trace["ev"][rej.reached] if rej.reached < len(trace["ev"]) else {}
    k = e.get("e")
    if k == "seg":
        k += "/" + str(e.get("k"))
    if k == "notify":
        k += "/" + str(e.get("v"))
    if k == "ret":
        k += "/" + str(e.get("x"))
    return str(k)


def run(ctx):
    from harness.core import MachineryError

    if _skip_mc(ctx):
        pass
    else:
        r = ctx.mc("HttpServerAbsMC", ctx.pick("HttpServerAbsMC.cfg", "HttpServerAbsMC.thorough.cfg"), timeout=ctx.pick(900, 3000))
        if not r.ok:
            raise MachineryError("HttpServerAbs violates its own invariants: " + r.error)
        ctx.require_actions("HttpServerAbsMC", ["Deliver", "Recv", "Seg", "SegContinue", "WriteCall", "FinishCall", "LateFinish",
                                                "Notify", "NotifyRequest", "Lose", "Pause", "Resume", "Ret", "End"])
        run_impl_mc(ctx)

    traces = []
    nbase = ctx.pick(250, 3000)
    for i in range(nbase):
        case = make_case(ctx.rng, big=(i % 10 == 0))
        ops = random_ops(ctx.rng, case)
        traces.append(run_ops(case, ops))
        # connection loss at every operation boundary of this schedule
        if i % ctx.pick(2, 1) == 0:
            for v in loss_variants(ops):
                traces.append(run_ops(case, v))
    ctx.extra["base_schedules"] = nbase
    ctx.note_traces([{"cfg": t["cfg"], "ev": t["ev"]} for t in traces])
    ctx.log("recorded %d real executions, %d events" % (len(traces), sum(len(t["ev"]) for t in traces)))
    slim = [{"cfg": t["cfg"], "ev": t["ev"]} for t in traces]
    rej = ctx.validate("HttpServerAbsTrace", slim, shard_size=ctx.pick(1500, 4000))
    for x in rej[:200]:
        t = traces[x.idx]
        ev = t["ev"][x.reached] if x.reached < len(t["ev"]) else None
        ctx.violation(fingerprint(t, x),
                      "real HTTPChannel execution not explained by HttpServerAbs.tla at event %d: %s (previous: %s)" % (
                          x.reached, ev, t["ev"][max(0, x.reached - 3):x.reached]),
                      dict(case=t["case"], ops=t["ops"], rejected_at=x.reached))
    bad = {x.idx for x in rej}
    good = [slim[i] for i in range(len(slim)) if i not in bad and len(slim[i]["ev"]) > 8]
    ctx.selftest_rejects("HttpServerAbsTrace", good[-300:], mutate, n=24)


def _skip_mc(ctx):
    """The design-level TLC runs do not depend on the twisted tree; tools/mutant_run.sh callers may skip them
    (VERIF_SKIP_MC=1) to re-run only the binding against a patched tree.  Never set by ./check itself."""
    import os
    if os.environ.get("VERIF_SKIP_MC"):
        ctx.log("VERIF_SKIP_MC set: design-level TLC runs skipped (binding only)")
        ctx.assumptions.append("design-level TLC runs skipped in this run (VERIF_SKIP_MC)")
        return True
    return False


def run_impl_mc(ctx):
    """The channel algorithm as coded (specs/HttpServer.tla), exhaustively, against the same invariants."""
    import os
    from harness.core import MachineryError, SPECS

    if not os.path.exists(os.path.join(SPECS, "HttpServerMC.tla")):
        ctx.log("HttpServerMC not present: Impl layer skipped")
        return
    r = ctx.mc("HttpServerMC", ctx.pick("HttpServerMC.c21.cfg", "HttpServerMC.c21.thorough.cfg"), timeout=ctx.pick(900, 3000))
    if not r.ok:
        raise MachineryError("HttpServer (channel algorithm model) breaks a C21 invariant: %s\n%s" % (r.error, "".join(r.cex[-3:])[-3000:]))


def replay(ctx, obj):
    t = run_ops(obj["case"], obj["ops"])
    slim = {"cfg": t["cfg"], "ev": t["ev"]}
    ctx.note_trace(slim)
    rej = ctx.validate("HttpServerAbsTrace", [slim])
    for e in t["ev"]:
        print(e)
    for x in rej:
        ctx.violation(fingerprint(t, x), "replayed schedule rejected at event %d: %s" % (
            x.reached, t["ev"][x.reached] if x.reached < len(t["ev"]) else None),
            dict(case=t["case"], ops=t["ops"], rejected_at=x.reached))
