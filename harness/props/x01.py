"""X01 (extension, not a listed property) -- policies.TimeoutMixin on task.Clock.
Spec: specs/Timeout.tla.  Reported under coverage.extra_modules of the nearest property (C09)."""

META = dict(
    id="X01", extension=True, nearest="C09",
    specs=["Timeout.tla", "TimeoutMC.tla", "TimeoutTrace.tla"],
    technique="TLA+ spec of TimeoutMixin + TLC trace validation of the real mixin on task.Clock",
    level_text="extension module: grows the specification beyond the listed properties",
    level_note="not a listed property; alarms are reported as EXTRA-ALARM, never as VIOLATION",
    design_ref="4 (extensions)",
    rule="history of setTimeout/resetTimeout/advance calls; distinct by event sequence",
)
NONE = -1


def run_history(ops):
    from twisted.internet import task
    from twisted.protocols import policies

    clock = task.Clock()
    fired = []

    class P(policies.TimeoutMixin):
        def callLater(self, period, func):
            return clock.callLater(period, func)

        def timeoutConnection(self):
            fired.append(clock.seconds())

    p = P()
    ev = []
    for op in ops:
        n0 = len(fired)
        if op[0] == "set":
            prev = p.setTimeout(None if op[1] == NONE else op[1])
            ev.append({"e": "set", "p": op[1], "prev": NONE if prev is None else prev, "fired": len(fired) - n0})
        elif op[0] == "reset":
            p.resetTimeout()
            ev.append({"e": "reset", "fired": len(fired) - n0})
        else:
            clock.advance(op[1])
            ev.append({"e": "advance", "d": op[1], "fired": len(fired) - n0})
    return {"cfg": {}, "ops": [list(o) for o in ops], "ev": ev}


def run(ctx):
    ctx.mc("TimeoutMC", "TimeoutMC.cfg")
    ctx.require_actions("TimeoutMC", ["SetTimeout", "Reset", "Advance"])
    traces = []
    n = ctx.pick(1500, 30000)
    for _ in range(n):
        ops = []
        for _ in range(ctx.rng.randint(3, 25)):
            r = ctx.rng.random()
            if r < 0.3:
                ops.append(("set", ctx.rng.choice([NONE, 0, 1, 2, 3, 5])))
            elif r < 0.55:
                ops.append(("reset",))
            else:
                ops.append(("advance", ctx.rng.choice([0, 1, 1, 2, 3, 7])))
        traces.append(run_history(ops))
    ctx.note_traces(traces)
    rej = ctx.validate("TimeoutTrace", traces, shard_size=4000)
    for x in rej[:10]:
        t = traces[x.idx]
        ctx.violation("timeout/%s" % (t["ev"][x.reached]["e"] if x.reached < len(t["ev"]) else "end"),
                      "TimeoutMixin execution not explained by Timeout.tla at event %d" % x.reached, dict(ops=t["ops"]))

    def mutate(t, rng):
        i = rng.randrange(len(t["ev"]))
        t["ev"][i]["fired"] = 1 - t["ev"][i]["fired"]
        return t
    bad = {x.idx for x in rej}
    ctx.selftest_rejects("TimeoutTrace", [t for i, t in enumerate(traces) if i not in bad][:100], mutate, n=10)


def replay(ctx, obj):
    t = run_history([tuple(o) for o in obj["ops"]])
    for x in ctx.validate("TimeoutTrace", [t]):
        ctx.violation("timeout/replay", "rejected at %d" % x.reached, dict(ops=t["ops"]))
