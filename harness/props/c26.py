"""C26 -- static files and FilePath never escape their directory.

Spec:     specs/PathNS.tla (lexical library: kernel-style resolution Walk, posix normpath/join/abspath
          transcribed; the property as guarded actions; the algorithms of child / preauthChild /
          descendant), PathNSMC (exhaustive TLC over all names of <= MaxLen components over the hostile
          alphabet), PathNSTrace (trace validation).
Binding:  real twisted.python.filepath.FilePath.child / preauthChild / descendant on a scratch namespace
          (root R, prefix-sharing sibling, parent) -- the returned .path or the exception class is logged;
          real twisted.web.static.File behind a real server.Site / HTTPChannel over StringTransport -- the
          file-system accesses seen by sys.addaudithook during the request and the scratch files whose
          content appears in the response are logged.  Paths are logged split at "/"; TLC decides
          whether they are inside the root.
"""
import itertools
import os

META = dict(
    id="C26",
    specs=["PathNS.tla", "PathNSMC.tla", "PathNSTrace.tla"],
    technique="TLA+ namespace/path-resolution spec (posix normpath/abspath transcribed and TLC-checked against kernel-style resolution; child/preauthChild/descendant algorithms model-checked over every name of <=3..4 components over a 13-symbol hostile alphabet) + TLC trace validation of real FilePath calls and real static.File/Site requests (exhaustive enumeration of hostile names/URLs, random longer ones) with file-system accesses observed by sys.addaudithook",
    level_text="TLC checks on the specification that the containment algorithms return only the parent itself / a direct child (child) or a path in the subtree (preauthChild, descendant) or raise InsecurePath, for every enumerated name, and that the transcribed normpath/abspath agree with kernel path resolution; every recorded real FilePath call and every recorded real static-file request (files opened, directories listed, file contents served) is validated by TLC as a step the specification allows.",
    level_note="Trusted: TLC, CPython's audit events (open, os.listdir, os.scandir, ...), the lexical split of paths at '/', the content markers identifying served files. Symbolic links are excluded (none in the scratch tree). Accesses made by the import system / linecache are not attributed to the server. os.stat is not observed (the property lists open/serve). Names longer than the enumerated length are sampled. POSIX only.",
    design_ref="2.10 C26",
    rule="case = one call child/preauthChild/descendant(name) or one GET of a hostile URL; a trace = one root configuration with a batch of cases; distinct = hash of (cfg, events); non-trivial = batch contains at least two different outcomes",
)


# --------------------------------------------------------------------------- concretisation

def fp_alphabet(ns, bmode):
    """symbol -> concrete path-name piece (str or bytes)."""
    from harness.adapters import c26_c54_pathns as A
    s = {
        "a": "a", "f": "f", "nx": A.MISSING, "root": A.ROOTNAME, "rootbar": A.SIBNAME,
        ".": ".", "..": "..", "": "",
        "bs": "..\\" + A.SIBNAME, "nul": "a\0", "pct2e": "%2e%2e", "pct2f": "..%2f" + A.SIBNAME,
        "xff": "\udcff", "abssib": ns.sibling,
    }
    if bmode:
        s = {k: v.encode("utf-8", "surrogateescape") for k, v in s.items()}
    return s


CORE = ["a", "f", "nx", "root", "rootbar", ".", "..", ""]
FULL = CORE + ["bs", "nul", "pct2e", "pct2f", "xff", "abssib"]


def seqs(alpha, lo, hi):
    for n in range(lo, hi + 1):
        yield from itertools.product(alpha, repeat=n)


def fp_call(ns, fp, op, arg):
    from twisted.python.filepath import InsecurePath
    try:
        r = getattr(fp, op)(arg)
    except InsecurePath:
        return {"e": op, "res": "InsecurePath"}
    except BaseException as e:            # not an outcome the property allows; TLC has no action for it
        return {"e": op, "res": "EXC:" + type(e).__name__}
    return {"e": op, "res": "ok", "path": ns.comps(r.path)}


def fp_arg(case, alpha, bmode):
    """case = ["child"|"preauthChild", [sym...]] or ["descendant", [[sym...], ...]] -> concrete argument."""
    sep = b"/" if bmode else "/"
    if case[0] == "descendant":
        return [sep.join(alpha[s] for s in name) for name in case[1]]
    return sep.join(alpha[s] for s in case[1])


def run_fp_batch(ns, rootkind, bmode, argb, cases):
    """One trace: a FilePath on the chosen root, a batch of independent calls."""
    from twisted.python.filepath import FilePath
    # "Rnu": a parent whose on-disk name is not UTF-8 -- text mode holds it surrogate-escaped, bytes mode raw.  Returned
    # paths and the root are logged as their on-disk bytes (adapter comps(): str -> utf-8 + surrogateescape).
    rootpath = {"R": ns.root, "Ra": os.path.join(ns.root, "a"), "slash": "/", "Rnu": ns.nonutf}[rootkind]
    fp = FilePath(os.fsencode(rootpath) if bmode else rootpath)
    alpha = fp_alphabet(ns, argb)
    ev = []
    for c in cases:
        e = fp_call(ns, fp, c[0], fp_arg(c, alpha, argb))
        ev.append(e)
    return {"cfg": {"root": ns.comps(fp.path), "cwd": ns.comps(os.getcwd())}, "kind": "fp",
            "rootkind": rootkind, "bmode": bmode, "argb": argb, "cases": [list(c) for c in cases], "ev": ev}


# ----- web

WEB_NAMES_CORE = ["a", "f", "nx", "root", "rootbar", ".", "..", "%2e%2e", ""]
WEB_NAMES_FULL = WEB_NAMES_CORE + [".%2e", "%00", "a%00", "..%00", "%ff", "%c0%ae%c0%ae", "%252e%252e", "index.html", "nx.ext"]
JOIN_CORE = ["/", "%2f"]
JOIN_FULL = ["/", "%2f", "%2F", "\\", "%5c"]


def web_targets(names, joiners, lo, hi):
    for n in range(lo, hi + 1):
        for nm in itertools.product(names, repeat=n):
            for js in itertools.product(joiners, repeat=n - 1):
                t = nm[0]
                for j, x in zip(js, nm[1:]):
                    t += j + x
                yield "/" + t


class Web:
    def __init__(self, ns, reactor, ignored):
        from twisted.web import server, static
        self.ns = ns
        self.reactor = reactor
        self.ignored = list(ignored)
        self.site = server.Site(static.File(ns.root, ignoredExts=self.ignored))

    def get(self, target):
        from harness.adapters.c26_c54_pathns import AUDIT, settle
        from twisted.internet.address import IPv4Address
        from twisted.internet.error import ConnectionDone
        from twisted.internet.testing import StringTransport
        from twisted.python.failure import Failure
        tb = target.encode("latin-1")
        with AUDIT.record() as acc:
            p = self.site.buildProtocol(IPv4Address("TCP", "127.0.0.1", 5000))
            tr = StringTransport()
            p.makeConnection(tr)
            p.dataReceived(b"GET " + tb + b" HTTP/1.1\r\nHost: h\r\nConnection: close\r\n\r\n")
            k = 0
            while tr.producer is not None and k < 200:
                self.reactor.advance(0.01)
                k += 1
            settle(self.reactor, 2)
            p.connectionLost(Failure(ConnectionDone()))
            acc = [[k, self.ns.short(c)] for k, c in acc]
        v = tr.value()
        head, _, body = v.partition(b"\r\n\r\n")
        try:
            code = int(head.split(b" ", 2)[1])
        except (IndexError, ValueError):
            code = 0
        return {"e": "web", "acc": acc, "served": self.ns.served(body), "target": target, "code": code}


def run_web_history(ns, reactor, ignored, before, after, how):
    """A long-lived resource: requests `before`, then the root directory is rotated away by the environment (how =
    "rename": root -> <root>.old next to it; "remove": root deleted, a <root>.old directory exists next to it),
    then requests `after`.  The rotation is not an event; the configured root stays the path the resource was made for."""
    import shutil
    from harness.adapters.c26_c54_pathns import AUDIT
    ns.build()
    w = Web(ns, reactor, ignored)
    ev = [w.get(t) for t in before]
    AUDIT.enabled = False
    old = ns.root + ".old"
    if how == "rename":
        os.rename(ns.root, old)
    else:
        shutil.copytree(ns.root, old)
        shutil.rmtree(ns.root)
    with open(os.path.join(old, "secret.txt"), "wb") as fh:
        fh.write(b"FILE:P/root.old/secret.txt;")
    ev += [w.get(t) for t in after]
    cfg = {"root": ns.comps(ns.root), "cwd": ns.comps(os.getcwd())}
    ns.build()
    return {"cfg": cfg, "kind": "webhist", "ignored": list(ignored), "how": how, "before": list(before),
            "targets": list(before) + list(after), "ev": ev}


def run_web_batch(ns, reactor, ignored, targets):
    w = Web(ns, reactor, ignored)
    ev = [w.get(t) for t in targets]
    return {"cfg": {"root": ns.comps(ns.root), "cwd": ns.comps(os.getcwd())}, "kind": "web", "ignored": list(ignored),
            "targets": list(targets), "ev": ev}


# --------------------------------------------------------------------------- reporting helpers (no verdicts)

def _relation(rootc, pathc, cwdc):
    """Name the position of a rejected path relative to the root -- used only to build the fingerprint."""
    def norm(c):
        s = "/".join(c)
        if not s.startswith("/"):
            s = "/".join(cwdc) + "/" + s
        return os.path.normpath(s).split("/")
    r, p = norm(rootc), norm(pathc)
    if p[:len(r)] == r:
        return "inside"
    if r[:len(p)] == p:
        return "ancestor"
    if len(p) >= len(r) and p[:len(r) - 1] == r[:-1] and p[len(r) - 1].startswith(r[-1]):
        return "prefix-sibling"
    return "elsewhere"


def fingerprint(trace, ev):
    root, cwd = trace["cfg"]["root"], trace["cfg"]["cwd"]
    if ev["e"] in ("web", "ftp"):
        rel = sorted({"%s:%s" % (k, _relation(root, p, cwd)) for k, p in ev["acc"]} - {"%s:inside" % k for k in ("open", "list", "create", "rename", "delete", "other")}
                     | {"served:" + _relation(root, p, cwd) for p in ev["served"] if _relation(root, p, cwd) != "inside"})
        return "%s/%s" % (ev["e"], ",".join(rel) or "?")
    if ev["res"] == "ok":
        rel = _relation(root, ev["path"], cwd)
        if rel == "inside":
            rel = "deeper-than-child"
        return "%s/ok/%s" % (ev["e"], rel)
    return "%s/%s" % (ev["e"], ev["res"])


def describe(trace, i):
    ev = trace["ev"][i]
    if trace["kind"] == "fp":
        return "FilePath(%s).%s(%r) -> %s %s" % ("/".join(trace["cfg"]["root"]), ev["e"], trace["cases"][i][1], ev["res"], "/".join(ev.get("path", ())))
    return "%sGET %s on static.File(%s, ignoredExts=%s) -> %s accesses=%s served=%s" % (
        ("after %s and root %sd: " % (trace["before"], trace["how"])) if trace["kind"] == "webhist" and i >= len(trace["before"]) else "",
        ev["target"], "/".join(trace["cfg"]["root"]), trace.get("ignored"), ev["code"],
        [(k, "/".join(p)) for k, p in ev["acc"]], ["/".join(p) for p in ev["served"]])


def replay_obj(trace, i):
    if trace["kind"] == "fp":
        return dict(kind="fp", rootkind=trace["rootkind"], bmode=trace["bmode"], argb=trace["argb"], cases=[trace["cases"][i]])
    if trace["kind"] == "webhist":
        nb = len(trace["before"])
        return dict(kind="webhist", ignored=trace["ignored"], how=trace["how"], before=trace["before"], after=[trace["targets"][max(i, nb)]])
    return dict(kind="web", ignored=trace["ignored"], targets=[trace["targets"][i]])


def mutate(t, rng):
    """Corrupt one logged field (binding self-test): move a returned / accessed / served path out of the root,
    or replace an outcome by one the property does not allow."""
    from harness.adapters.c26_c54_pathns import ROOTNAME, SIBNAME
    nroot = len(t["cfg"]["root"])

    def outside(p):
        q = list(p)
        if len(q) >= nroot and q[nroot - 1] == ROOTNAME:
            q[nroot - 1] = SIBNAME if rng.random() < 0.5 else ".."
            return q
        return None

    idx = list(range(len(t["ev"])))
    rng.shuffle(idx)
    for i in idx:
        e = t["ev"][i]
        if e["e"] in ("web", "ftp"):
            r = rng.random()
            if e["acc"] and r < 0.4:
                q = outside(e["acc"][0][1])
                if q:
                    e["acc"][0][1] = q
                    return t
            elif e["served"] and r < 0.7:
                q = outside(e["served"][0])
                if q:
                    e["served"][0] = q
                    return t
            else:
                e["acc"].append(["open", t["cfg"]["root"][:-1] + [SIBNAME, "f"]])
                return t
        elif e["res"] == "ok":
            r = rng.random()
            if r < 0.5:
                q = outside(e["path"])
                if q:
                    e["path"] = q
                    return t
            elif r < 0.75 and e["e"] == "child":
                e["path"] = e["path"] + ["x", "y"]
                return t
            else:
                e["res"] = "EXC:ValueError"
                return t
    return None


def report(ctx, traces, rej):
    for x in rej:
        t = traces[x.idx]
        if x.reached >= len(t["ev"]):
            continue
        ev = t["ev"][x.reached]
        ctx.violation(fingerprint(t, ev), "not allowed by PathNS.tla: " + describe(t, x.reached), replay_obj(t, x.reached))


# --------------------------------------------------------------------------- run

def chunks(it, n):
    buf = []
    for x in it:
        buf.append(x)
        if len(buf) >= n:
            yield buf
            buf = []
    if buf:
        yield buf


def design_mc(ctx):
    from harness.core import MachineryError, parse_tla_value
    import re
    # No -coverage here: TLC's cost accounting of the recursive path operators makes the run ~10x slower.  The vacuity
    # guard is exact instead: every enumerated case yields its own state, so the number of distinct states must equal
    # the size of the enumeration (3 roots; S symbols, names of <= L components; D symbols for descendant names of
    # <= 2 components, lists of <= 2 names; Init picks the first component).
    S, L, D = ctx.pick((9, 3, 6), (13, 4, 13))
    names = sum(S ** k for k in range(1, L + 1))
    dn = D + D * D
    expect = dict(Init=3 * S, CaseChild=3 * names, CasePreauth=3 * names, CaseDesc=3 * (S + dn + dn * dn))
    r = ctx.mc("PathNSMC", ctx.pick("PathNSMC.cfg", "PathNSMC.thorough.cfg"), coverage=False, label="containment decided component-wise")
    if not r.ok:
        raise MachineryError("PathNS reference algorithms violate the property / lexical lemmas: " + r.error)
    if r.distinct != sum(expect.values()):
        raise MachineryError("vacuity: PathNSMC explored %d states, the enumeration has %d (%s)" % (r.distinct, sum(expect.values()), expect))
    for k, v in expect.items():
        ctx.coverage_actions["PathNSMC." + k] = v
    # Impl layer as coded (str.startswith containment): a TLC counterexample here is a design-level
    # diagnosis only; it is replayed on the real code and the verdict comes from validating that execution.
    r2 = ctx.mc("PathNSMC", "PathNSMC.string.cfg", must_pass=False, coverage=False, label="containment decided by str.startswith (as coded)")
    cex = None
    if not r2.ok:
        if r2.kind not in ("invariant", "property"):
            raise MachineryError("PathNSMC string mode failed: " + r2.error)
        m = re.search(r"/\\ inp = (<<.*>>)\s*$", r2.cex[-1] if r2.cex else "", re.M)
        if m:
            cex = parse_tla_value(m.group(1))
    ctx.extra["impl_string_prefix_mode"] = dict(refines_property=bool(r2.ok), counterexample_input=cex)
    return cex


SPEC_KEYS = ("e", "res", "path", "acc", "served")


def spec_view(t):
    """What TLC sees of a trace: cfg and the spec-level fields of each event (inputs such as the name or the
    URL stay in the harness; they are not observations)."""
    return {"cfg": t["cfg"], "ev": [{k: e[k] for k in SPEC_KEYS if k in e} for e in t["ev"]]}


SIX = ["a", "root", "rootbar", ".", "..", ""]


def run(ctx):
    from harness.adapters import c26_c54_pathns as A
    from harness.core import MachineryError
    reactor = A.memory_reactor()
    from twisted.logger import globalLogBeginner
    globalLogBeginner.beginLoggingTo([lambda e: None], redirectStandardIO=False, discardBuffer=True)

    cex = design_mc(ctx)

    ns = A.Namespace(os.path.join(ctx.work, "ns"))
    ns.build()
    rng = ctx.rng
    traces = []
    B = 250

    # --- FilePath: exhaustive over the alphabets
    def fp_cases(alpha, lo, hi):
        for name in seqs(alpha, lo, hi):
            yield ("child", list(name))
            yield ("preauthChild", list(name))
    L = ctx.pick(3, 4)
    for batch in chunks(fp_cases(FULL, 1, L), B):                       # str root, str names
        traces.append(run_fp_batch(ns, "R", False, False, batch))
    for batch in chunks(fp_cases(FULL, 1, L - 1), B):                   # bytes root, bytes names
        traces.append(run_fp_batch(ns, "R", True, True, batch))
    for batch in chunks(fp_cases(ctx.pick(SIX, CORE), L + 1, L + 1), B):
        traces.append(run_fp_batch(ns, "R", False, False, batch))
    for batch in chunks(fp_cases(CORE, 1, ctx.pick(2, 3)), B):          # other roots: a subdirectory, "/"
        traces.append(run_fp_batch(ns, "Ra", False, False, batch))
        traces.append(run_fp_batch(ns, "slash", False, False, batch))
    for batch in chunks(fp_cases(FULL, 1, 2), B):                       # mixed str/bytes
        traces.append(run_fp_batch(ns, "R", False, True, batch))
        traces.append(run_fp_batch(ns, "R", True, False, batch))
    # a non-UTF-8 parent in text and bytes mode, names in the same and in the other mode (mixed-mode calls)
    nu = list(fp_cases(CORE, 1, 2)) + [("descendant", [[a], [b]]) for a in CORE for b in ("a", "..", "rootbar", "")]
    for bmode in (False, True):
        for argb in (False, True):
            for batch in chunks(nu, B):
                traces.append(run_fp_batch(ns, "Rnu", bmode, argb, batch))
    two = [list(x) for x in seqs(ctx.pick(SIX, CORE), 1, 2)]
    desc = [("descendant", [list(n) for n in lst]) for lst in seqs([(s,) for s in FULL], 0, ctx.pick(2, 3))]
    desc += [("descendant", [list(n) for n in lst]) for lst in seqs([(s,) for s in CORE], 3, ctx.pick(3, 4))]
    desc += [("descendant", [n for n in lst]) for lst in seqs(two, 2, 2)]
    for batch in chunks(desc, B):
        traces.append(run_fp_batch(ns, "R", False, False, batch))
    nexh = sum(len(t["ev"]) for t in traces)
    # the design-level counterexample of the as-coded algorithm, replayed on the real code
    cex_idx = None
    if cex:
        t = run_fp_batch(ns, "R", False, False, [(cex[0], cex[1])])
        t["origin"] = "TLC counterexample of PathNSMC (string mode)"
        cex_idx = len(traces)
        traces.append(t)
    # random longer names
    for _ in range(ctx.pick(10, 200)):
        cases = []
        for _ in range(B):
            n = rng.randint(4, 8)
            name = [rng.choice(FULL if rng.random() < 0.5 else CORE) for _ in range(n)]
            r = rng.random()
            if r < 0.4:
                cases.append(("child", name))
            elif r < 0.8:
                cases.append(("preauthChild", name))
            else:
                k = rng.randint(1, 3)
                cases.append(("descendant", [name[i::k] for i in range(k)]))
        bm = rng.random() < 0.3
        traces.append(run_fp_batch(ns, rng.choice(["R", "R", "Ra", "Rnu"]), bm, bm if rng.random() < 0.7 else not bm, cases))
    nfp = sum(len(t["ev"]) for t in traces)
    ctx.log("FilePath: %d real calls (%d exhaustive)" % (nfp, nexh))

    # --- static.File behind Site
    wl = []
    wl += list(web_targets(WEB_NAMES_FULL, JOIN_FULL, 1, 2))
    wl += list(web_targets(WEB_NAMES_CORE, JOIN_CORE, 3, 3))
    if not ctx.quick:
        wl += list(web_targets(WEB_NAMES_FULL, JOIN_CORE, 3, 3))
        wl += list(web_targets(WEB_NAMES_CORE, JOIN_CORE, 4, 4))
    wl += ["", "*", "a/f", "//f", "/?x=/../", "http://h/../" + A.SIBNAME + "/f", "/a/f?../../", "/a;/../f"]
    nwexh = 0
    for ign in ((), ("*",)):
        # ignoredExts only matters for names that do not exist as such
        lst = wl if not ign else [t for t in wl if A.MISSING in t]
        for batch in chunks(lst, B):
            traces.append(run_web_batch(ns, reactor, ign, batch))
            nwexh += len(batch)
    for _ in range(ctx.pick(6, 100)):
        batch = []
        for _ in range(B):
            n = rng.randint(3, 7)
            t = ""
            for i in range(n):
                t += ("/" if i == 0 else rng.choice(JOIN_FULL if rng.random() < 0.4 else JOIN_CORE)) + rng.choice(WEB_NAMES_FULL)
            batch.append(t)
        traces.append(run_web_batch(ns, reactor, rng.choice([(), ("*",), (".ext",)]), batch))
    # histories: the root is rotated away under a long-lived resource
    before = ["/f", "/", "/a/f", "/nx"]
    after = list(web_targets(WEB_NAMES_CORE + ["secret.txt", "root.old"], JOIN_CORE, 1, 2)) + ["/./secret.txt", "/%2e/secret.txt", "/a%2f..%2fsecret.txt", "/a%2f../f"]
    for how in ("rename", "remove"):
        for ign in ((), ("*",), (".old",)):
            traces.append(run_web_history(ns, reactor, ign, before, after, how))
            nwexh += len(after)
    nweb = sum(len(t["ev"]) for t in traces) - nfp
    ctx.log("static.File/Site: %d real requests (%d exhaustive)" % (nweb, nwexh))
    if not ns.pristine():
        raise MachineryError("scratch namespace changed during C26 run")
    ctx.exhaustive = True
    ctx.extra.update(filepath_calls=nfp, filepath_exhaustive_calls=nexh, filepath_exhaustive_len=L, web_requests=nweb,
                     web_exhaustive_requests=nwexh, interpreter_accesses_ignored=A.AUDIT.interp,
                     web_status_codes={str(k): v for k, v in sorted(_codes(traces).items())},
                     outcomes=_outcomes(traces))
    oc = _outcomes(traces)
    for k in ("child/ok", "child/InsecurePath", "preauthChild/ok", "preauthChild/InsecurePath", "descendant/ok",
              "descendant/InsecurePath", "web/acc0-served0", "web/acc1-served1", "web/acc1-served0", "web/acc2-served1"):
        if not oc.get(k):
            raise MachineryError("vacuity: no real execution with outcome %s" % k)
    # bookkeeping: every call / request is one real execution of its own
    import hashlib
    import json
    for t in traces:
        hdr = json.dumps([t["cfg"], t["kind"], t.get("rootkind"), t.get("bmode"), t.get("argb"), t.get("ignored")])
        inputs = t["cases"] if t["kind"] == "fp" else t["targets"]
        for inp, e in zip(inputs, t["ev"]):
            ctx.evaluations += 1
            ctx.distinct.add(hashlib.sha1((hdr + json.dumps([inp, {k: e[k] for k in SPEC_KEYS if k in e}], sort_keys=True)).encode()).hexdigest()[:16])
    pick = {}
    for t in traces:
        inputs = t["cases"] if t["kind"] == "fp" else t["targets"]
        for inp, e in zip(inputs, t["ev"]):
            k = "%s/%s/%d" % (e["e"], e.get("res"), len(e.get("acc", ())))
            if k not in pick and len(pick) < 6:
                pick[k] = dict(cfg=t["cfg"], kind=t["kind"], input=inp, ev=[e])
    ctx.samples = list(pick.values())
    # PathNSTrace records an unexplained event and goes on, so every event of every batch is checked;
    # each call / request is an independent real execution: count the accepted ones.
    rej = ctx.validate("PathNSTrace", [spec_view(t) for t in traces], shard_size=max(20, -(-len(traces) // ctx.pick(4, 16))), count=False)
    ctx.traces_ok += sum(len(t["ev"]) for t in traces) - len(rej)
    report(ctx, traces, rej)
    bad = {x.idx for x in rej}
    ctx.extra["events_rejected"] = len(rej)
    if cex_idx is not None:
        ctx.extra["impl_string_prefix_mode"]["counterexample_rejected_on_real_code"] = cex_idx in bad
    good = [spec_view(t) for i, t in enumerate(traces) if i not in bad]
    pool = [good[i] for i in sorted(rng.sample(range(len(good)), min(40, len(good))))]
    ctx.selftest_rejects("PathNSTrace", pool, mutate, n=24)


def _slim(t):
    return {k: v for k, v in t.items() if k in ("cfg", "kind", "rootkind", "bmode", "argb", "ignored", "ev")} if len(t["ev"]) <= 8 else \
        dict(cfg=t["cfg"], kind=t["kind"], n=len(t["ev"]), ev=t["ev"][:6], digest=_digest(t))


def _digest(t):
    import hashlib
    import json
    return hashlib.sha1(json.dumps(t["ev"], sort_keys=True).encode()).hexdigest()


def _codes(traces):
    c = {}
    for t in traces:
        if t["kind"] in ("web", "webhist"):
            for e in t["ev"]:
                c[e["code"]] = c.get(e["code"], 0) + 1
    return c


def _outcomes(traces):
    c = {}
    for t in traces:
        for e in t["ev"]:
            k = "%s/%s" % (e["e"], e.get("res") or ("acc%d-served%d" % (min(len(e["acc"]), 2), min(len(e["served"]), 1))))
            c[k] = c.get(k, 0) + 1
    return c


def replay(ctx, obj):
    from harness.adapters import c26_c54_pathns as A
    reactor = A.memory_reactor()
    from twisted.logger import globalLogBeginner
    globalLogBeginner.beginLoggingTo([lambda e: None], redirectStandardIO=False, discardBuffer=True)
    ns = A.Namespace(os.path.join(ctx.work, "ns"))
    ns.build()
    if obj["kind"] == "fp":
        t = run_fp_batch(ns, obj["rootkind"], obj["bmode"], obj["argb"], [tuple(c) for c in obj["cases"]])
    elif obj["kind"] == "webhist":
        t = run_web_history(ns, reactor, tuple(obj["ignored"]), obj["before"], obj["after"], obj["how"])
    else:
        t = run_web_batch(ns, reactor, tuple(obj["ignored"]), obj["targets"])
    ctx.note_trace(t, nontrivial=True)
    rej = ctx.validate("PathNSTrace", [spec_view(t)])
    report(ctx, [t], rej)
    for i in range(len(t["ev"])):
        print(describe(t, i))
