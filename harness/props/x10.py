"""X10 (extension, not a listed property) -- twisted.application.service: Service / MultiService hierarchy.
Spec: specs/Services.tla.  Reported under coverage.extra_modules of the nearest property (C58)."""

META = dict(
    id="X10", extension=True, nearest="C58",
    specs=["Services.tla", "ServicesMC.tla", "ServicesTrace.tla"],
    technique="TLA+ spec of the Service/MultiService tree (children list + name index, start/stop propagation, stop-Deferred aggregation) "
              "+ TLC trace validation of real MultiService trees with recording children",
    level_text="extension module: grows the specification beyond the listed properties",
    level_note="not a listed property; alarms are reported as EXTRA-ALARM, never as VIOLATION.  Recording subclasses log on entry and delegate to "
               "twisted's methods; children never call back into the tree from start/stop; stop Deferreds only succeed (no errback); "
               "cycles (a container below itself) are never built.",
    design_ref="4 (extensions)",
    rule="history of setServiceParent/disownServiceParent/privilegedStartService/startService/stopService/setName/getServiceNamed/fire-stop-Deferred "
         "over a pool of <=5 services; distinct by event sequence; exhaustive for all disciplined histories of length 3 on two small pools (quick) / length 4 on one and 3 on two more (thorough)",
)
NAMES = [None, "", "a", "b"]
K = 3


def make_world(cfg):
    """Real twisted services for cfg; returns an object with apply(op) -> event | None and view()."""
    from twisted.application import service
    from twisted.internet import defer

    n = cfg["n"]
    calls = []
    toks = []
    fired = []
    nwatch = [0]

    class Leaf(service.Service):
        def __init__(self, i):
            self.i = i

        def privilegedStartService(self):
            calls.append(["priv", self.i])
            return service.Service.privilegedStartService(self)

        def startService(self):
            calls.append(["start", self.i])
            return service.Service.startService(self)

        def stopService(self):
            calls.append(["stop", self.i])
            service.Service.stopService(self)
            if cfg["dfr"][self.i - 1]:
                d = defer.Deferred()
                toks.append(d)
                return d
            return None

    class Multi(service.MultiService):
        def __init__(self, i):
            service.MultiService.__init__(self)
            self.i = i

        def privilegedStartService(self):
            calls.append(["priv", self.i])
            return service.MultiService.privilegedStartService(self)

        def startService(self):
            calls.append(["start", self.i])
            return service.MultiService.startService(self)

        def stopService(self):
            calls.append(["stop", self.i])
            return service.MultiService.stopService(self)

    svc = [None]
    for i in range(1, n + 1):
        s = Multi(i) if cfg["kind"][i - 1] == "m" else Leaf(i)
        if cfg["name"][i - 1]:
            s.setName(NAMES[cfg["name"][i - 1]])
        svc.append(s)

    def ident(o):
        if o is None:
            return 0
        for i in range(1, n + 1):
            if svc[i] is o:
                return i
        return -1

    def is_multi(i):
        return cfg["kind"][i - 1] == "m"

    def subtree(i):
        out = [i]
        if is_multi(i):
            for k in list(svc[i]):
                out += subtree(ident(k))
        return out

    def watch(r):
        if r is None:
            return "none"
        if not isinstance(r, defer.Deferred):
            return "other"
        nwatch[0] += 1
        w = nwatch[0]

        def cb(res):
            fired.append([w, len(res) if isinstance(res, list) else -1])
            return res
        r.addBoth(cb)
        return "deferred"

    def lookup(i, k):
        try:
            return ident(svc[i].getServiceNamed(NAMES[k]))
        except KeyError:
            return 0

    class World:
        def view(self):
            return dict(
                run=[bool(svc[i].running) for i in range(1, n + 1)],
                par=[ident(svc[i].parent) for i in range(1, n + 1)],
                name=[NAMES.index(svc[i].name) if svc[i].name in NAMES else -1 for i in range(1, n + 1)],
                kids=[[ident(k) for k in svc[i]] if is_multi(i) else [] for i in range(1, n + 1)],
                pending=[t + 1 for t, d in enumerate(toks) if not d.called],
            )

        def apply(self, op):
            del calls[:]
            del fired[:]
            kind = op[0]
            a = op[1]
            b = op[2] if len(op) > 2 else 0
            res, ret, got = "ok", "none", None
            try:
                if kind == "add":
                    if not is_multi(b) or a == b or b in subtree(a):
                        return None
                    svc[a].setServiceParent(svc[b])
                elif kind == "disown":
                    if svc[a].parent is None:
                        return None
                    ret = watch(svc[a].disownServiceParent())
                elif kind == "priv":
                    svc[a].privilegedStartService()
                elif kind == "start":
                    svc[a].startService()
                elif kind == "stop":
                    ret = watch(svc[a].stopService())
                elif kind == "fire":
                    if a < 1 or a > len(toks) or toks[a - 1].called:
                        return None
                    toks[a - 1].callback(None)
                elif kind == "setname":
                    svc[a].setName(NAMES[b])
                elif kind == "get":
                    if not is_multi(a):
                        return None
                    got = ident(svc[a].getServiceNamed(NAMES[b]))
                else:
                    raise ValueError(op)
            except Exception as ex:        # the outcome is data: TLC decides whether the spec allows it
                res = type(ex).__name__
            v = self.view()
            e = dict(e=kind, a=a, b=b, res=res, ret=ret, calls=[list(c) for c in calls], fired=[list(f) for f in fired],
                     run=v["run"], par=v["par"], name=v["name"], kids=v["kids"],
                     nm=[[lookup(i, k) for k in range(1, K + 1)] if is_multi(i) else [] for i in range(1, n + 1)])
            if kind == "get":
                e["got"] = got if got is not None else 0
            return e

    w = World()
    w.is_multi = is_multi
    w.subtree = subtree
    return w


def run_history(cfg, ops):
    w = make_world(cfg)
    ev, done = [], []
    for op in ops:
        e = w.apply(tuple(op))
        if e is not None:
            ev.append(e)
            done.append(list(op))
    return {"cfg": cfg, "ops": done, "ev": ev}


def candidates(cfg, w, v, slim=False):
    """Ops applicable in public state v, as (op, disciplined).  Disciplined environment: start/stop only parentless
    services, start only stopped and stop only running ones, never attach a parentless service that already runs."""
    n = cfg["n"]
    out = []
    for c in range(1, n + 1):
        root, running = v["par"][c - 1] == 0, v["run"][c - 1]
        sub = None
        for p in range(1, n + 1):
            if p != c and w.is_multi(p):
                sub = sub or w.subtree(c)
                if p not in sub:
                    out.append((("add", c, p), not (root and running)))
        if not root:
            out.append((("disown", c), True))
        out.append((("priv", c), root and not running))
        out.append((("start", c), root and not running))
        out.append((("stop", c), root and running))
        for k in ((0, 2) if slim else range(0, K + 1)):
            if not slim or not w.is_multi(c):
                out.append((("setname", c, k), True))
        if w.is_multi(c):
            for k in ((1, 2) if slim else range(1, K + 1)):
                out.append((("get", c, k), True))
    for t in v["pending"]:
        out.append((("fire", t), True))
    return out


WEIGHT = dict(add=6, disown=3, priv=1, start=3, stop=3, fire=3, setname=1, get=1)


def random_history(cfg, rng, length, pwild):
    w = make_world(cfg)
    ev, ops = [], []
    for _ in range(length):
        cand = candidates(cfg, w, w.view())
        if rng.random() >= pwild:
            cand = [c for c in cand if c[1]]
        kinds = sorted({c[0][0] for c in cand})
        kind = rng.choices(kinds, [WEIGHT[k] for k in kinds])[0]
        op = rng.choice([c[0] for c in cand if c[0][0] == kind])
        e = w.apply(op)
        ev.append(e)
        ops.append(list(op))
    return {"cfg": cfg, "ops": ops, "ev": ev}


def exhaustive_histories(cfg, depth):
    """Every disciplined history of exactly `depth` calls (slim alphabet) from the initial pool; prefixes are
    covered as prefixes.  The world cannot be cloned, so each history is re-executed from scratch."""
    out = []

    def rec(prefix):
        w = make_world(cfg)
        ev = [w.apply(op) for op in prefix]
        if len(prefix) == depth:
            out.append({"cfg": cfg, "ops": [list(o) for o in prefix], "ev": ev})
            return
        for op, ok in candidates(cfg, w, w.view(), slim=True):
            if ok:
                rec(prefix + [op])
    rec([])
    return out


def random_cfg(rng):
    n = rng.choice([3, 4, 4, 5])
    nm = rng.randint(1, min(3, n - 1))
    kind = ["m"] * nm + ["l"] * (n - nm)
    # names drawn from few values so that duplicates are common; "" (id 1) is rare
    name = [rng.choice([0, 0, 2, 2, 2, 3, 1]) for _ in range(n)]
    dfr = [k == "l" and rng.random() < 0.5 for k in kind]
    return {"n": n, "kind": kind, "name": name, "dfr": dfr}


SMALL = [
    {"n": 3, "kind": ["m", "l", "l"], "name": [0, 2, 2], "dfr": [False, True, False]},
    {"n": 3, "kind": ["m", "m", "l"], "name": [0, 0, 0], "dfr": [False, False, True]},
    {"n": 4, "kind": ["m", "m", "l", "l"], "name": [0, 2, 2, 1], "dfr": [False, False, True, False]},
]


def fingerprint(t, x):
    e = t["ev"][x.reached] if x.reached < len(t["ev"]) else {}
    return "services/%s/%s" % (e.get("e"), e.get("res"))


def run(ctx):
    ctx.mc("ServicesMC", ctx.pick("ServicesMC.cfg", "ServicesMC.thorough.cfg"))
    ctx.require_actions("ServicesMC", ["DAdd", "DDisown", "DPriv", "DStart", "DStop", "DFire", "MCSetName", "DGet"])
    # reachability witnesses (vacuity of the ODDITY branches and of the guarded invariants): these must be VIOLATED
    for inv in ("NeverCorrupt", "NeverLateFire"):
        r = ctx.mc("ServicesMC", "ServicesMC.reach%s.cfg" % inv, must_pass=False, coverage=False, label="witness: %s must be violated" % inv)
        if r.ok or r.kind != "invariant":
            from harness.core import MachineryError
            raise MachineryError("vacuity: witness %s not reached (%s)" % (inv, r.kind))
    # the undisciplined environment: structural invariants and per-call properties still hold
    ctx.mc("ServicesMC", ctx.pick("ServicesMC.wild.cfg", "ServicesMC.wild.thorough.cfg"), coverage=False, label="NextAll (undisciplined environment)")

    traces = []
    nex = 0
    for i, cfg in enumerate(SMALL[:ctx.pick(2, 3)]):
        hs = exhaustive_histories(cfg, 4 if (i == 0 and not ctx.quick) else 3)
        nex += len(hs)
        traces += hs
    ctx.log("exhaustive-short: %d histories" % nex)
    for i in range(ctx.pick(1500, 20000)):
        cfg = random_cfg(ctx.rng)
        traces.append(random_history(cfg, ctx.rng, ctx.rng.randint(4, 24), 0.15 if i % 5 == 0 else 0.0))
    ctx.note_traces(traces)
    ctx.extra["exhaustive_short_histories"] = nex
    seen = {}
    for t in traces:
        for e in t["ev"]:
            k = "%s/%s/%s" % (e["e"], e["res"], e["ret"])
            seen[k] = seen.get(k, 0) + 1
            if e["fired"]:
                seen["fired@" + e["e"]] = seen.get("fired@" + e["e"], 0) + 1
    ctx.extra["outcomes_seen"] = seen
    rej = ctx.validate("ServicesTrace", traces, shard_size=1500)
    for x in rej[:10]:
        t = traces[x.idx]
        e = t["ev"][x.reached] if x.reached < len(t["ev"]) else None
        ctx.violation(fingerprint(t, x), "Service/MultiService execution not explained by Services.tla at event %d: %s" % (x.reached, e),
                      dict(cfg=t["cfg"], ops=t["ops"][:x.reached + 1]))

    need = ["add/ok/none", "add/RuntimeError/none", "add/ValueError/none", "add/KeyError/none", "disown/ok/none", "disown/ok/deferred",
            "disown/ValueError/none", "stop/ok/deferred", "setname/RuntimeError/none", "get/KeyError/none", "get/ok/none",
            "fired@fire", "fired@stop", "fired@disown"]
    missing = [k for k in need if not seen.get(k)]
    if missing and not rej:     # (a disagreement is reported as such, not as a vacuity failure)
        from harness.core import MachineryError
        raise MachineryError("vacuity: outcomes never produced by the real code in this run: %s" % missing)


    def mutate(t, rng):
        i = rng.randrange(len(t["ev"]))
        e = t["ev"][i]
        how = rng.randrange(5)
        if how == 0 and e["calls"]:
            del e["calls"][rng.randrange(len(e["calls"]))]
        elif how == 1 and len(e["calls"]) >= 2:
            e["calls"].reverse()
        elif how == 2:
            j = rng.randrange(len(e["run"]))
            e["run"][j] = not e["run"][j]
        elif how == 3 and e["fired"]:
            e["fired"] = []
        elif how == 4 and any(k for k in e["kids"]):
            j = rng.choice([j for j, k in enumerate(e["kids"]) if k])
            e["kids"][j] = e["kids"][j][:-1]
        else:
            return None
        return t
    bad = {x.idx for x in rej}
    good = [t for i, t in enumerate(traces) if i not in bad]
    if len(good) >= 100:
        ctx.selftest_rejects("ServicesTrace", good[-300:], mutate, n=12)
    else:
        ctx.log("selftest skipped: only %d accepted traces" % len(good))


def replay(ctx, obj):
    t = run_history(obj["cfg"], obj["ops"])
    for e in t["ev"]:
        print(e)
    for x in ctx.validate("ServicesTrace", [t]):
        ctx.violation("services/replay", "rejected at %d" % x.reached, dict(cfg=t["cfg"], ops=t["ops"]))
