"""C08 -- reactor timed calls run once, on time, in time order.

Spec:     specs/TimersAbs.tla (abstract semantics of timed calls, reactor flavour: iterations),
          specs/TimersProp.tla (the clauses of the property as invariants over the recorded history),
          specs/TimersImpl.tla (ReactorBase's heap + staging list + lazy cancellation/compaction + delayed_time
          as coded; TLC checks it refines TimersAbs), TimersTrace (trace validation), TimersSim (behaviours).
Binding:  a ReactorBase subclass with a controlled seconds() and no I/O, driven through callLater /
          IDelayedCall.cancel/reset/delay / runUntilCurrent / timeout / getDelayedCalls along exhaustive short
          histories, random long ones (<= 200 operations, <= 60 calls, > 50 cancellations to reach the real
          compaction threshold) and TLC-generated behaviours; operations are also issued from inside running
          calls.  Every running call logs the time it sees and getDelayedCalls().  TLC decides.
"""

META = dict(
    id="C08",
    specs=["TimersAbs.tla", "TimersProp.tla", "TimersAbsMC.tla", "TimersImpl.tla", "TimersImplMC.tla", "TimersImplTrace.tla", "TimersTrace.tla", "TimersSim.tla"],
    technique="TLA+ abstract timer semantics + property invariants (TLC exhaustive), TLA+ transcription of ReactorBase's heap/staging/compaction algorithm checked by TLC to refine it (exhaustive + deep simulation), TLC trace validation of real ReactorBase executions (exhaustive short, random long, compaction-sized, TLC-generated)",
    level_text="TLC checks on the specification that the abstract semantics implies every clause (exactly once iff not cancelled, never early, first iteration at or after the scheduled time, not in the iteration of creation, no earlier pending call when a call runs) for all histories within the stated bounds, that the reactor's algorithm as transcribed refines that semantics, and validates every recorded execution of the real ReactorBase timer code as a behaviour of the specification with every logged observable (run order, times, getDelayedCalls, getTime, exception classes, timeout bound) matched.",
    level_note="Trusted: TLC, the adapter's logging, the controlled seconds(). Clock is constant during an iteration (as the property says); timeout()/runUntilCurrent are not called from inside running calls; calls do not raise. Histories beyond the exhaustive depth are sampled. TimersImpl is a hand transcription of base.py, bound to it by replaying recorded executions through it step by step (impl_drift). Negative delay() amounts are included with the order clause read over eligible calls.",
    design_ref="2.4 C08",
    rule="history = top-level operations (callLater with a script of nested operations, cancel, reset, delay, getDelayedCalls, clock advance, runUntilCurrent, timeout) on one reactor; distinct = hash of (cfg, events); non-trivial = at least two different event kinds",
)


def run(ctx):
    from harness.core import MachineryError
    from harness.adapters import c08_c09_timers as A

    r = ctx.mc("TimersAbsMC", ctx.pick("TimersAbsMC.reactor.cfg", "TimersAbsMC.reactor.thorough.cfg"))
    if not r.ok:
        raise MachineryError("TimersAbs violates the property clauses of TimersProp: " + r.error)
    A.pick_actions(ctx, "TimersAbsMC", [("NCallLater", "PCallLater"), ("NCancelOk", "PCancelOk"), ("NCancelRefused", "PCancelRefused"),
                                        ("NResetOk", "PResetOk"), ("NResetRefused", "PResetRefused"), ("NDelayOk", "PDelayOk"),
                                        ("NDelayRefused", "PDelayRefused"), ("NGdc", "PGdc"), ("NTimeout", "PTimeout"),
                                        ("NAdvanceReactor", "PAdvanceReactor"), ("NIterBegin", "PIterBegin"),
                                        ("NRunBegin", "PRunBegin"), ("NRunEnd", "PRunEnd"), ("NIterEnd", "PIterEnd")])
    r = ctx.mc("TimersImplMC", ctx.pick("TimersImplMC.cfg", "TimersImplMC.thorough.cfg"))
    if not r.ok:
        raise MachineryError("TimersImpl (the reactor algorithm as transcribed) does not refine TimersAbs: %s\n%s" % (r.error, "".join(r.cex[-3:])[:3000]))
    A.pick_actions(ctx, "TimersImplMC", [("NCallLater", "ICallLater"), ("NCancelOk", "ICancelOk"), ("NResetOk", "IResetOk"), ("NDelayOk", "IDelayOk"),
                                         ("NGdc", "IGdc"), ("NTimeout", "ITimeout"), ("NAdvance", "IAdvance"), ("NIterBegin", "IIterBegin"),
                                         ("NLoopSkipCancelled", "ILoopSkipCancelled"), ("NLoopReactivate", "ILoopReactivate"),
                                         ("NLoopRun", "ILoopRun"), ("NRunEnd", "IRunEnd"), ("NIterEndCompact", "IIterEndCompact"),
                                         ("NIterEndPlain", "IIterEndPlain")])
    # deep random walks of the algorithm (refinement + structural invariants checked on every step)
    r = ctx.mc("TimersImplMC", "TimersImplMC.sim.cfg", workers=2, coverage=False, label="simulate",
               args=["-simulate", "num=%d" % ctx.pick(250, 60000), "-depth", "70", "-seed", str(ctx.seed)])
    if not r.ok:
        raise MachineryError("TimersImpl deep simulation: refinement of TimersAbs fails: %s\n%s" % (r.error, "".join(r.cex[-3:])[:3000]))
    A.run_flavour(ctx, "reactor", "ReactorBase timed calls")


def replay(ctx, obj):
    from harness.adapters import c08_c09_timers as A
    A.replay_history(ctx, obj, "ReactorBase timed calls")
