"""C51 -- DirDBM survives a crash at any point.

Spec:     specs/DirDbm.tla (Abs = the property), specs/DirDbmImpl.tla (the algorithm of dirdbm.py over
          specs/lib/FsModel.tla; DirDbmMC = exhaustive TLC run with a crash between any two file-system
          calls, inside writes and inside recovery), DirDbmTrace (verdict), DirDbmImplTrace (drift).
Binding:  the real twisted.persisted.dirdbm.DirDBM on a scratch directory; its mutating file-system
          calls are intercepted (harness/adapters/c51_fs.py), a crash (BaseException, after which every
          further file-system call of the "dead process" fails) is injected at every call index and at
          every partial-write length, the database is reopened with the real code (again with a crash at
          every index of the recovery, nested), and what keys()/d[k] show is logged.  TLC decides.
"""
import itertools
import os
import shutil

META = dict(
    id="C51",
    specs=["DirDbm.tla", "DirDbmImpl.tla", "DirDbmMC.tla", "DirDbmTrace.tla", "DirDbmImplTrace.tla", "DirDbmSim.tla", "lib/FsModel.tla"],
    technique="TLA+ spec of the DirDBM write/replace/delete/recovery algorithm over a file-system model, TLC exhaustive over all histories with a crash at every step (nested in recovery) + TLC trace validation of real DirDBM executions with injected crashes at every intercepted file-system call and every partial-write length",
    level_text="TLC proves on the design (DirDbmImpl over FsModel) that for every history of up to the stated number of set/replace/delete operations with a crash between any two file-system steps, inside the write and inside recovery, the reopened database shows exactly the committed values with the interrupted key old or new and no stray or partial entry; every recorded execution of the real DirDBM (real files, crash injected at every file-system call index and partial-write length, real recovery, nested crashes) is validated by TLC against the property specification DirDbm, and its file-system call sequence against the design.",
    level_note="Trusted: TLC; the interception layer (a crash = BaseException at a mutating call, all later mutating calls of the dead process fail, user-space buffers are lost); process-crash model only (the file system applies calls atomically and in order: no power-loss reordering, no fsync reasoning). Keys/values are abstracted to identities. Histories longer than the enumerated depth are sampled. The database directory name is fixed (names containing glob metacharacters are outside the property's quantifier, see notes).",
    design_ref="2.9 C51",
    rule="case = (history of set/del/reopen on <=3 keys, crash point = (operation, file-system call index, bytes of a torn write), nested recovery crash points); distinct = hash of (cfg, events); non-trivial = at least two different event kinds",
)

DB = "db"


# --------------------------------------------------------------------------- learning file names by observation
_name_cache = {}


def learn_name(work, key):
    """File name the real DirDBM uses for `key` (observed in a throw-away database), or None."""
    if key in _name_cache:
        return _name_cache[key]
    from twisted.persisted.dirdbm import DirDBM
    root = os.path.join(work, "learn")
    shutil.rmtree(root, ignore_errors=True)
    os.makedirs(root)
    name = None
    try:
        d = DirDBM(os.path.join(root, DB))
        d[key] = b"x"
        ls = os.listdir(os.path.join(root, DB))
        if len(ls) == 1:
            name = ls[0]
    except Exception:
        name = None
    shutil.rmtree(root, ignore_errors=True)
    _name_cache[key] = name
    return name


class Hist:
    """keys: list of bytes (index 1..), vals: list of bytes (id 1..), ops: [["set",k,v]|["del",k]|["reopen"]]."""

    def __init__(self, keys, vals, ops):
        self.keys, self.vals, self.ops = keys, vals, ops

    def to_json(self):
        return dict(keys=[k.hex() for k in self.keys], vals=[v.hex() for v in self.vals], ops=self.ops)

    @staticmethod
    def from_json(o):
        return Hist([bytes.fromhex(k) for k in o["keys"]], [bytes.fromhex(v) for v in o["vals"]], [list(x) for x in o["ops"]])


def run_trace(work, hist, plans, seq=[0]):
    """Execute `hist` on a real DirDBM in a fresh scratch directory.

    plans: {op index: {"at": i, "bytes": b, "after": bool, "rec": [[i2, after2], ...]}} -- the process dies
    in that operation at mutating call i (a write call still transfers b bytes; after=True: dies after the
    last call, before returning); each entry of rec makes one more recovery attempt die the same way.
    """
    from twisted.persisted.dirdbm import DirDBM
    from harness.adapters.c51_fs import FsTap, run_tapped

    seq[0] += 1
    root = os.path.join(work, "r%d" % seq[0])
    shutil.rmtree(root, ignore_errors=True)
    os.makedirs(root)
    dbpath = os.path.join(root, DB)
    names = {}
    for i, k in enumerate(hist.keys):
        n = learn_name(work, k)
        if n is not None:
            names[n] = i + 1
    kidx = {k: i + 1 for i, k in enumerate(hist.keys)}
    vidx = {v: i + 1 for i, v in enumerate(hist.vals)}
    ve = vidx.get(b"", 0)

    def namer(path):
        rel = os.path.relpath(path, root)
        if rel == DB:
            return [0, "<db>"]
        head, tail = os.path.split(rel)
        if head != DB:
            return [0, "<outside>" + rel]
        base, dot, ext = tail.rpartition(".")
        if dot and base in names:
            return [names[base], ext]
        if tail in names:
            return [names[tail], ""]
        return [0, tail]

    def ident(data):
        return vidx.get(bytes(data), 0)

    def classify(content):
        v = vidx.get(content, 0)
        return v, ("all" if v else "part")

    def view(d):
        try:
            items = [(k, d[k]) for k in d.keys()]
        except Exception as e:
            return {"e": "view", "res": "EXC:" + type(e).__name__, "kv": []}
        kv = []
        for k, v in items:
            ki = kidx.get(k, 0)
            vi, cls = classify(v)
            kv.append([ki, "" if ki else "?" + k.hex()[:16], vi, cls])
        kv.sort()
        return {"e": "view", "res": "ok", "kv": kv}

    def ls():
        try:
            files = []
            for n in os.listdir(dbpath):
                with open(os.path.join(dbpath, n), "rb") as f:
                    c = f.read()
                vi, cls = classify(c)
                files.append(namer(os.path.join(dbpath, n)) + [vi, cls])
            files.sort()
            return {"e": "ls", "res": "ok", "files": files}
        except OSError as e:
            return {"e": "ls", "res": "EXC:" + type(e).__name__, "files": []}

    ev = []
    calls = {}
    rec_calls = {}
    d = DirDBM(dbpath)
    aborted = False
    for j, op in enumerate(hist.ops):
        plan = plans.get(j) or plans.get(str(j))
        tap = FsTap(root, namer, crash_at=plan["at"] if plan else None, crash_bytes=plan.get("bytes", 0) if plan else 0, ident=ident)
        if op[0] == "set":
            key, val = hist.keys[op[1] - 1], hist.vals[op[2] - 1]
            ev.append({"e": "set", "k": op[1], "v": op[2]})
            st, x = run_tapped(tap, lambda: d.__setitem__(key, val))
        elif op[0] == "del":
            key = hist.keys[op[1] - 1]
            ev.append({"e": "del", "k": op[1]})
            st, x = run_tapped(tap, lambda: d.__delitem__(key))
        else:
            ev.append({"e": "reopen"})
            st, x = run_tapped(tap, lambda: DirDBM(dbpath))
            if st == "ok":
                d = x
        ev.extend(tap.events)
        calls[j] = list(tap.calls)
        if st in ("ok", "exc") and plan and plan.get("after") and plan["at"] >= len(tap.calls):
            st = "crash"        # died after its last file-system call, before returning / raising
        if st == "ok":
            ev.append({"e": "ret", "res": "ok"})
        elif st == "exc":
            if op[0] == "del" and isinstance(x, KeyError):
                ev.append({"e": "ret", "res": "keyerror"})
            else:
                ev.append({"e": "ret", "res": "EXC:" + type(x).__name__})
                aborted = True
        else:
            ev.append({"e": "crash"})
            ev.append(ls())
            rec_calls[j] = []
            attempts = [list(a) for a in (plan.get("rec") or [])] + [None]
            for a in attempts:
                tap2 = FsTap(root, namer, crash_at=a[0] if a else None, ident=ident)
                ev.append({"e": "reopen"})
                st2, x2 = run_tapped(tap2, lambda: DirDBM(dbpath))
                ev.extend(tap2.events)
                rec_calls[j].append(list(tap2.calls))
                if st2 in ("ok", "exc") and a and a[1] and a[0] >= len(tap2.calls):
                    st2 = "crash"
                if st2 == "ok":
                    d = x2
                    ev.append({"e": "ret", "res": "ok"})
                    break
                if st2 == "exc":
                    ev.append({"e": "ret", "res": "EXC:" + type(x2).__name__})
                    aborted = True
                    break
                ev.append({"e": "crash"})
                ev.append(ls())
            ev.append(ls())
        if aborted:
            break
        ev.append(view(d))
    ev.append(ls())
    shutil.rmtree(root, ignore_errors=True)
    return {"cfg": {"ve": ve}, "ev": ev, "hist": hist.to_json(), "plans": {str(k): v for k, v in plans.items()},
            "_calls": calls, "_rec_calls": rec_calls}


# --------------------------------------------------------------------------- crash-point enumeration
def crash_points(calls, rng=None, all_lengths_upto=8):
    """(at, bytes, after) for every mutating call, every torn-write length, and 'after the last call'."""
    pts = []
    for i, (op, _p, n) in enumerate(calls):
        pts.append((i, 0, False))
        if op == "write" and n > 1:
            if n <= all_lengths_upto:
                lens = range(1, n)
            else:
                lens = {1, n - 1, n // 2}
                if rng is not None:
                    lens |= {rng.randrange(1, n) for _ in range(2)}
                lens = sorted(lens)
            pts.extend((i, b, False) for b in lens)
    pts.append((len(calls), 0, True))
    return pts


def enumerate_crashes(work, hist, which_ops, nested, rng=None):
    """The crash-free run, then one run per crash point of the chosen operations, then (nested >= 1) one run
    per crash point of the recovery that follows, then (nested >= 2) of the recovery after that."""
    base = run_trace(work, hist, {})
    yield base
    for j in which_ops:
        if j not in base["_calls"]:
            continue
        for at, b, after in crash_points(base["_calls"][j], rng):
            p1 = {"at": at, "bytes": b, "after": after, "rec": []}
            t1 = run_trace(work, hist, {j: p1})
            yield t1
            if nested < 1 or j not in t1["_rec_calls"]:
                continue
            for at2, _b2, after2 in crash_points(t1["_rec_calls"][j][0]):
                p2 = dict(p1, rec=[[at2, after2]])
                t2 = run_trace(work, hist, {j: p2})
                yield t2
                if nested < 2 or len(t2["_rec_calls"].get(j, [])) < 2:
                    continue
                for at3, _b3, after3 in crash_points(t2["_rec_calls"][j][1]):
                    yield run_trace(work, hist, {j: dict(p1, rec=[[at2, after2], [at3, after3]])})


def small_histories(depth, nkeys=2):
    """All histories of exactly `depth` operations over set/del on nkeys keys (a fresh value id per set)."""
    alpha = [("set", k) for k in range(1, nkeys + 1)] + [("del", k) for k in range(1, nkeys + 1)]
    for combo in itertools.product(alpha, repeat=depth):
        ops, nv = [], 0
        for kind, k in combo:
            if kind == "set":
                nv += 1
                ops.append(["set", k, nv])
            else:
                ops.append(["del", k])
        yield ops


def make_vals(rng, n, with_empty):
    """n distinct values, no one a prefix of another (first byte unique); optionally one is b''."""
    firsts = rng.sample(range(256), n)
    vals = []
    for i, f in enumerate(firsts):
        ln = rng.choice([1, 2, 3, 5, 8])
        vals.append(bytes([f]) + bytes(rng.randrange(256) for _ in range(ln - 1)))
    if with_empty and n:
        vals[rng.randrange(n)] = b""
    return vals


KEY_POOL = [b"a", b"b", b"key", b"\x00", b"\xff\xfe", b"/", b"..", b"a/b", b"\n", b"x" * 40, b"k.new", b"k.rpl", b"*", b"?a", b"A" * 57, b"-_"]


def make_keys(rng, n, with_empty):
    while True:
        keys = rng.sample(KEY_POOL, n)
        for i in range(n):
            if rng.random() < 0.3:
                keys[i] = bytes(rng.randrange(256) for _ in range(rng.randint(1, 30)))
        if with_empty:
            keys[rng.randrange(n)] = b""
        if len(set(keys)) == n:
            return keys


def random_history(rng, nops, nkeys, with_empty_key=False, with_empty_val=False):
    ops, nv = [], 0
    for _ in range(nops):
        r = rng.random()
        k = rng.randint(1, nkeys)
        if r < 0.6:
            nv += 1
            ops.append(["set", k, nv])
        elif r < 0.9:
            ops.append(["del", k])
        else:
            ops.append(["reopen"])
    return Hist(make_keys(rng, nkeys, with_empty_key), make_vals(rng, max(nv, 1), with_empty_val), ops)


# --------------------------------------------------------------------------- spec -> code (behaviours generated by TLC)
def beh_to_case(b):
    """A behaviour of DirDbmImpl (list of predicted observables) -> (Hist, plans) that drives the real DirDBM
    along it: the same operations, the process killed at the same file-system call (after the same number
    of calls; inside the write when the behaviour has a torn write)."""
    ops, plans = [], {}
    state, j, nfs, torn, maxv = "idle", -1, 0, False, 1
    for e in b["hist"]:
        t = e["e"]
        if t in ("set", "del"):
            ops.append(["set", e["k"], e["v"]] if t == "set" else ["del", e["k"]])
            maxv = max(maxv, e.get("v", 0))
            j, nfs, torn, state = len(ops) - 1, 0, False, "op"
        elif t == "reopen":
            if state == "idle":
                ops.append(["reopen"])
                j, nfs, torn, state = len(ops) - 1, 0, False, "op"
            else:
                nfs, state = 0, "rec"
        elif t == "fs":
            torn = torn or e["cls"] == "part"
            nfs += 1
        elif t == "crash":
            if state == "op":
                plans[j] = {"at": nfs - 1 if torn else nfs, "bytes": 1 if torn else 0, "after": True, "rec": []}
            elif state == "rec":
                plans[j]["rec"].append([nfs, True])
            state = "down"
        elif t == "ret":
            state = "idle"
    if state == "op" and torn:
        # the behaviour was cut right after a torn write: the only continuation is the crash
        plans[j] = {"at": nfs - 1, "bytes": 1, "after": True, "rec": []}
    vals = [bytes([65 + i]) * 3 for i in range(maxv)]
    return Hist([b"a", b"bb"], vals, ops), plans


def observable(ev):
    """The events a DirDbmImpl behaviour predicts (no listings, no views)."""
    return [e for e in ev if e["e"] in ("set", "del", "reopen", "fs", "ret", "crash")]


# --------------------------------------------------------------------------- diagnosis (labels only; TLC decided)
def fingerprint(t, reached):
    ev = t["ev"]
    e = ev[reached] if reached < len(ev) else {"e": "end"}
    hist = t["hist"]
    opi = -1
    opdesc, keyclass, crashed, lastfs = "start", "key", False, "begin"
    present = set()
    for x in ev[:reached + 1]:
        if x["e"] in ("set", "del"):
            opi += 1
            kb = bytes.fromhex(hist["keys"][x["k"] - 1])
            keyclass = "emptykey" if kb == b"" else "key"
            opdesc = ("set-replace" if x["k"] in present else "set-new") if x["e"] == "set" else "del"
            cur = x
            crashed, lastfs = False, "begin"
        elif x["e"] == "reopen":
            if not crashed:
                opdesc = "reopen"
            lastfs = "begin" if not crashed else lastfs
        elif x["e"] == "fs" and not crashed:
            lastfs = x["op"] + ("-part" if x["cls"] == "part" else "")
        elif x["e"] == "crash":
            crashed = True
        elif x["e"] == "view" and x["res"] == "ok":
            present = {r[0] for r in x["kv"] if r[1] == ""}
    if e["e"] == "view":
        if e["res"] != "ok":
            sym = "view-" + e["res"]
        elif any(r[1] != "" for r in e["kv"]):
            sym = "view-stray-entry"
        elif any(r[3] != "all" for r in e["kv"]):
            sym = "view-partial-value"
        else:
            sym = "view-wrong-values"
    elif e["e"] == "ret":
        sym = "ret-" + e["res"]
    else:
        sym = e["e"]
    if keyclass == "emptykey" and opdesc != "reopen":
        # the empty key is mapped to the database directory itself: every symptom (directory removed or
        # replaced by a file, later calls failing) is the same defect of this call site
        return "%s:emptykey:database-directory-clobbered" % opdesc.split("-")[0]
    return "%s:%s:%s:%s" % (opdesc, keyclass, ("crash-after-" + lastfs) if crashed else "nocrash", sym)


def mutate(t, rng):
    """Corrupt one logged observable (binding self-test)."""
    views = [i for i, e in enumerate(t["ev"]) if e["e"] == "view" and e["res"] == "ok"]
    if not views:
        return None
    i = rng.choice(views)
    e = t["ev"][i]
    r = rng.random()
    if e["kv"] and r < 0.3:
        e["kv"][0][2] += 7                     # a value nobody wrote to that key
    elif e["kv"] and r < 0.6:
        e["kv"][0][3] = "part"                 # a partial value visible as data
    else:
        e["kv"].append([0, "?stray", 0, "part"])   # a stray entry visible as data
        e["kv"].sort()
    return t


def mutate_impl(t, rng):
    """Corrupt one file-system event / listing (Impl binding self-test)."""
    fs = [i for i, e in enumerate(t["ev"]) if e["e"] == "fs"]
    if not fs:
        return None
    i = rng.choice(fs)
    # (dropping a torn write is not a corruption: an empty and a torn temporary look the same in the listing)
    # (nor is dropping a call that failed and changed nothing, when the crash follows it)
    if rng.random() < 0.5 and t["ev"][i]["op"] != "write" and t["ev"][i]["ok"]:
        del t["ev"][i]
    else:
        e = t["ev"][i]
        e["op"] = {"rename": "remove", "remove": "rename", "open": "remove", "write": "open"}.get(e["op"], "open")
    return t


def strip(t):
    return {k: v for k, v in t.items() if not k.startswith("_")}


def check(ctx, traces, label):
    """TLC validation of a batch: verdict from DirDbmTrace, drift from DirDbmImplTrace."""
    from harness.adapters.c51_fs import validate_layers
    traces = [strip(t) for t in traces]
    ctx.note_traces(traces)
    rej, drift, slim = validate_layers(ctx, "DirDbmTrace", "DirDbmImplTrace", traces)
    for idx, reached in rej[:50]:
        t = traces[idx]
        e = t["ev"][reached] if reached < len(t["ev"]) else None
        ctx.violation(fingerprint(t, reached),
                      "real DirDBM execution not allowed by DirDbm.tla at event %d (%s): %s" % (reached, label, e),
                      dict(hist=t["hist"], plans=t["plans"], rejected_at=reached))
    ctx.impl_drift += len(drift)
    for idx, reached in drift[:5]:
        t = traces[idx]
        ctx.log("impl drift (not a violation): event %d %s of hist=%s plans=%s" % (
            reached, t["ev"][reached] if reached < len(t["ev"]) else None, t["hist"], t["plans"]))
    bad = {i for i, _ in rej}
    drifted = {i for i, _ in drift}
    good_slim = [slim[i] for i in range(len(traces)) if i not in bad]
    nodrift = [{"cfg": t["cfg"], "ev": t["ev"]} for i, t in enumerate(traces) if i not in bad and i not in drifted]
    return good_slim, nodrift


def run(ctx):
    from harness.core import MachineryError
    r = ctx.mc("DirDbmMC", ctx.pick("DirDbmMC.cfg", "DirDbmMC.thorough.cfg"))
    if not r.ok:
        raise MachineryError("DirDbmImpl violates the property on the design: %s\n%s" % (r.error, "".join(r.cex[-6:])))
    ctx.require_actions("DirDbmMC", ["ISet", "IDel", "SOpen", "SWrite", "SRemove", "SRename", "SRet", "DRemove", "DRemoveFail",
                                     "DRet", "DRetErr", "ICrash", "IReopen", "MRNew", "MRRpl", "RRet", "IView"])

    rng = ctx.rng
    traces = []
    # (1) exhaustive: every history of `depth` operations on two keys, a crash at every point of every
    #     operation (every call index, every torn-write length), a nested crash at every point of the recovery
    depth = ctx.pick(2, 3)
    vals = [b"v1", b"w22", b"x333", b"y4"]
    for ops in small_histories(depth):
        h = Hist([b"a", b"bb"], vals, ops)
        traces.extend(enumerate_crashes(ctx.work, h, range(len(ops)), nested=ctx.pick(1, 2)))
    n_exh = len(traces)
    ctx.exhaustive = True
    ctx.extra["exhaustive_depth"] = depth
    ctx.extra["exhaustive_traces"] = n_exh
    # (2) one level deeper, crash in the last operation only
    for ops in small_histories(depth + 1):
        h = Hist([b"a", b"bb"], vals + [b"z55555"], ops)
        traces.extend(enumerate_crashes(ctx.work, h, [len(ops) - 1], nested=ctx.pick(0, 1)))
    # (3) random longer histories over boundary keys/values (empty value, empty key, separators, long names),
    #     every crash point of some operations with nested recovery crashes; several crashes in one history
    nrand = ctx.pick(30, 300)
    for i in range(nrand):
        h = random_history(rng, rng.randint(3, 8), rng.randint(1, 3), with_empty_key=(i % 10 == 3), with_empty_val=(i % 3 == 0))
        which = rng.sample(range(len(h.ops)), min(len(h.ops), ctx.pick(1, 2)))
        traces.extend(enumerate_crashes(ctx.work, h, which, nested=1, rng=rng))
        # several crashes in one history, at random indices
        plans = {}
        for j in range(len(h.ops)):
            if rng.random() < 0.5:
                plans[j] = {"at": rng.randint(0, 4), "bytes": rng.choice([0, 0, 1, 2]), "after": True,
                            "rec": [[rng.randint(0, 2), True] for _ in range(rng.choice([0, 0, 1, 2]))]}
        traces.append(run_trace(ctx.work, h, plans))
    # (4) spec -> code: behaviours generated by TLC from the Impl specification are replayed on the real DirDBM
    behs = ctx.simulate("DirDbmSim", "DirDbmSim.cfg", num=ctx.pick(20, 300), depth=36)
    notrepro = 0
    for b in behs:
        h, plans = beh_to_case(b)
        t = run_trace(ctx.work, h, plans)
        pred = observable(b["hist"])
        if observable(t["ev"])[:len(pred)] != pred:
            notrepro += 1
            if notrepro <= 3:
                ctx.log("spec behaviour not reproduced by the real code (drift, not a violation): %s" % (t["plans"],))
        traces.append(t)
    ctx.extra["spec_behaviours_replayed"] = len(behs)
    ctx.extra["spec_behaviours_not_reproduced"] = notrepro
    ctx.impl_drift += notrepro
    ctx.log("recorded %d real executions (%d in the exhaustive part)" % (len(traces), n_exh))
    ctx.extra["crash_runs"] = sum(1 for t in traces if t["plans"])
    good_slim, nodrift = check(ctx, traces, "crash enumeration")
    ctx.selftest_rejects("DirDbmTrace", good_slim[-300:], mutate, n=20)
    if nodrift:
        ctx.selftest_rejects("DirDbmImplTrace", nodrift[-300:], mutate_impl, n=12)


def replay(ctx, obj):
    h = Hist.from_json(obj["hist"])
    t = strip(run_trace(ctx.work, h, {int(k): v for k, v in obj["plans"].items()}))
    ctx.note_trace(t)
    for e in t["ev"]:
        print(e)
    rej = ctx.validate("DirDbmTrace", [t])
    for x in rej:
        ctx.violation(fingerprint(t, x.reached), "replayed execution rejected at event %d: %s" % (
            x.reached, t["ev"][x.reached] if x.reached < len(t["ev"]) else None),
            dict(hist=t["hist"], plans=t["plans"], rejected_at=x.reached))
