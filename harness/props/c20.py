"""C20 -- HTTP server responses are framed exactly and headers cannot be injected.

Spec:     specs/HttpRespWire.tla over specs/HttpMsgSyntax.tla (reference HTTP/1.1 parser written in
          TLA+: the independent parser; h11 is not used), HttpRespWireMC (oracle consistency,
          exhaustive), HttpRespWireTrace (trace validation).
Binding:  real twisted.web.http.Request.setResponseCode / setHeader / addCookie / write / finish
          through a real HTTPChannel on a StringTransport.  One event per public call (arguments
          as octets or code points, outcome class); the finish event carries every octet the
          transport received and whether the server then closed.  TLC parses those octets with
          the spec's parser and compares with what was set.  Python only records.
"""
import copy

META = dict(
    id="C20",
    specs=["HttpMsgSyntax.tla", "HttpRespWire.tla", "HttpRespWireMC.tla", "HttpRespWireTrace.tla"],
    technique="TLA+ reference HTTP/1.1 response parser and judge (RFC 9110/9112 over octet classes); TLC exhaustive check that the judge accepts every reference serialisation and rejects a list of wrong ones; TLC trace validation of real Request/HTTPChannel executions (per-field exhaustive short inputs over all octet classes + seeded random combinations), emitted octets parsed by the spec",
    level_text="TLC checks on the specification that every response a reference server may emit for any call sequence within the budget is accepted by the judge and that each listed wrong serialisation is rejected; every recorded execution of the real twisted.web.http.Request through HTTPChannel is validated by TLC as a behaviour of that specification: the emitted octets, parsed by the TLA+ reference parser, must be exactly one response with the status, headers, cookies and body that were set.",
    level_note="Trusted: TLC, the adapter's recording of call arguments/outcomes and transport octets. The reference parser is strict where RFC 9110/9112 leave a recipient free (bare CR/LF in the head, NUL/CR/LF in values invalid; other CTLs tolerated). Not generated: 1xx final status codes, application-set Content-Length that contradicts the writes, header changes after the first write, lone surrogates in text values. Field lengths beyond the enumerated ones are sampled.",
    design_ref="2.7 C20",
    rule="scenario = request version/method + sequence of setResponseCode/setHeader/addCookie calls, writes, finish; distinct = hash of (cfg, events); non-trivial = at least two different call kinds",
)

FRAMING = {b"content-length", b"transfer-encoding", b"connection", b"set-cookie"}
HAZ = ["LB", "NUL", "CTL", "WS", "OBS", "SEMI", "EQ", "COLON", "COMMA", "DQ", "PUNCT", "TPUNCT"]
ATTRS = ["expires", "domain", "path", "max_age", "comment"]
ATTR_WIRE = {"expires": b"expires", "domain": b"domain", "path": b"path", "max_age": b"max-age", "comment": b"comment"}


def _arg(seq, txt):
    return "".join(chr(c) for c in seq) if txt else bytes(seq)


def run_scn(scn):
    """Drive the real server objects through the scenario; return the trace."""
    from twisted.web import http
    from twisted.internet.testing import StringTransport

    cfg = scn["cfg"]
    got = []

    class Rec(http.Request):
        def process(self):
            got.append(self)

    ch = http.HTTPChannel()
    ch.requestFactory = Rec
    tr = StringTransport()
    ch.makeConnection(tr)
    req = (b"HEAD" if cfg["head"] else b"GET") + b" /x HTTP/1." + (b"1" if cfg["minor"] else b"0") + b"\r\nHost: h\r\n"
    if cfg.get("cc"):
        req += b"Connection: " + (b"keep-alive" if cfg["cc"] == "keep-alive" else b"close") + b"\r\n"
    ch.dataReceived(req + b"\r\n")
    r = got[0]
    tr.clear()
    ev = []

    def outcome(fn):
        try:
            fn()
            return "ok"
        except ValueError:
            return "refused"
        except BaseException as e:  # not an action of the spec
            return "EXC:" + type(e).__name__

    for op in scn["ops"]:
        k = op["op"]
        if k == "code":
            if op["rs"]:
                res = outcome(lambda: r.setResponseCode(op["code"], bytes(op["reason"])))
            else:
                res = outcome(lambda: r.setResponseCode(op["code"]))
            ev.append({"e": "code", "code": op["code"], "rs": op["rs"], "reason": list(op["reason"]), "res": res})
        elif k == "hdr":
            res = outcome(lambda: r.setHeader(_arg(op["name"], op["txt"]), _arg(op["val"], op["txt"])))
            ev.append({"e": "hdr", "name": list(op["name"]), "val": list(op["val"]), "txt": op["txt"], "res": res})
        elif k == "cookie":
            kw = {a: _arg(v, op["txt"]) for a, v in op["attrs"]}
            if op["secure"]:
                kw["secure"] = True
            if op["httpOnly"]:
                kw["httpOnly"] = True
            if op["sameSite"]:
                kw["sameSite"] = _arg([ord(c) for c in op["sameSite"]], op["txt"])
            res = outcome(lambda: r.addCookie(_arg(op["k"], op["txt"]), _arg(op["v"], op["txt"]), **kw))
            attrs = [[list(ATTR_WIRE[a]), list(v)] for a, v in op["attrs"]]
            if op["sameSite"]:
                attrs.append([list(b"samesite"), [ord(c) for c in op["sameSite"]]])
            flags = ([list(b"secure")] if op["secure"] else []) + ([list(b"httponly")] if op["httpOnly"] else [])
            ev.append({"e": "cookie", "k": list(op["k"]), "v": list(op["v"]), "attrs": attrs, "flags": flags, "txt": op["txt"], "res": res})
        elif k == "write":
            res = outcome(lambda: r.write(bytes(op["data"])))
            ev.append({"e": "write", "data": list(op["data"]), "res": res})
        elif k == "finish":
            res = outcome(r.finish)
            ev.append({"e": "finish", "res": res, "wire": list(tr.value()), "closed": bool(tr.disconnecting)})
    return {"cfg": {"minor": cfg["minor"], "head": bool(cfg["head"])}, "ev": ev}


# --------------------------------------------------------------------------- generators

def gen_name(rng, spicy):
    from harness.adapters import c20_http as H
    txt = rng.random() < 0.4
    while True:
        if spicy:
            name = H.spicy_seq(rng, ["WS", "COLON", "LB", "NUL", "CTL", "OBS", "PUNCT", "SEMI", "EQ", "COMMA", "DQ"] + (["UNI"] if txt else []), 0, 5, txt, 0.35)
        else:
            name = H.token_seq(rng, 1, 8)
        if all(c < 256 for c in name) and bytes(name).lower() in FRAMING:
            continue
        return name, txt


def gen_value(rng, spicy, txt, lo=0, hi=7):
    from harness.adapters import c20_http as H
    if not spicy:
        return H.plain_seq(rng, lo, hi)
    return H.spicy_seq(rng, HAZ + (["UNI"] if txt else []), lo, hi, txt)


def random_scn(rng):
    from harness.adapters import c20_http as H
    cfg = {"minor": rng.choice([1, 1, 0]), "head": rng.random() < 0.2, "cc": rng.choice([False, False, False, "close", "keep-alive"])}
    sp = lambda: rng.random() < 0.12
    pre = []
    if rng.random() < 0.6:
        code = rng.choice([200, 200, 201, 204, 304, 404, 500, 599, 299, 600, 999])
        rs = rng.random() < 0.5
        reason = gen_value(rng, sp(), False, 0, 6) if rs else []
        pre.append({"op": "code", "code": code, "rs": rs, "reason": reason})
    names = []
    for _ in range(rng.choice([0, 1, 1, 2, 3])):
        spn = rng.random() < 0.08
        if names and rng.random() < 0.25:      # override of an earlier header, other capitalisation
            name, txt = rng.choice(names)
            if rng.random() < 0.5:             # the very same spelling again, or another capitalisation
                name = [c ^ 32 if (65 <= c <= 90 or 97 <= c <= 122) and rng.random() < 0.5 else c for c in name]
            else:
                name = list(name)
        else:
            name, txt = gen_name(rng, spn)
            names.append((name, txt))        # any earlier name, valid or not, may be set again
        pre.append({"op": "hdr", "name": name, "txt": txt, "val": gen_value(rng, sp(), txt)})
    for _ in range(rng.choice([0, 0, 1, 1, 2])):
        txt = rng.random() < 0.4
        attrs = [[a, gen_value(rng, sp(), txt, 1, 5)] for a in rng.sample(ATTRS, rng.choice([0, 0, 1, 2]))]
        pre.append({"op": "cookie", "k": gen_value(rng, sp(), txt, 1, 5), "v": gen_value(rng, sp(), txt, 0, 6), "attrs": attrs,
                    "secure": rng.random() < 0.3, "httpOnly": rng.random() < 0.3, "sameSite": rng.choice(["", "", "lax", "strict"]), "txt": txt})
    writes = []
    for _ in range(rng.choice([0, 1, 1, 2, 3])):
        n = rng.choice([0, 1, 2, 3, 5, 8, 15, 16, 17, 40]) if rng.random() < 0.97 else rng.choice([255, 256, 300])
        writes.append({"op": "write", "data": [rng.choice([13, 10, 48, 49, 97, 59, 0, 255, rng.randrange(256)]) for _ in range(n)]})
    if rng.random() < 0.12:
        total = sum(len(w["data"]) for w in writes)
        txt = rng.random() < 0.5
        pre.append({"op": "hdr", "name": [ord(c) for c in rng.choice(["Content-Length", "content-length", "CONTENT-LENGTH"])], "txt": txt,
                    "val": [ord(c) for c in str(total)]})
    rng.shuffle(pre)
    return {"cfg": cfg, "ops": pre + writes + [{"op": "finish"}]}


def field_scns(rng, maxlen, classes):
    """Per-field exhaustive family: every sequence of <= maxlen class symbols in each argument position
    (one at a time), each symbol concretised by a seeded member of its class."""
    from harness.adapters import c20_http as H
    out = []
    base = lambda: {"minor": 1, "head": False, "cc": False}
    for symseq in H.all_seqs(classes, maxlen):
        conc = lambda txt=False: [H.member(rng, c, txt) if c not in ("ALPHA",) else 120 for c in symseq]
        tail = [{"op": "write", "data": [104, 105]}, {"op": "finish"}]
        out.append({"cfg": base(), "ops": [{"op": "code", "code": 200, "rs": True, "reason": conc()}] + tail})
        nm = conc()      # the same name set twice: an invalid name must be refused every time, a valid one overridden
        out.append({"cfg": base(), "ops": [{"op": "hdr", "name": nm, "txt": False, "val": [118]}, {"op": "hdr", "name": list(nm), "txt": False, "val": [119]}] + tail})
        out.append({"cfg": base(), "ops": [{"op": "hdr", "name": [88, 45, 84], "txt": False, "val": conc()}] + tail})
        ck = lambda k, v, a: {"op": "cookie", "k": k, "v": v, "attrs": a, "secure": False, "httpOnly": False, "sameSite": "", "txt": False}
        out.append({"cfg": base(), "ops": [ck(conc(), [118], [])] + tail})
        out.append({"cfg": base(), "ops": [ck([107], conc(), [])] + tail})
        out.append({"cfg": base(), "ops": [ck([107], [118], [["domain", conc()]])] + tail})
    return out


# --------------------------------------------------------------------------- attribution plumbing

FIELDS = {"code": [("reason", "setResponseCode/reason")], "hdr": [("name", "setHeader/name"), ("val", "setHeader/value")],
          "cookie": [("k", "addCookie/key"), ("v", "addCookie/value")], "write": [("data", "write/data")]}


def features(scn):
    from harness.adapters import c20_http as H
    fs = []
    for i, op in enumerate(scn["ops"]):
        for f, _ in FIELDS.get(op["op"], []):
            cs = H.classes_in(op[f])
            if f == "data":
                cs = ["ANY"] if cs else []       # body octets are opaque: one feature per write
            for c in cs:
                fs.append((i, f, c))
        if op["op"] == "cookie":
            for j, (a, v) in enumerate(op["attrs"]):
                for c in H.classes_in(v):
                    fs.append((i, "attr%d" % j, c))
    return fs


def neutralise(scn, keys):
    from harness.adapters import c20_http as H
    s = copy.deepcopy(scn)
    for i, f, c in keys:
        op = s["ops"][i]
        if f.startswith("attr"):
            j = int(f[4:])
            op["attrs"][j][1] = H.neutral(op["attrs"][j][1], c)
        else:
            op[f] = [120] * len(op[f]) if c == "ANY" else H.neutral(op[f], c)
    # keep an application-set Content-Length consistent (write data keeps its length: nothing to do)
    return s


def fp_of(scn, key):
    i, f, c = key
    op = scn["ops"][i]
    if f.startswith("attr"):
        return "addCookie/attribute:%s" % c
    return "%s:%s" % (dict(FIELDS[op["op"]])[f], c)


def context_of(scn):
    cfg = scn["cfg"]
    code = next((op["code"] for op in scn["ops"] if op["op"] == "code"), 200)
    cl = any(op["op"] == "hdr" and bytes(c for c in op["name"] if c < 256).lower() == b"content-length" for op in scn["ops"])
    nw = sum(1 for op in scn["ops"] if op["op"] == "write")
    kinds = "".join(sorted({op["op"][0] for op in scn["ops"]}))
    return "HTTP/1.%d %s code=%s cl=%s writes=%s ops=%s" % (cfg["minor"], "HEAD" if cfg["head"] else "GET",
                                                           "nobody" if code in (204, 304) else "body", cl, min(nw, 2), kinds)


def describe(scn):
    parts = []
    for op in scn["ops"]:
        if op["op"] == "code":
            parts.append("setResponseCode(%d%s)" % (op["code"], ", %r" % bytes(op["reason"]) if op["rs"] else ""))
        elif op["op"] == "hdr":
            parts.append("setHeader(%r, %r)" % (_arg(op["name"], op["txt"]), _arg(op["val"], op["txt"])))
        elif op["op"] == "cookie":
            parts.append("addCookie(%r, %r%s)" % (_arg(op["k"], op["txt"]), _arg(op["v"], op["txt"]),
                                                 "".join(", %s=%r" % (a, _arg(v, op["txt"])) for a, v in op["attrs"])))
        elif op["op"] == "write":
            parts.append("write(%r)" % bytes(op["data"][:24]))
        else:
            parts.append("finish()")
    c = scn["cfg"]
    return "%s HTTP/1.%d: %s" % ("HEAD" if c["head"] else "GET", c["minor"], "; ".join(parts))


def _unsafe(seq):
    return any(b in (0, 10, 13) for b in seq)


def mutate(t, rng):
    """Binding self-test: corrupt one logged field so that the trace cannot be a behaviour of the spec."""
    ev = t["ev"]
    fin = ev[-1]
    if fin["e"] != "finish" or not fin["wire"]:
        return None
    nobody = t["cfg"]["head"] or any(e["e"] == "code" and e["res"] == "ok" and e["code"] in (204, 304) for e in ev)
    r = rng.random()
    if r < 0.15:
        fin["wire"][0] = 120                                # status line broken
    elif r < 0.3:
        fin["wire"] = fin["wire"][:-1]                      # last emitted octet missing
    elif r < 0.45:
        fin["wire"] = fin["wire"] + [120]                   # an octet the server did not emit
    elif r < 0.65:
        ws = [e for e in ev if e["e"] == "write" and e["data"]]
        if not ws or nobody:
            return None
        rng.choice(ws)["data"][0] ^= 1                      # a write the server did not emit
    elif r < 0.85:
        hs = [e for e in ev if e["e"] == "hdr" and e["res"] == "ok"]
        if not hs:
            return None
        hs[-1]["val"] = hs[-1]["val"] + [121]               # a header value that was not sent
    else:
        cs = [e for e in ev if e["e"] in ("hdr", "code") and e["res"] == "ok" and not _unsafe(e.get("val", e.get("reason", [])))]
        if not cs:
            return None
        rng.choice(cs)["res"] = "refused"                   # a refusal that did not happen
    return t


def run(ctx):
    from harness.core import MachineryError
    from harness.adapters import c20_http as H
    # -coverage makes TLC two orders of magnitude slower on the recursive parser, so the vacuity guard is
    # fed from <<"ACTION", name>> lines the MC spec prints the first time a worker takes each action.
    r = ctx.mc("HttpRespWireMC", ctx.pick("HttpRespWireMC.cfg", "HttpRespWireMC.thorough.cfg"), coverage=False)
    if not r.ok:
        raise MachineryError("HttpRespWire oracle inconsistent: " + r.error + "\n" + "\n".join(r.prints[-3:]))
    H.actions_from_prints(ctx, "HttpRespWireMC", r)
    ctx.require_actions("HttpRespWireMC", ["DoSetCodeOk", "DoSetCodeRefused", "DoSetHeaderOk", "DoSetHeaderRefused", "DoSetContentLength",
                                           "DoAddCookieOk", "DoAddCookieRefused", "DoWrite", "DoFinish"])
    # negative control: a correct serialisation put among the wrong ones must violate OracleRejects
    n = ctx.mc("HttpRespWireMC", "HttpRespWireMCNeg.cfg", coverage=False, must_pass=False, label="negative control")
    if n.ok or n.kind != "invariant":
        raise MachineryError("negative control: OracleRejects not evaluated (%s)" % (n.error or "no violation"))

    classes = ["ALPHA", "CR", "LF", "NUL", "CTL", "WS", "OBS", "SEMI", "EQ", "COLON", "COMMA", "DQ", "PUNCT", "TPUNCT", "DIGIT"]
    scns = field_scns(ctx.rng, ctx.pick(2, 3), classes if not ctx.quick else classes[:9])
    ctx.exhaustive = True
    ctx.extra["exhaustive_rule"] = "every sequence of <= %d octet-class symbols in each of 6 argument positions (reason, header name, header value, cookie key, cookie value, cookie attribute), one position at a time" % ctx.pick(2, 3)
    nfield = len(scns)
    for _ in range(ctx.pick(600, 20000)):
        scns.append(random_scn(ctx.rng))
    traces = [run_scn(s) for s in scns]
    ctx.extra["per_field_exhaustive_scenarios"] = nfield
    ctx.note_traces([{"cfg": t["cfg"], "ev": t["ev"]} for t in traces])
    ctx.log("recorded %d real executions" % len(traces))
    rej = ctx.validate("HttpRespWireTrace", traces, shard_size=ctx.pick(800, 3000))
    ctx.log("%d executions rejected by TLC; attributing" % len(rej))
    bad = [scns[x.idx] for x in rej]
    for fp, what, scn in H.attribute(ctx, "HttpRespWireTrace", bad, run_scn, features, neutralise, fp_of, context_of, describe):
        ctx.violation(fp, "emitted response is not the response that was set (HttpRespWire.Judge): " + what, scn)
    ridx = {x.idx for x in rej}
    good = [t for i, t in enumerate(traces) if i not in ridx and t["ev"][-1]["res"] == "ok"]
    ctx.selftest_rejects("HttpRespWireTrace", good[-300:], mutate, n=24)


def replay(ctx, obj):
    t = run_scn(obj)
    ctx.note_trace({"cfg": t["cfg"], "ev": t["ev"]})
    for x in ctx.validate("HttpRespWireTrace", [t]):
        fs = features(obj)
        fp = fp_of(obj, fs[0]) if len(fs) == 1 else ("plain:" + context_of(obj) if not fs else "combo:" + "+".join(sorted({fp_of(obj, f) for f in fs})))
        ctx.violation(fp, "replayed scenario rejected at event %d: %s" % (x.reached, describe(obj)), obj)
    print(describe(obj))
    print(bytes(t["ev"][-1].get("wire", [])))
