"""C52 -- atomic file replacement keeps the old or the new content at every crash point.

Spec:     specs/AtomicFile.tla (Abs = the property), specs/AtomicFileImpl.tla (write-temporary-then-rename
          as coded in FilePath.setContent and sob.Persistent.save, over specs/lib/FsModel.tla; AtomicFileMC =
          exhaustive TLC run, crash between any two file-system calls and inside every write),
          AtomicFileTrace (verdict), AtomicFileImplTrace (drift).
Binding:  the real FilePath.setContent / Persistent.save on a scratch directory; mutating file-system calls
          intercepted (harness/adapters/c51_fs.py), a crash injected at every call index and every
          partial-write length; afterwards the target path is read back.  TLC decides.
"""
import os
import shutil

META = dict(
    id="C52",
    specs=["AtomicFile.tla", "AtomicFileImpl.tla", "AtomicFileMC.tla", "AtomicFileTrace.tla", "AtomicFileImplTrace.tla", "lib/FsModel.tla"],
    technique="TLA+ spec of write-temporary-then-rename over a file-system model (TLC exhaustive: crash at every step and inside every write, both temp-name disciplines; the Windows remove-then-rename branch is shown by TLC to violate the property) + TLC trace validation of real FilePath.setContent and sob.Persistent.save executions with a crash injected at every intercepted file-system call and partial-write length",
    level_text="TLC proves on the design (AtomicFileImpl over FsModel, POSIX branch) that after a crash at any file-system step or inside any write of a sequence of replacements the target holds the complete old or the complete new content, and every recorded execution of the real setContent / Persistent.save (real files, crash at every call index and partial-write length, existing and non-existing targets, left-over temporaries) is validated by TLC against the property specification AtomicFile.",
    level_note="Trusted: TLC; the interception layer (process-crash model: calls are atomic and ordered, user-space buffers are lost at the crash; no power-loss/fsync reasoning). Only the POSIX branch is bound to code (the platform.isWindows()/win32 branch is unreachable on this platform; TLC shows on the model that it has the window its docstring documents). 'Only temporary files may be left behind' is not constrained beyond the target itself.",
    design_ref="2.9 C52",
    rule="case = (API variant, existing/non-existing target, sequence of contents, crash point = (save, file-system call index, bytes of a torn write)); distinct = hash of (cfg, events); non-trivial = at least two different event kinds",
)

TARGET_SC = "target.dat"


class Case:
    """kind 'sc' | 'sob'; variant: dict; init: 0|1; vals: list of bytes (sc) or ints = pad sizes (sob);
    vals[0] is content id 1 (the pre-existing file, used when init=1), save number j writes id j+1."""

    def __init__(self, kind, variant, init, vals):
        self.kind, self.variant, self.init, self.vals = kind, variant, init, vals

    def to_json(self):
        return dict(kind=self.kind, variant=self.variant, init=self.init,
                    vals=[v.hex() if isinstance(v, bytes) else v for v in self.vals])

    @staticmethod
    def from_json(o):
        return Case(o["kind"], o["variant"], o["init"], [bytes.fromhex(v) if isinstance(v, str) else v for v in o["vals"]])


def sob_obj(i, pad):
    return {"id": i, "name": "app%d" % i, "pad": ("%d-" % i) * pad, "list": list(range(i))}


def sob_paths(root, variant):
    """(Persistent name, kwargs of save, final path) for a sob variant."""
    name = os.path.join(root, "app")
    ext = "tas" if variant.get("style") == "source" else "tap"
    kw = {}
    if variant.get("filename"):
        kw["filename"] = os.path.join(root, "explicit.sav")
        final = kw["filename"]
    elif variant.get("tag"):
        kw["tag"] = variant["tag"]
        final = "%s-%s.%s" % (name, variant["tag"], ext)
    else:
        final = "%s.%s" % (name, ext)
    return name, kw, final


_ref_cache = {}


def sob_reference(work, variant, i, pad):
    """Bytes the real Persistent.save leaves at the final path for object (i, pad): learned from a crash-free run."""
    key = (variant.get("style"), i, pad)
    if key in _ref_cache:
        return _ref_cache[key]
    from twisted.persisted import sob
    root = os.path.join(work, "ref")
    shutil.rmtree(root, ignore_errors=True)
    os.makedirs(root)
    name, kw, final = sob_paths(root, variant)
    p = sob.Persistent(sob_obj(i, pad), name)
    p.setStyle(variant.get("style") or "pickle")
    p.save(**kw)
    with open(final, "rb") as f:
        b = f.read()
    shutil.rmtree(root, ignore_errors=True)
    _ref_cache[key] = b
    return b


def run_trace(work, case, plans, seq=[0]):
    """plans: {save index (0-based): {"at": i, "bytes": b, "after": bool}}."""
    from harness.adapters.c51_fs import FsTap, run_tapped
    from twisted.python.filepath import FilePath
    from twisted.persisted import sob

    seq[0] += 1
    root = os.path.join(work, "r%d" % seq[0])
    shutil.rmtree(root, ignore_errors=True)
    os.makedirs(root)
    if case.kind == "sc":
        final = os.path.join(root, TARGET_SC)
        content = {i + 1: v for i, v in enumerate(case.vals)}
    else:
        name, kw, final = sob_paths(root, case.variant)
        content = {i + 1: sob_reference(work, case.variant, i + 1, pad) for i, pad in enumerate(case.vals)}
    byid = {v: k for k, v in content.items()}
    ve = byid.get(b"", 0)
    state = {"op": 0, "cur": 0}
    tmpidx = {}

    def namer(path):
        if os.path.normpath(path) == final:
            return ["tgt", 0]
        rel = os.path.relpath(path, root)
        if rel not in tmpidx:
            tmpidx[rel] = 0 if case.kind == "sob" else state["op"]
        return ["tmp", tmpidx[rel]]

    def ident(data):
        c = content.get(state["cur"], b"")
        return state["cur"] if data and bytes(data) in c else 0

    def classify(b):
        v = byid.get(b, 0)
        return [v, "all" if v else "part"]

    def view():
        try:
            with open(final, "rb") as f:
                b = f.read()
        except FileNotFoundError:
            return {"e": "view", "t": [0, "absent"]}
        return {"e": "view", "t": classify(b)}

    def ls():
        files = []
        for n in sorted(os.listdir(root)):
            with open(os.path.join(root, n), "rb") as f:
                b = f.read()
            files.append([namer(os.path.join(root, n))] + classify(b))
        return {"e": "ls", "files": files}

    if case.init:
        with open(final, "wb") as f:
            f.write(content[1])
    ev = [view()]
    calls = {}
    for j in range(len(case.vals) - 1):
        vid = j + 2
        state["op"], state["cur"] = j + 1, vid
        plan = plans.get(j) or plans.get(str(j))
        tap = FsTap(root, namer, crash_at=plan["at"] if plan else None, crash_bytes=plan.get("bytes", 0) if plan else 0, ident=ident)
        if case.kind == "sc":
            fp = FilePath(final)
            ext = case.variant.get("ext")
            if ext is None:
                fn = lambda: fp.setContent(content[vid])
            else:
                fn = lambda: fp.setContent(content[vid], ext.encode() if case.variant.get("bytes_ext") else ext)
        else:
            p = sob.Persistent(sob_obj(vid, case.vals[vid - 1]), name)
            p.setStyle(case.variant.get("style") or "pickle")
            fn = lambda: p.save(**kw)
        st, x = run_tapped(tap, fn)
        nch = sum(1 for e in tap.events if e["op"] == "write")
        save_ev = {"e": "save", "v": vid, "nch": plan.get("nch", nch) if plan else nch}
        ev.append(save_ev)
        ev.extend(tap.events)
        calls[j] = list(tap.calls)
        if st == "ok" and plan and plan.get("after") and plan["at"] >= len(tap.calls):
            st = "crash"
        if st == "ok":
            ev.append({"e": "ret", "res": "ok"})
        elif st == "exc":
            ev.append({"e": "ret", "res": "EXC:" + type(x).__name__})
            break
        else:
            ev.append({"e": "crash"})
        ev.append(view())
        ev.append(ls())
    shutil.rmtree(root, ignore_errors=True)
    return {"cfg": {"kind": case.kind, "init": case.init, "ve": ve}, "ev": ev, "case": case.to_json(),
            "plans": {str(k): v for k, v in plans.items()}, "_calls": calls}


def crash_points(calls, rng=None, all_lengths_upto=8):
    pts = []
    for i, (op, _p, n) in enumerate(calls):
        pts.append((i, 0, False))
        if op == "write" and n > 1:
            if n <= all_lengths_upto:
                lens = list(range(1, n))
            else:
                s = {1, n - 1, n // 2}
                if rng is not None:
                    s |= {rng.randrange(1, n) for _ in range(3)}
                lens = sorted(s)
            pts.extend((i, b, False) for b in lens)
    pts.append((len(calls), 0, True))
    return pts


def enumerate_crashes(work, case, rng=None, which=None):
    base = run_trace(work, case, {})
    yield base
    nwrites = {j: sum(1 for c in cs if c[0] == "write") for j, cs in base["_calls"].items()}
    for j in (which if which is not None else sorted(base["_calls"])):
        for at, b, after in crash_points(base["_calls"][j], rng):
            # nch of the interrupted save = number of write calls of the crash-free run (needed by the Impl layer only)
            yield run_trace(work, case, {j: {"at": at, "bytes": b, "after": after, "nch": nwrites[j]}})


def make_contents(rng, n, sizes):
    """n distinct byte strings, none a prefix of another (distinct first bytes), at most one empty."""
    firsts = rng.sample(range(256), n)
    out = []
    used_empty = False
    for f in firsts:
        sz = rng.choice(sizes)
        if sz == 0 and not used_empty:
            used_empty = True
            out.append(b"")
        else:
            sz = max(sz, 1)
            out.append(bytes([f]) + rng.randbytes(sz - 1))
    return out


SC_VARIANTS = [{}, {"ext": ".tmp"}, {"ext": ".new", "bytes_ext": True}, {"ext": ""}]
SOB_VARIANTS = [{"style": "pickle"}, {"style": "source"}, {"style": "pickle", "tag": "shutdown"}, {"style": "pickle", "filename": True}]


def fingerprint(t, reached):
    ev = t["ev"]
    e = ev[reached] if reached < len(ev) else {"e": "end"}
    crashed, lastfs = False, "begin"
    for x in ev[:reached + 1]:
        if x["e"] == "save":
            crashed, lastfs = False, "begin"
        elif x["e"] == "fs" and not crashed:
            lastfs = x["op"] + ("-part" if x["cls"] == "part" else "")
        elif x["e"] == "crash":
            crashed = True
    if e["e"] == "view":
        sym = "target-" + e["t"][1] + ("" if e["t"][1] != "all" else "-wrong-content")
    elif e["e"] == "ret":
        sym = "ret-" + e["res"]
    else:
        sym = e["e"]
    variant = "/".join("%s=%s" % kv for kv in sorted(t["case"]["variant"].items()))
    return "%s[%s]:%s:%s:%s" % (t["case"]["kind"], variant, "existing" if t["case"]["init"] else "new",
                                ("crash-after-" + lastfs) if crashed else "nocrash", sym)


def mutate(t, rng):
    views = [i for i, e in enumerate(t["ev"]) if e["e"] == "view"]
    i = rng.choice(views)
    e = t["ev"][i]
    r = rng.random()
    if e["t"][1] == "all" and r < 0.4:
        e["t"] = [e["t"][0] + 9, "all"]      # some other content
    elif r < 0.7 and e["t"][1] != "part":
        e["t"] = [0, "part"]                 # torn target
    elif e["t"][1] != "absent":
        e["t"] = [0, "absent"]               # target lost
    else:
        e["t"] = [0, "part"]
    return t


def mutate_impl(t, rng):
    fs = [i for i, e in enumerate(t["ev"]) if e["e"] == "fs"]
    if not fs:
        return None
    i = rng.choice(fs)
    # (dropping a torn write is not a corruption: an empty and a torn temporary look the same in the listing)
    if rng.random() < 0.5 and t["ev"][i]["op"] != "write":
        del t["ev"][i]
    else:
        t["ev"][i]["op"] = {"rename": "remove", "open": "rename", "write": "open", "remove": "rename"}[t["ev"][i]["op"]]
    return t


def strip(t):
    return {k: v for k, v in t.items() if not k.startswith("_")}


def run(ctx):
    from harness.core import MachineryError
    r = ctx.mc("AtomicFileMC", ctx.pick("AtomicFileMC.cfg", "AtomicFileMC.thorough.cfg"))
    if not r.ok:
        raise MachineryError("AtomicFileImpl violates the property on the design: %s\n%s" % (r.error, "".join(r.cex[-6:])))
    ctx.require_actions("AtomicFileMC", ["ISave", "Create", "Write", "Rename", "Ret", "ICrash", "IView"])
    # the invariant is not vacuous: with the Windows-only remove-before-rename branch TLC finds the window
    rw = ctx.mc("AtomicFileMC", "AtomicFileMCWin.cfg", must_pass=False, label="windows branch, violation expected")
    if rw.ok or rw.kind != "invariant":
        raise MachineryError("AtomicFileMC with Win=TRUE should violate IdleOk (remove-then-rename window); got ok=%s kind=%s" % (rw.ok, rw.kind))
    ctx.extra["windows_branch_counterexample_found_by_tlc"] = True
    ctx.require_actions("AtomicFileMC", ["WinRemove"])

    rng = ctx.rng
    traces = []
    # (1) every API variant x existing/non-existing target, two saves of small contents, every crash point
    #     (every call index, every torn-write length) of every save
    for variant in SC_VARIANTS:
        for init in (0, 1):
            traces.extend(enumerate_crashes(ctx.work, Case("sc", variant, init, [b"OLD-content", b"nEw", b"x"]), rng))
            traces.extend(enumerate_crashes(ctx.work, Case("sc", variant, init, [b"old", b"", b"Third"]), rng))
    for variant in SOB_VARIANTS:
        for init in (0, 1):
            traces.extend(enumerate_crashes(ctx.work, Case("sob", variant, init, [3, 1, 5]), rng))
    n_exh = len(traces)
    ctx.exhaustive = True
    ctx.extra["exhaustive_traces"] = n_exh
    # (2) random contents (empty, one byte, several buffers long), longer sequences, left-over temporaries
    nrand = ctx.pick(12, 400)
    for i in range(nrand):
        if rng.random() < 0.6:
            n = rng.randint(2, 4)
            case = Case("sc", rng.choice(SC_VARIANTS), rng.randint(0, 1), make_contents(rng, n + 1, [0, 1, 2, 7, 100, 9000, 20000]))
        else:
            n = rng.randint(2, 3)
            case = Case("sob", rng.choice(SOB_VARIANTS), rng.randint(0, 1), [rng.choice([0, 1, 4, 50, 3000, 7000]) for _ in range(n + 1)])
        traces.extend(enumerate_crashes(ctx.work, case, rng, which=rng.sample(range(n), ctx.pick(1, 2))))
        # several crashes in one sequence
        plans = {j: {"at": rng.randint(0, 4), "bytes": rng.choice([0, 1, 3]), "after": True} for j in range(n) if rng.random() < 0.6}
        base = run_trace(ctx.work, case, {})
        for j in plans:
            plans[j]["nch"] = sum(1 for c in base["_calls"][j] if c[0] == "write")
        traces.append(run_trace(ctx.work, case, plans))
    traces = [strip(t) for t in traces]
    ctx.note_traces(traces)
    ctx.log("recorded %d real executions (%d in the exhaustive part)" % (len(traces), n_exh))
    ctx.extra["crash_runs"] = sum(1 for t in traces if t["plans"])
    from harness.adapters.c51_fs import validate_layers
    rej, drift, slim = validate_layers(ctx, "AtomicFileTrace", "AtomicFileImplTrace", traces)
    for idx, reached in rej[:50]:
        t = traces[idx]
        ctx.violation(fingerprint(t, reached), "real %s execution not allowed by AtomicFile.tla at event %d: %s" % (
            t["case"]["kind"], reached, t["ev"][reached] if reached < len(t["ev"]) else None),
            dict(case=t["case"], plans=t["plans"], rejected_at=reached))
    ctx.impl_drift += len(drift)
    for idx, reached in drift[:5]:
        t = traces[idx]
        ctx.log("impl drift (not a violation): event %d %s of case=%s plans=%s" % (
            reached, t["ev"][reached] if reached < len(t["ev"]) else None, t["case"], t["plans"]))
    bad = {i for i, _ in rej}
    drifted = {i for i, _ in drift}
    ctx.selftest_rejects("AtomicFileTrace", [slim[i] for i in range(len(traces)) if i not in bad][:300], mutate, n=20)
    nodrift = [{"cfg": t["cfg"], "ev": t["ev"]} for i, t in enumerate(traces) if i not in bad and i not in drifted]
    if nodrift:
        ctx.selftest_rejects("AtomicFileImplTrace", nodrift[:300], mutate_impl, n=12)


def replay(ctx, obj):
    t = strip(run_trace(ctx.work, Case.from_json(obj["case"]), {int(k): v for k, v in obj["plans"].items()}))
    ctx.note_trace(t)
    for e in t["ev"]:
        print(e)
    for x in ctx.validate("AtomicFileTrace", [t]):
        ctx.violation(fingerprint(t, x.reached), "replayed execution rejected at event %d: %s" % (
            x.reached, t["ev"][x.reached] if x.reached < len(t["ev"]) else None),
            dict(case=t["case"], plans=t["plans"], rejected_at=x.reached))
