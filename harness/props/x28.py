"""X28 (extension, not a listed property) -- twisted.names.cache.CacheResolver on task.Clock.
Spec: specs/DnsCache.tla.  Reported under coverage.extra_modules of the nearest property (C09)."""

META = dict(
    id="X28", extension=True, nearest="C09",
    specs=["DnsCache.tla", "DnsCacheMC.tla", "DnsCacheTrace.tla"],
    technique="TLA+ spec of the TTL cache (entries + pending expiry calls + a declarative ghost of what the user expects) "
              "model-checked by TLC; the real CacheResolver(reactor=task.Clock()) driven along all short and seeded-random "
              "histories, every event validated by TLC",
    level_text="extension module: grows the specification beyond the listed properties",
    level_note="not a listed property; alarms are reported as EXTRA-ALARM, never as VIOLATION.  Trusted: task.Clock as the "
               "reactor, integer TTLs/times, dns.Query hashing; not decided: pickling (__getstate__/__setstate__), the "
               "constructor's cache= argument, callers mutating payload lists after handing them over",
    design_ref="4 (extensions)",
    rule="history of cacheResult/lookup/clearEntry/advance calls over 4 queries; distinct by event sequence; "
         "non-trivial = at least two different event kinds",
)

NAMES = [b"a.example", b"b.example"]


def _table():
    from twisted.names import dns
    return {
        1: (b"a.example", dns.A, lambda: dns.Record_A("10.0.0.1")),
        2: (b"a.example", dns.AAAA, lambda: dns.Record_AAAA("::2")),
        3: (b"b.example", dns.A, lambda: dns.Record_A("10.0.0.3")),
        4: (b"ns.example", dns.NS, lambda: dns.Record_NS(b"ns.example")),
    }


def run_history(ops):
    """ops: ["cache", q, pl, ct] | ["lookup", q, all, uc, via] | ["clear", q] | ["advance", d]
    q in 1..4 = 2*(name index) + (1 for A, 2 for AAAA); pl = 3 lists of [ttl, pid, auth]; ct = -1 for None."""
    from twisted.internet import task
    from twisted.names import cache, dns
    from twisted.python.failure import Failure

    table = _table()
    clock = task.Clock()
    res = cache.CacheResolver(reactor=clock)

    def query(q, upper=False):
        name = NAMES[(q - 1) // 2]
        return dns.Query(name.upper() if upper else name, dns.A if q % 2 == 1 else dns.AAAA, dns.IN)

    def header(t, p, a):
        name, typ, mk = table[p]
        return dns.RRHeader(name, typ, dns.IN, t, mk(), auth=bool(a))

    def pid_of(h):
        for p, (name, typ, mk) in table.items():
            if h.name.name == name and h.type == typ and h.cls == dns.IN and h.payload == mk():
                return p
        return 0

    def pend():
        out = []
        for c in clock.getDelayedCalls():
            t = c.getTime()
            out.append(int(t) if t == int(t) else -1)
        return sorted(out)

    ev = []
    for op in ops:
        k = op[0]
        if k == "cache":
            _, q, pl, ct = op
            payload = tuple([header(*r) for r in sec] for sec in pl)
            try:
                if ct < 0:
                    res.cacheResult(query(q), payload)
                else:
                    res.cacheResult(query(q), payload, ct)
                out = "ok"
            except Exception as e:
                out = type(e).__name__
            ev.append({"e": "cache", "q": q, "ct": ct, "out": out, "pend": pend(),
                       "pl": [[{"t": r[0], "p": r[1], "a": bool(r[2])} for r in sec] for sec in pl]})
        elif k == "lookup":
            _, q, all_, uc, via = op
            name = NAMES[(q - 1) // 2]
            if uc:
                name = name.upper()
            got = []
            try:
                if via == "q":
                    d = res.query(dns.Query(name, dns.ALL_RECORDS if all_ else (dns.A if q % 2 == 1 else dns.AAAA), dns.IN))
                elif all_:
                    d = res.lookupAllRecords(name)
                elif q % 2 == 1:
                    d = res.lookupAddress(name)
                else:
                    d = res.lookupIPV6Address(name)
                d.addBoth(got.append)
            except Exception as e:
                got.append(Failure(e))
            recs = [[], [], []]
            if not got:
                r = "pending"
            elif isinstance(got[0], Failure):
                r = "miss" if got[0].check(dns.DomainError) else "err:" + got[0].type.__name__
            else:
                r = "hit"
                recs = [[{"t": h.ttl if isinstance(h.ttl, int) else -1, "p": pid_of(h), "a": bool(h.auth)} for h in sec]
                        for sec in got[0]]
                # the caller owns what it was served: scribble on it
                for sec in got[0]:
                    for h in sec:
                        h.ttl = h.ttl + 9
                        h.auth = not h.auth
                    del sec[:]
            ev.append({"e": "lookup", "q": q, "all": bool(all_), "uc": bool(uc), "via": via, "res": r, "recs": recs, "pend": pend()})
        elif k == "clear":
            try:
                res.clearEntry(query(op[1]))
                out = "ok"
            except Exception as e:
                out = type(e).__name__
            ev.append({"e": "clear", "q": op[1], "out": out, "pend": pend()})
        else:
            errs = 0
            d = op[1]
            for _ in range(50):
                try:
                    clock.advance(d)
                    break
                except KeyError:
                    # a real reactor logs the error and goes on with the next due call
                    errs += 1
                    d = 0
                except Exception:
                    errs += 1000
                    d = 0
            ev.append({"e": "advance", "d": op[1], "errs": errs, "pend": pend()})
    return {"cfg": {}, "ops": [list(o) for o in ops], "ev": ev}


PA = [[[2, 1, True]], [], []]
PB = [[[3, 1, False], [1, 2, True]], [[2, 3, False]], []]
PZ = [[[0, 2, False]], [[2, 4, False]], []]
PE = [[], [], []]


def exhaustive_histories(n):
    """every sequence of n symbols; cacheTime of the back-dated symbol is resolved against the running clock"""
    import itertools
    alpha = [("cache", 1, PA, None), ("cache", 1, PB, None), ("cache", 1, PZ, None), ("cache", 1, PB, 2),
             ("lookup", 1), ("clear", 1), ("advance", 0), ("advance", 1), ("advance", 2),
             ("cache", 3, PA, None), ("lookup", 3)]
    for seq in itertools.product(alpha, repeat=n):
        if seq[0][0] in ("lookup", "clear") and n > 1:
            continue                      # covered by the shorter histories
        now = 0
        ops = []
        for s in seq:
            if s[0] == "cache":
                ops.append(["cache", s[1], s[2], -1 if s[3] is None else max(0, now - s[3])])
            elif s[0] == "lookup":
                ops.append(["lookup", s[1], False, False, "m"])
            elif s[0] == "clear":
                ops.append(["clear", s[1]])
            else:
                now += s[1]
                ops.append(["advance", s[1]])
        yield ops


def random_payload(rng):
    if rng.random() < 0.08:
        return [[], [], []]
    pl = []
    hi = rng.choice([2, 3, 5])
    for s in range(3):
        n = rng.choice([1, 2, 3]) if s == 0 else rng.choice([0, 0, 1, 2])
        pl.append([[rng.randint(0 if rng.random() < 0.15 else 1, hi), rng.randint(1, 4), rng.random() < 0.5] for _ in range(n)])
    return pl


def random_ops(rng, n):
    ops = []
    now = 0
    qs = rng.choice([[1], [1, 2], [1, 3], [1, 2, 3, 4]])
    pclear = rng.choice([0.0, 0.0, 0.05, 0.15])
    pback = rng.choice([0.0, 0.1, 0.3])
    for _ in range(n):
        r = rng.random()
        q = rng.choice(qs)
        if r < 0.25:
            ct = -1
            if rng.random() < pback:
                ct = rng.randint(0, now)
            ops.append(["cache", q, random_payload(rng), ct])
        elif r < 0.6:
            ops.append(["lookup", q, rng.random() < 0.05, rng.random() < 0.3, rng.choice("mq")])
        elif r < 0.6 + pclear:
            ops.append(["clear", q])
        else:
            d = rng.choice([0, 1, 1, 1, 2, 2, 3, 5])
            now += d
            ops.append(["advance", d])
    return ops


def run(ctx):
    ctx.mc("DnsCacheMC", ctx.pick("DnsCacheMC.cfg", "DnsCacheMC.thorough.cfg"), coverage=False)
    ctx.mc("DnsCacheMC", "DnsCacheMC.cov.cfg", workers=1, label="vacuity guard (coverage)")
    ctx.require_actions("DnsCacheMC", ["CacheResult", "LookupHit", "LookupMiss", "LookupStale", "LookupAll", "ClearEntry", "Advance"])
    ctx.assumptions.append("payload lists handed to cacheResult are not touched by the caller afterwards (the cache keeps them by reference)")

    traces = []
    for n in range(1, ctx.pick(4, 5) + 1):
        for ops in exhaustive_histories(n):
            traces.append(run_history(ops))
    nex = len(traces)
    for _ in range(ctx.pick(2500, 20000)):
        traces.append(run_history(random_ops(ctx.rng, ctx.rng.randint(4, 40))))
    ctx.extra["exhaustive_short_histories"] = nex
    ctx.extra["random_histories"] = len(traces) - nex
    ctx.note_traces(traces)
    rej = ctx.validate("DnsCacheTrace", traces, shard_size=4000)
    for x in rej[:10]:
        t = traces[x.idx]
        e = t["ev"][x.reached] if x.reached < len(t["ev"]) else None
        ctx.violation("dnscache/%s" % (e or {}).get("e"),
                      "CacheResolver execution not explained by DnsCache.tla at event %d: %s" % (x.reached, e), dict(ops=t["ops"]))

    def mutate(t, rng):
        i = rng.randrange(len(t["ev"]))
        e = t["ev"][i]
        c = rng.randrange(3)
        if c == 0:
            e["pend"] = e["pend"][:-1] if e["pend"] and rng.random() < 0.5 else e["pend"] + [99]
        elif e["e"] == "lookup":
            if e["res"] == "hit" and e["recs"][0] and c == 1:
                e["recs"][0][0]["t"] += 1
            elif e["res"] == "hit":
                e["res"], e["recs"] = "miss", [[], [], []]
            else:
                e["res"], e["recs"] = "hit", [[{"t": 1, "p": 1, "a": False}], [], []]
        elif e["e"] == "advance":
            e["errs"] += 1
        elif e["e"] == "clear":
            e["out"] = "ok" if e["out"] != "ok" else "KeyError"
        else:
            e["out"] = "KeyError"
        return t
    bad = {x.idx for x in rej}
    good = [t for i, t in enumerate(traces) if i not in bad]
    ctx.selftest_rejects("DnsCacheTrace", good[nex:nex + 200] or good[:200], mutate, n=24)


def replay(ctx, obj):
    t = run_history(obj["ops"])
    for e in t["ev"]:
        print(e)
    for x in ctx.validate("DnsCacheTrace", [t]):
        ctx.violation("dnscache/replay", "rejected at %d" % x.reached, dict(ops=t["ops"]))
