"""C24 -- HTTP client requests serialize to exactly the intended message.

Spec:     specs/HttpReqWire.tla over specs/HttpMsgSyntax.tla (reference HTTP/1.1 parser in TLA+ = the
          independent parser), HttpReqWireMC (oracle consistency), HttpReqWireTrace (trace validation).
Binding:  real twisted.web.http_headers.Headers.addRawHeader, twisted.web._newclient.Request(...),
          assignment to the public attributes method / uri, Request.writeTo(StringTransport) with body
          producers None / known length / unknown length, synchronous and asynchronous; every event
          carries the octets that reached the transport during the call.  TLC parses and judges.
"""
import copy

META = dict(
    id="C24",
    specs=["HttpMsgSyntax.tla", "HttpReqWire.tla", "HttpReqWireMC.tla", "HttpReqWireTrace.tla"],
    technique="TLA+ reference HTTP/1.1 request parser and judge (RFC 9110/9112 over octet classes); TLC exhaustive check that the judge accepts every reference serialisation, rejects a list of wrong ones and that invalid methods/targets are never written; TLC trace validation of real _newclient.Request.writeTo executions (per-field exhaustive short inputs over all octet classes + seeded random combinations), emitted octets parsed by the spec",
    level_text="TLC checks on the specification that every request a reference client may emit within the budget is accepted by the judge, that each listed wrong serialisation is rejected and that a refused request has written nothing; every recorded execution of the real twisted.web._newclient.Request.writeTo is validated by TLC as a behaviour of that specification: the octets written, parsed by the TLA+ reference parser, must be exactly one request with the intended method, target, header values (in order) and body, framed by Content-Length or chunked coding, and an invalid method or target must raise ValueError with nothing written.",
    level_note="Trusted: TLC, the adapter's recording of arguments/outcomes and transport octets. Body producers are honest (write exactly their declared length). The caller's header set carries exactly one Host and no Content-Length/Transfer-Encoding/Connection of its own. The reference parser treats NUL/CR/LF in field values as invalid and tolerates other CTLs (RFC 9110 5.5). Lengths beyond the enumerated ones are sampled.",
    design_ref="2.7 C20 / C24",
    rule="scenario = header set + Request(method, target, body producer kind) [+ attribute assignment] + writeTo + producer writes + completion; distinct = hash of (cfg, events); non-trivial = at least two different event kinds",
)

FRAMING = {b"content-length", b"transfer-encoding", b"connection", b"host"}
HAZ = ["LB", "NUL", "CTL", "WS", "OBS", "SEMI", "EQ", "COLON", "COMMA", "DQ", "PUNCT", "TPUNCT"]


def _arg(seq, txt):
    return "".join(chr(c) for c in seq) if txt else bytes(seq)


def run_scn(scn):
    from twisted.web._newclient import Request
    from twisted.web.http_headers import Headers
    from twisted.web.iweb import IBodyProducer, UNKNOWN_LENGTH
    from twisted.internet.testing import StringTransport
    from twisted.internet.defer import Deferred, succeed
    from zope.interface import implementer

    ev = []
    tr = StringTransport()
    mark = [0]

    def delta():
        v = tr.value()
        out = list(v[mark[0]:])
        mark[0] = len(v)
        return out

    def outcome(fn):
        try:
            return "ok", fn()
        except ValueError:
            return "refused", None
        except BaseException as e:  # not an action of the spec
            return "EXC:" + type(e).__name__, None

    hs = Headers()
    for h in scn["hdrs"]:
        res, _ = outcome(lambda: hs.addRawHeader(_arg(h["name"], h["txt"]), _arg(h["val"], h["txt"])))
        ev.append({"e": "hdr", "name": list(h["name"]), "val": list(h["val"]), "txt": h["txt"], "res": res})

    body = scn["body"]
    pending = []          # events recorded while writeTo is running (synchronous producer)

    @implementer(IBodyProducer)
    class Producer:
        def __init__(self):
            self.length = UNKNOWN_LENGTH if body["kind"] == "unknown" else sum(len(c) for c in body["chunks"])
            self.consumer = None
            self.d = None
            self.stopped = False

        def startProducing(self, consumer):
            self.consumer = consumer
            if body["sync"]:
                head = delta()
                pending.append(("head", head))
                for c in body["chunks"]:
                    consumer.write(bytes(c))
                    pending.append(("produce", list(c), delta()))
                return succeed(None)
            self.d = Deferred()
            return self.d

        def stopProducing(self):
            self.stopped = True

        def pauseProducing(self):
            pass

        def resumeProducing(self):
            pass

    prod = Producer() if body else None
    res, req = outcome(lambda: Request(bytes(scn["method"]), bytes(scn["target"]), hs, prod, scn["cfg"]["persistent"]))
    ev.append({"e": "construct", "method": list(scn["method"]), "target": list(scn["target"]), "body": body["kind"] if body else "none", "res": res})
    if res == "ok":
        if scn.get("assign"):
            a = scn["assign"]
            req.method = bytes(a["method"])
            req.uri = bytes(a["target"])
            ev.append({"e": "assign", "method": list(a["method"]), "target": list(a["target"]), "res": "ok"})
        res, d = outcome(lambda: req.writeTo(tr))
        if pending:
            ev.append({"e": "writeTo", "res": res, "out": pending[0][1]})
            for _, data, out in pending[1:]:
                ev.append({"e": "produce", "data": data, "out": out, "res": "ok"})
        else:
            ev.append({"e": "writeTo", "res": res, "out": delta()})
        if res == "ok":
            fired = []
            d.addCallbacks(lambda r: fired.append("ok"), lambda f: fired.append("fail:" + f.type.__name__))
            if body and not body["sync"]:
                for c in body["chunks"]:
                    r2, _ = outcome(lambda: prod.consumer.write(bytes(c)))
                    ev.append({"e": "produce", "data": list(c), "out": delta(), "res": r2})
                prod.d.callback(None)
            ev.append({"e": "done", "res": fired[0] if fired else "pending", "out": delta()})
    return {"cfg": {"persistent": bool(scn["cfg"]["persistent"])}, "ev": ev}


# --------------------------------------------------------------------------- generators

METHODS = [b"GET", b"POST", b"PUT", b"HEAD", b"DELETE", b"OPTIONS", b"PATCH", b"get", b"M-SEARCH", b"X!#$%&'*+-.^_`|~9"]
TARGETS = [b"/", b"*", b"/a/b?c=d&e=%20#f", b"http://h:80/p?q", b"/\"<>\\^`{|}~", b"h:443", b"/;a=b,c"]


def gen_method(rng, spicy):
    from harness.adapters import c20_http as H
    if spicy:
        return H.spicy_seq(rng, ["WS", "LB", "NUL", "CTL", "OBS", "COLON", "SEMI", "PUNCT", "COMMA", "DQ", "EQ"], 0, 6, False, 0.3)
    return list(rng.choice(METHODS)) if rng.random() < 0.8 else H.token_seq(rng, 1, 7)


def gen_target(rng, spicy):
    from harness.adapters import c20_http as H
    if spicy:
        return H.spicy_seq(rng, ["WS", "LB", "NUL", "CTL", "OBS"], 0, 8, False, 0.3)
    if rng.random() < 0.6:
        return list(rng.choice(TARGETS))
    return [47] + [rng.randrange(33, 127) for _ in range(rng.randint(0, 12))]


def gen_headers(rng, sp):
    from harness.adapters import c20_http as H
    hs = []
    names = []
    for _ in range(rng.choice([0, 1, 1, 2, 3])):
        txt = rng.random() < 0.4
        if names and rng.random() < 0.3:
            name = list(rng.choice(names))
            if rng.random() < 0.5:             # the very same spelling again, or another capitalisation
                name = [c ^ 32 if (65 <= c <= 90 or 97 <= c <= 122) and rng.random() < 0.5 else c for c in name]
        elif rng.random() < 0.08:
            name = H.spicy_seq(rng, ["WS", "COLON", "LB", "NUL", "CTL", "OBS", "PUNCT"] + (["UNI"] if txt else []), 0, 5, txt, 0.35)
            names.append(name)               # an invalid name may be added again: refused every time
        else:
            while True:
                name = H.token_seq(rng, 1, 8)
                if bytes(name).lower() not in FRAMING:
                    break
            names.append(name)
        txt = txt or any(c > 255 for c in name)
        val = H.spicy_seq(rng, HAZ + (["UNI"] if txt else []), 0, 7, txt) if sp() else H.plain_seq(rng, 0, 7)
        hs.append({"name": name, "val": val, "txt": txt})
    hs.insert(rng.randint(0, len(hs)), {"name": list(rng.choice([b"Host", b"host", b"HOST"])), "val": list(b"example.com"), "txt": rng.random() < 0.5})
    return hs


def gen_body(rng):
    if rng.random() < 0.35:
        return None
    chunks = []
    for _ in range(rng.choice([0, 1, 1, 2, 3])):
        n = rng.choice([0, 1, 2, 3, 5, 9, 15, 16, 17, 33]) if rng.random() < 0.97 else rng.choice([255, 256, 300])
        chunks.append([rng.choice([13, 10, 48, 49, 97, 59, 0, 255, rng.randrange(256)]) for _ in range(n)])
    return {"kind": rng.choice(["known", "unknown"]), "chunks": chunks, "sync": rng.random() < 0.5}


def random_scn(rng):
    sp = lambda: rng.random() < 0.12
    scn = {"cfg": {"persistent": rng.random() < 0.5}, "hdrs": gen_headers(rng, sp), "method": gen_method(rng, rng.random() < 0.1),
           "target": gen_target(rng, rng.random() < 0.1), "body": gen_body(rng), "assign": None}
    if rng.random() < 0.15:
        scn["assign"] = {"method": gen_method(rng, rng.random() < 0.5), "target": gen_target(rng, rng.random() < 0.5)}
    return scn


def field_scns(rng, maxlen, classes):
    from harness.adapters import c20_http as H
    out = []
    host = {"name": list(b"Host"), "val": list(b"h"), "txt": False}
    body = lambda: {"kind": "unknown", "chunks": [[104, 105]], "sync": True}
    for symseq in H.all_seqs(classes, maxlen):
        conc = lambda: [H.member(rng, c) if c != "ALPHA" else 120 for c in symseq]
        base = lambda **kw: dict({"cfg": {"persistent": True}, "hdrs": [dict(host)], "method": list(b"GET"), "target": list(b"/"), "body": body(), "assign": None}, **kw)
        out.append(base(method=conc()))
        out.append(base(target=conc()))
        out.append(base(assign={"method": conc(), "target": list(b"/")}))
        out.append(base(assign={"method": list(b"GET"), "target": conc()}))
        nm = conc()      # the same name added twice (invalid: refused every time; valid: two values in order)
        out.append(base(hdrs=[dict(host), {"name": nm, "val": [118], "txt": False}, {"name": list(nm), "val": [119], "txt": False}]))
        out.append(base(hdrs=[{"name": [88, 45, 84], "val": conc(), "txt": False}, dict(host)]))
    return out


# --------------------------------------------------------------------------- attribution plumbing

def features(scn):
    from harness.adapters import c20_http as H
    fs = []
    for f in ("method", "target"):
        fs += [(f, -1, c) for c in H.classes_in(scn[f])]
        if scn.get("assign"):
            fs += [("assign." + f, -1, c) for c in H.classes_in(scn["assign"][f])]
    for i, h in enumerate(scn["hdrs"]):
        fs += [("hname", i, c) for c in H.classes_in(h["name"])]
        fs += [("hval", i, c) for c in H.classes_in(h["val"])]
    if scn["body"]:
        for i, ch in enumerate(scn["body"]["chunks"]):
            if H.classes_in(ch):
                fs.append(("chunk", i, "ANY"))
            if not ch:
                fs.append(("chunk", i, "EMPTY"))      # a zero-length write by the producer
    return fs


def neutralise(scn, keys):
    from harness.adapters import c20_http as H
    s = copy.deepcopy(scn)
    for f, i, c in keys:
        if f in ("method", "target"):
            s[f] = H.neutral(s[f], c)
        elif f.startswith("assign."):
            s["assign"][f[7:]] = H.neutral(s["assign"][f[7:]], c)
        elif f == "hname":
            s["hdrs"][i]["name"] = H.neutral(s["hdrs"][i]["name"], c)
        elif f == "hval":
            s["hdrs"][i]["val"] = H.neutral(s["hdrs"][i]["val"], c)
        elif c == "EMPTY":
            s["body"]["chunks"][i] = [120]
        else:
            s["body"]["chunks"][i] = [120] * len(s["body"]["chunks"][i])
    return s


FPN = {"method": "Request/method", "target": "Request/uri", "assign.method": "request.method=", "assign.target": "request.uri=",
       "hname": "Headers.addRawHeader/name", "hval": "Headers.addRawHeader/value", "chunk": "bodyProducer/data"}


def fp_of(scn, key):
    if key[0] == "chunk":
        return "bodyProducer(%s-length)/write:%s" % (scn["body"]["kind"], key[2])
    return "%s:%s" % (FPN[key[0]], key[2])


def context_of(scn):
    b = scn["body"]
    return "persistent=%s body=%s assign=%s nhdrs=%d" % (scn["cfg"]["persistent"], (b["kind"] + ("/sync" if b["sync"] else "/async") + "/%d" % min(len(b["chunks"]), 2)) if b else "none",
                                                        bool(scn.get("assign")), min(len(scn["hdrs"]), 3))


def describe(scn):
    hs = ", ".join("%r: %r" % (_arg(h["name"], h["txt"]), _arg(h["val"], h["txt"])) for h in scn["hdrs"])
    b = scn["body"]
    s = "Request(%r, %r, Headers{%s}, %s, persistent=%s)" % (bytes(scn["method"]), bytes(scn["target"]), hs,
                                                            "None" if not b else "%s-length %s producer writing %r" % (b["kind"], "sync" if b["sync"] else "async", [bytes(c[:16]) for c in b["chunks"]]),
                                                            scn["cfg"]["persistent"])
    if scn.get("assign"):
        s += "; .method=%r; .uri=%r" % (bytes(scn["assign"]["method"]), bytes(scn["assign"]["target"]))
    return s + "; writeTo()"


def _unsafe(seq):
    return any(b in (0, 10, 13) for b in seq)


def mutate(t, rng):
    ev = t["ev"]
    if ev[-1]["e"] != "done" or ev[-1]["res"] != "ok":
        return None
    r = rng.random()
    if r < 0.2:
        ev[-1]["out"] = ev[-1]["out"] + [120]                  # an octet that was not written
    elif r < 0.4:
        w = next((e for e in ev if e.get("out")), None)         # first octets that reached the transport
        if w is None:
            return None
        w["out"][0] = 32                                        # request line broken
    elif r < 0.6:
        ps = [e for e in ev if e["e"] == "produce" and e["data"]]
        if not ps:
            return None
        rng.choice(ps)["data"][0] ^= 1                          # a body octet the client did not send
    elif r < 0.8:
        hs = [e for e in ev if e["e"] == "hdr" and e["res"] == "ok"]
        rng.choice(hs)["val"].append(121)                       # a header value that was not sent
    elif r < 0.9:
        c = [e for e in ev if e["e"] in ("construct", "assign")][-1]
        c["target"] = c["target"] + [47]                        # another target than the one written
    else:
        c = next(e for e in ev if e["e"] == "construct")
        c["res"] = "refused"                                    # a refusal that did not happen
    return t


def run(ctx):
    from harness.core import MachineryError
    from harness.adapters import c20_http as H
    r = ctx.mc("HttpReqWireMC", ctx.pick("HttpReqWireMC.cfg", "HttpReqWireMC.thorough.cfg"), coverage=False)
    if not r.ok:
        raise MachineryError("HttpReqWire oracle inconsistent: " + r.error + "\n" + "\n".join(r.prints[-3:]))
    H.actions_from_prints(ctx, "HttpReqWireMC", r)
    ctx.require_actions("HttpReqWireMC", ["DoAddHeaderOk", "DoAddHeaderRefused", "DoConstructOk", "DoConstructRefused", "DoAssign",
                                          "DoWriteToOk", "DoWriteToRefused", "DoProduce", "DoDone"])
    n = ctx.mc("HttpReqWireMC", "HttpReqWireMCNeg.cfg", coverage=False, must_pass=False, label="negative control")
    if n.ok or n.kind != "invariant":
        raise MachineryError("negative control: OracleRejects not evaluated (%s)" % (n.error or "no violation"))

    classes = ["ALPHA", "CR", "LF", "NUL", "CTL", "WS", "OBS", "SEMI", "EQ", "COLON", "COMMA", "DQ", "PUNCT", "TPUNCT", "DIGIT"]
    scns = field_scns(ctx.rng, ctx.pick(2, 3), classes if not ctx.quick else classes[:9])
    ctx.exhaustive = True
    ctx.extra["exhaustive_rule"] = "every sequence of <= %d octet-class symbols in each of 6 argument positions (method, uri, assigned method, assigned uri, header name, header value), one position at a time" % ctx.pick(2, 3)
    ctx.extra["per_field_exhaustive_scenarios"] = len(scns)
    for _ in range(ctx.pick(600, 20000)):
        scns.append(random_scn(ctx.rng))
    traces = [run_scn(s) for s in scns]
    ctx.note_traces(traces)
    ctx.log("recorded %d real executions" % len(traces))
    rej = ctx.validate("HttpReqWireTrace", traces, shard_size=ctx.pick(800, 3000))
    ctx.log("%d executions rejected by TLC; attributing" % len(rej))
    bad = [scns[x.idx] for x in rej]
    for fp, what, scn in H.attribute(ctx, "HttpReqWireTrace", bad, run_scn, features, neutralise, fp_of, context_of, describe):
        ctx.violation(fp, "written request is not the intended request (HttpReqWire): " + what, scn)
    ridx = {x.idx for x in rej}
    good = [t for i, t in enumerate(traces) if i not in ridx and t["ev"][-1]["e"] == "done"]
    ctx.selftest_rejects("HttpReqWireTrace", good[-300:], mutate, n=24)


def replay(ctx, obj):
    t = run_scn(obj)
    ctx.note_trace(t)
    for x in ctx.validate("HttpReqWireTrace", [t]):
        fs = features(obj)
        fp = fp_of(obj, fs[0]) if len(fs) == 1 else ("plain:" + context_of(obj) if not fs else "combo:" + "+".join(sorted({fp_of(obj, f) for f in fs})))
        ctx.violation(fp, "replayed scenario rejected at event %d: %s" % (x.reached, describe(obj)), obj)
    print(describe(obj))
    for e in t["ev"]:
        print(e["e"], e["res"], bytes(e.get("out", [])))
