"""X20 (extension, not a listed property) -- conch.ssh.connection.SSHConnection: the life cycle of channels.

Spec:     specs/SshChanLife.tla (design), SshChanLifeMC (exhaustive TLC), SshChanLifeTrace (trace validation).
Binding:  two real SSHConnection services joined by fake transports whose sendPacket() queues whole packets
          (one FIFO queue per direction; the harness chooses which direction delivers next).  Recording
          SSHChannel subclasses log channelOpen / openFailed / eofReceived / dataReceived / closeReceived /
          closed / request_* calls; request Deferreds log how they fire.  One event per application call or
          delivered packet, carrying every packet the acting side emitted (decoded), every callback in order,
          the return kind and any exception class.  TLC decides.
Reported under coverage.extra_modules of the nearest property (C36, which covers windows and close-after-flush).
"""
import struct

META = dict(
    id="X20", extension=True, nearest="C36",
    specs=["SshChanLife.tla", "SshChanLifeMC.tla", "SshChanLifeTrace.tla"],
    technique="TLA+ spec of SSHConnection's channel table (id allocation, local<->remote maps, open/confirm/fail, EOF, two-sided CLOSE, channel requests with want_reply, serviceStopped) + TLC exhaustive over both sides' calls and all delivery interleavings + TLC trace validation of real SSHConnection pairs (state-hashed exhaustive short histories and seeded random long ones)",
    level_text="extension module: grows the specification beyond the listed properties",
    level_note="not a listed property; alarms are reported as EXTRA-ALARM, never as VIOLATION. Trusted: TLC; the adapter's decoding of connection-layer packets and the channel identification from the sender-channel field of CHANNEL_OPEN / OPEN_CONFIRMATION. Packets are whole and FIFO per direction (transport layer = C35); both peers are twisted (no forged packets); channelOpen() of the accepting side does not raise; nothing is buffered when loseConnection() is called (flow control = C36); no calls into a stopped service except on its channel objects.",
    design_ref="4 (extensions)",
    rule="history = sequence of openChannel(type) / sendEOF / write / loseConnection / sendRequest(kind, want_reply) / fire-deferred-request / serviceStopped calls on either side and single-packet deliveries in either direction; distinct = hash of (cfg, events); non-trivial = at least two different event kinds",
)

MSG = {90: "OPEN", 91: "CONF", 92: "FAIL", 93: "ADJ", 94: "DATA", 95: "EXT", 96: "EOF", 97: "CLOSE", 98: "REQ", 99: "SUCC", 100: "FAILR"}
REQS = ("ok", "no", "none", "defer")


def _ns(b):
    (n,) = struct.unpack(">L", b[:4])
    return b[4:4 + n], b[4 + n:]


def absmsg(mtype, p):
    """Decode one connection-layer packet into the spec's message record (uniformly typed fields)."""
    t = MSG.get(mtype, "MSG%d" % mtype)
    ch, x, k = 0, 0, ""
    try:
        if t == "OPEN":
            name, rest = _ns(p)
            ch = struct.unpack(">L", rest[:4])[0]
            k = name.decode("ascii", "replace")
        elif t == "CONF":
            ch, x = struct.unpack(">2L", p[:8])
        elif t == "FAIL":
            ch, x = struct.unpack(">2L", p[:8])
        elif t == "ADJ":
            ch, x = struct.unpack(">2L", p[:8])
        elif t == "DATA":
            ch = struct.unpack(">L", p[:4])[0]
            data, _ = _ns(p[4:])
            x = data[0] if len(data) == 1 else 1000 + len(data)
        elif t == "REQ":
            ch = struct.unpack(">L", p[:4])[0]
            name, rest = _ns(p[4:])
            k = name.decode("ascii", "replace")
            x = 1 if rest[0:1] != b"\0" else 0
        elif t in ("EOF", "CLOSE", "SUCC", "FAILR", "EXT"):
            ch = struct.unpack(">L", p[:4])[0]
    except Exception:
        t = "BAD" + t
    return {"t": t, "ch": ch, "x": x, "k": k}


class World:
    """Two SSHConnection services (sides 1, 2), FIFO packet queues, recording channels."""

    def __init__(self, cfg):
        from twisted.conch import error
        from twisted.conch.ssh import channel, connection
        from twisted.internet import defer
        from twisted.logger import Logger

        quiet = Logger(observer=lambda event: None)      # the code logs every refused open as a failure: keep stderr clean
        self.cfg = cfg
        self.ev = []
        self.ops = []
        self.q = {1: [], 2: []}            # q[i] = raw packets in flight TO side i
        self.objs = {1: [], 2: []}         # channel objects in creation order per side
        self.wire = {}                     # id(obj) -> local id as seen on the wire
        self.stopped = {1: False, 2: False}
        self.ndef = {1: 0, 2: 0}
        self.cur_sent = []
        self.cur_cb = []
        self.created = []
        self.napp = dict(open=0, eof=0, wr=0, req=0)
        world = self

        class Inner:
            def logPrefix(self):
                return "fake"

        class Transport:
            def __init__(self, me):
                self.me = me
                self.transport = Inner()

            def sendPacket(self, mtype, payload):
                world.q[3 - self.me].append((mtype, payload))
                world.cur_sent.append(absmsg(mtype, payload))

            def sendUnimplemented(self):
                world.cur_sent.append({"t": "UNIMPL", "ch": 0, "x": 0, "k": ""})

        class Chan(channel.SSHChannel):
            _log = quiet

            def __init__(self, side, name, **kw):
                channel.SSHChannel.__init__(self, **kw)
                self.side = side
                self.name = name
                self.pending = []          # Deferreds returned by request_defer, not yet fired
                self.seen_open = False
                world.objs[side].append(self)

            def channelOpen(self, data):
                self.seen_open = True
                world.cur_cb.append(("channelOpen", self, 0))

            def openFailed(self, reason):
                code = reason.data if isinstance(reason, error.ConchError) and isinstance(reason.data, int) else 99
                world.cur_cb.append(("openFailed", self, code))

            def eofReceived(self):
                world.cur_cb.append(("eof", self, 0))

            def dataReceived(self, data):
                world.cur_cb.append(("data", self, data[0] if len(data) == 1 else 1000 + len(data)))

            def extReceived(self, t, data):
                world.cur_cb.append(("ext", self, t))

            def closeReceived(self):
                world.cur_cb.append(("closeReceived", self, 0))
                if world.cfg["auto"][self.side - 1]:
                    channel.SSHChannel.closeReceived(self)      # the default: loseConnection()

            def closed(self):
                world.cur_cb.append(("closed", self, 0))

            def request_ok(self, data):
                world.cur_cb.append(("req_ok", self, 0))
                return True

            def request_no(self, data):
                world.cur_cb.append(("req_no", self, 0))
                return False

            def request_defer(self, data):
                world.cur_cb.append(("req_defer", self, 0))
                d = defer.Deferred()
                self.pending.append(d)
                return d

        class Conn(connection.SSHConnection):
            side = 0
            _log = quiet

            def channel_ok(self, windowSize, maxPacket, data):
                c = Chan(self.side, b"ok", remoteWindow=windowSize, remoteMaxPacket=maxPacket)
                world.created.append(c)
                return c

        self.Chan = Chan
        self.conn = {}
        for i in (1, 2):
            c = Conn()
            c.side = i
            c.transport = Transport(i)
            c.serviceStarted()
            self.conn[i] = c

    # ---- one event
    def _cid(self, obj):
        return self.wire.get(id(obj), 999)

    def _event(self, e, side, fn, **fields):
        del self.cur_sent[:], self.cur_cb[:], self.created[:]
        exc = ""
        ret = None
        try:
            ret = fn()
        except Exception as x:       # noqa: the class name is the observation
            exc = type(x).__name__
        # channel objects are identified by the ids the side itself put on the wire
        for m in self.cur_sent:
            if m["t"] == "CONF" and self.created:
                self.wire.setdefault(id(self.created.pop(0)), m["x"])
        ev = {"e": e, "s": side}
        ev.update(fields)
        ev["sent"] = [dict(m) for m in self.cur_sent]
        ev["cb"] = [[n, (o if isinstance(o, int) else self._cid(o)), a] for n, o, a in self.cur_cb]
        ev["exc"] = exc
        self.ev.append(ev)
        return ret, ev

    def _watch(self, side, d):
        self.ndef[side] += 1
        n = self.ndef[side]

        def ok(r):
            self.cur_cb.append(("d_ok", n, 0))

        def err(f):
            v = getattr(f.value, "value", None)
            self.cur_cb.append(("d_closed" if v == "Channel closed." else "d_fail", n, 0))
        d.addCallbacks(ok, err)

    # ---- operations (return False when not applicable in the current real state)
    def apply(self, op):
        from twisted.internet import defer

        k, s = op[0], op[1]
        if k == "open":
            if self.stopped[s]:
                return False
            ch = self.Chan(s, op[2].encode("ascii"), conn=self.conn[s])
            _, ev = self._event("open", s, lambda: self.conn[s].openChannel(ch), k=op[2])
            for m in ev["sent"]:
                if m["t"] == "OPEN":
                    self.wire.setdefault(id(ch), m["ch"])
            self.napp["open"] += 1
        elif k == "deliver":
            if self.stopped[s] or not self.q[s]:
                return False
            pkt = self.q[s].pop(0)
            self._event("deliver", s, lambda: self.conn[s].packetReceived(*pkt), m=absmsg(*pkt))
        elif k == "stop":
            if self.stopped[s]:
                return False
            self.stopped[s] = True
            self._event("stop", s, self.conn[s].serviceStopped)
        else:
            if op[2] >= len(self.objs[s]):
                return False
            ch = self.objs[s][op[2]]
            c = self._cid(ch)
            if k == "eof":
                self._event("eof", s, lambda: self.conn[s].sendEOF(ch), c=c)
                self.napp["eof"] += 1
            elif k == "write":
                if not ch.seen_open:
                    return False
                self.napp["wr"] += 1
                b = bytes([self._nwritten() + 1])
                self._event("write", s, lambda: ch.write(b), c=c)
            elif k == "close":
                self._event("close", s, ch.loseConnection, c=c)
            elif k == "request":
                ret, ev = self._event("request", s, lambda: self.conn[s].sendRequest(ch, op[3].encode("ascii"), b"", wantReply=op[4]), c=c, k=op[3], w=op[4])
                if isinstance(ret, defer.Deferred):
                    self._watch(s, ret)
                    ev["ret"] = "deferred"
                else:
                    ev["ret"] = "" if ev["exc"] else ("none" if ret is None else "other")
                self.napp["req"] += 1
            elif k == "resolve":
                i, ok = op[3], op[4]
                if i < 1 or i > len(ch.pending):
                    return False
                d = ch.pending.pop(i - 1)
                errs = []

                def fire():
                    d.callback(bool(ok))
                    d.addErrback(lambda f: errs.append(type(f.value).__name__))     # what the application finds in its Deferred
                _, ev = self._event("resolve", s, fire, c=c, i=i, ok=ok)
                ev["err"] = errs[0] if errs else ""
            else:
                raise ValueError(op)
        self.ops.append(list(op))
        return True

    def _nwritten(self):
        return sum(1 for e in self.ev if e["e"] == "write" and e["sent"])

    def trace(self):
        return {"cfg": self.cfg, "ops": [list(o) for o in self.ops], "ev": [dict(e) for e in self.ev]}

    def key(self):
        """State hash for the exhaustive exploration (pruning only, never a verdict)."""
        out = [tuple(self.stopped.values()), tuple(sorted(self.napp.items())), tuple(tuple(self.q[i]) for i in (1, 2)), tuple(self.ndef.values())]
        for i in (1, 2):
            c = self.conn[i]
            out.append((c.localChannelID, tuple(sorted(c.channels)), tuple(sorted(c.localToRemoteChannel.items())),
                        tuple(sorted((k, len(v)) for k, v in c.deferreds.items() if k != "global")),
                        tuple((bool(o.localClosed), bool(o.remoteClosed), bool(o.closing), o.seen_open, len(o.pending), o in c.channelsToRemoteChannel) for o in self.objs[i])))
        return tuple(out)


def run_ops(cfg, ops):
    w = World(cfg)
    for op in ops:
        w.apply(tuple(op))
    return w


def app_moves(w, lim):
    """Application calls offered at a node of the exhaustive exploration (decided from what the harness saw)."""
    mv = []
    if w.napp["open"] < lim["open"]:
        mv += [("open", s, k) for s in (1, 2) for k in ("ok", "bad") if not w.stopped[s]]
    for s in (1, 2):
        for i, o in enumerate(w.objs[s]):
            mv.append(("close", s, i))
            if o.seen_open:
                if w.napp["eof"] < lim["eof"]:
                    mv.append(("eof", s, i))
                if w.napp["wr"] < lim["wr"]:
                    mv.append(("write", s, i))
                if w.napp["req"] < lim["req"]:
                    mv += [("request", s, i, k, wr) for k, wr in (("ok", 1), ("defer", 1), ("none", 0))]
            elif w.napp["req"] < lim["req"]:
                mv.append(("request", s, i, "ok", 1))
            if o.pending:
                mv += [("resolve", s, i, 1, 1), ("resolve", s, i, len(o.pending), 0)]
        if not w.stopped[s]:
            mv.append(("stop", s))
    return mv


def explore(cfg, maxapp, lim, max_traces=None):
    """All histories of <= maxapp application calls interleaved with all single-packet deliveries, on the real
    objects, pruned by hashing the reached state; returns the maximal paths."""
    seen = set()
    traces = []
    stats = {"states": 0, "edges": 0, "truncated": False}

    def rec(ops, napp):
        if max_traces is not None and len(traces) >= max_traces:
            stats["truncated"] = True
            return
        w = run_ops(cfg, ops)
        k = (napp,) + w.key()
        nxt = []
        if k not in seen:
            seen.add(k)
            stats["states"] += 1
            if napp < maxapp:
                nxt += [(m, 1) for m in app_moves(w, lim)]
            nxt += [(("deliver", s), 0) for s in (1, 2) if w.q[s] and not w.stopped[s]]
        if not nxt:
            traces.append(w.trace())
            return
        for op, c in nxt:
            stats["edges"] += 1
            rec(ops + [op], napp + c)

    rec([], 0)
    return traces, stats


def random_history(rng, cfg, nops):
    w = World(cfg)
    maxopen = rng.choice((1, 2, 2, 3, 4))
    for _ in range(nops):
        r = rng.random()
        live = [s for s in (1, 2) if w.q[s] and not w.stopped[s]]
        if live and r < 0.45:
            w.apply(("deliver", rng.choice(live)))
            continue
        s = rng.choice((1, 2))
        n = len(w.objs[s])
        i = rng.randrange(n) if n else 0
        r = rng.random()
        if r < 0.16 or not n:
            if w.napp["open"] < maxopen:
                w.apply(("open", s, rng.choice(("ok", "ok", "ok", "bad"))))
        elif r < 0.38:
            w.apply(("request", s, i, rng.choice(REQS + ("defer", "ok")), rng.choice((1, 1, 0))))
        elif r < 0.50:
            np_ = len(w.objs[s][i].pending)
            if np_:
                w.apply(("resolve", s, i, rng.randint(1, np_), rng.choice((0, 1))))
        elif r < 0.60:
            w.apply(("eof", s, i))
        elif r < 0.72:
            if w._nwritten() < 200:
                w.apply(("write", s, i))
        elif r < 0.93:
            w.apply(("close", s, i))
        elif r < 0.97:
            w.apply(("stop", s))
    # run down: deliver what is in flight, fire what is pending, sometimes stop
    for _ in range(200):
        live = [s for s in (1, 2) if w.q[s] and not w.stopped[s]]
        if live:
            w.apply(("deliver", rng.choice(live)))
            continue
        pend = [(s, i) for s in (1, 2) for i, o in enumerate(w.objs[s]) if o.pending]
        if pend and rng.random() < 0.8:
            s, i = rng.choice(pend)
            w.apply(("resolve", s, i, 1, rng.choice((0, 1))))
            continue
        break
    for s in (1, 2):
        if rng.random() < 0.5:
            w.apply(("stop", s))
    return w.trace()


def mutate(t, rng):
    """Corrupt one logged field / drop one event (binding self-test)."""
    evs = t["ev"]
    c = rng.randrange(5)
    if c == 0:
        cand = [e for e in evs if e["cb"]]
        if cand:
            rng.choice(cand)["cb"].pop()                           # a callback goes missing
            return t
    if c == 1:
        cand = [e for e in evs if any(x[0] == "closed" for x in e["cb"])]
        if cand:
            e = rng.choice(cand)
            e["cb"].append([x for x in e["cb"] if x[0] == "closed"][0])   # closed() twice
            return t
    if c == 2:
        cand = [e for e in evs if e["sent"]]
        if cand:
            m = rng.choice(cand)["sent"][0]
            m["ch"] += 1                                           # packet addressed to another channel
            return t
    if c == 3:
        cand = [i for i, e in enumerate(evs) if e["e"] == "deliver" and e["m"]["t"] in ("CLOSE", "CONF")
                and any(f["e"] == "deliver" and f["s"] == e["s"] for f in evs[i + 1:])]
        if cand:
            del evs[rng.choice(cand)]                              # a delivery is not recorded (a later one shows the gap)
            return t
    cand = [e for e in evs if e["e"] == "request"]
    if cand:
        e = rng.choice(cand)
        e["ret"] = "none" if e["ret"] == "deferred" else "deferred"
        return t
    return None


ACTIONS = ["MCOpen", "DeliverOpen", "DeliverConf", "DeliverFail", "DeliverEofData", "DeliverClose", "DeliverReq",
           "DeliverReply", "MCEof", "MCWrite", "Close", "MCRequest", "Resolve", "Stop"]
CFGS = ([True, True], [True, False], [False, True], [False, False])


def fingerprint(t, at):
    e = t["ev"][at] if at < len(t["ev"]) else {}
    return "sshchan/%s/%s" % (e.get("e", "end"), (e.get("m") or {}).get("t", "") or e.get("exc", ""))


def report(ctx, traces, rej, what):
    for x in rej[:12]:
        t = traces[x.idx]
        e = t["ev"][x.reached] if x.reached < len(t["ev"]) else None
        ctx.violation(fingerprint(t, x.reached),
                      "%s: real SSHConnection pair (auto-close %s) not explained by SshChanLife.tla at event %d: %s"
                      % (what, t["cfg"]["auto"], x.reached, e), dict(cfg=t["cfg"], ops=t["ops"], rejected_at=x.reached))


def run(ctx):
    from harness.core import MachineryError

    # (a) the design: exhaustive TLC.  Two channels / shallow (with coverage = vacuity guard), one channel / deep.
    ctx.mc("SshChanLifeMC", ctx.pick("SshChanLifeMC.two.cfg", "SshChanLifeMC.two.thorough.cfg"), label="two channels")
    ctx.require_actions("SshChanLifeMC", ACTIONS)
    ctx.mc("SshChanLifeMC", ctx.pick("SshChanLifeMC.cfg", "SshChanLifeMC.thorough.cfg"), coverage=False, label="one channel, deep")

    # (b) code -> spec: exhaustive short histories on the real pair (state-hashed), then seeded random long ones
    traces = []
    st_all = dict(states=0, edges=0, truncated=False)
    lim = dict(open=2, eof=1, wr=1, req=1)
    plan = ctx.pick([(CFGS[0], 3), (CFGS[1], 3)], [(CFGS[0], 4), (CFGS[1], 4), (CFGS[2], 3), (CFGS[3], 3)])
    for auto, maxapp in plan:
        ts, st = explore({"auto": list(auto)}, maxapp, lim, max_traces=60000)
        traces += ts
        st_all["states"] += st["states"]
        st_all["edges"] += st["edges"]
        st_all["truncated"] = st_all["truncated"] or st["truncated"]
    nex = len(traces)
    ctx.exhaustive = not st_all["truncated"]
    ctx.extra["exhaustive_real"] = dict(plan=[[list(a), m] for a, m in plan], limits=lim, maximal_paths=nex, **st_all)
    ctx.log("exhaustive histories on the real pair: %d maximal paths (%d states, %d edges%s)"
            % (nex, st_all["states"], st_all["edges"], ", TRUNCATED" if st_all["truncated"] else ""))
    for _ in range(ctx.pick(800, 15000)):
        cfg = {"auto": list(ctx.rng.choice(CFGS))}
        traces.append(random_history(ctx.rng, cfg, ctx.rng.randint(4, 45)))
    ctx.note_traces(traces)
    ctx.log("recorded %d real executions (%d events)" % (len(traces), sum(len(t["ev"]) for t in traces)))
    rej = ctx.validate("SshChanLifeTrace", traces, shard_size=ctx.pick(1500, 4000))
    report(ctx, traces, rej, "history")

    # (c) binding self-test
    bad = {x.idx for x in rej}
    good = [t for i, t in enumerate(traces) if i not in bad and i >= nex and len(t["ev"]) >= 8]
    if not good:
        raise MachineryError("no accepted trace to run the binding self-test on")
    ctx.selftest_rejects("SshChanLifeTrace", good[:300], mutate, n=20)


def replay(ctx, obj):
    w = run_ops(obj["cfg"], obj["ops"])
    t = w.trace()
    ctx.note_trace(t)
    for e in t["ev"]:
        print(e)
    rej = ctx.validate("SshChanLifeTrace", [t])
    report(ctx, [t], rej, "replayed history")
