"""C43 -- IRC messages are split within the length limit without losing content; quoting round-trips.

Spec:     specs/IrcSplit.tla -- the property as a relation between (command, target, text, limit) and the
          octets written (no algorithm), plus reference CTCP / low-level quoting.  IrcSplitMC: exhaustive TLC
          (two octet-counting splitters meet the relation; a character-counting one does not -- those inputs
          are replayed on the real client; quoting round trip).  IrcSplitTrace: trace validation.
Binding:  real IRCClient.msg / notice on a StringTransport (the octets written are logged raw), real
          ctcpQuote/ctcpDequote and lowQuote/lowDequote.  TLC decides every run.
"""
import itertools

META = dict(
    id="C43",
    specs=["IrcSplit.tla", "IrcSplitMC.tla", "IrcSplitTrace.tla"],
    technique="TLA+ relation between text, octet limit and emitted lines over 1/2/3/4-octet character classes and SP/TAB/LF/CR (TLC exhaustive: satisfiable by two octet-counting splitters, violated by a character-counting one; quoting round trip for all short texts); TLC trace validation of real IRCClient.msg/notice output octets and real ctcp/low quote-dequote runs (exhaustive short texts x limits, random long texts)",
    level_text="TLC checks on the specification that the splitting relation (every line within the octet limit including CRLF, no CR/LF inside, framing intact, message parts concatenate to the text's non-whitespace characters) is satisfiable and discriminating and that the reference quoting round-trips, and decides for every recorded run of the real IRCClient.msg/notice and the real quoting functions whether it satisfies the relation.",
    level_note="Trusted: TLC, StringTransport capturing the octets written. Whitespace = ASCII whitespace (SP, TAB, LF, CR, VT, FF); text characters are drawn from printable ASCII and non-whitespace, non-control multi-octet code points; characters expanded by low-level quoting (NUL, \\x10) are outside the message alphabet. length=None (the client's own estimate) is not decided. Texts longer than the enumerated length are sampled.",
    design_ref="2.6 C43",
    rule="case = (msg|notice, target, text, limit) or (quoting level, text); distinct = hash of the trace; non-trivial = text has a multi-octet or whitespace character (split) / a character the quoting level must escape (quote)",
)

SPC, TAB, LF, CR = 32, 9, 10, 13
CLASS_ALPHA = [97, 233, 0x20AC, 0x1F600, SPC, TAB, LF, CR]
A1 = [97, 33, 126, 45, 58, 65, 48, 46]
A2 = [0xE9, 0xA1, 0x7FF, 0x100, 0x3A9]
A3 = [0x800, 0x20AC, 0xFFFD, 0x4E2D]
A4 = [0x10000, 0x1F600, 0x10FFFF]
LOW_ALPHA = [16, 0, 10, 13, 48, 110, 114, 120]
CTCP_ALPHA = [92, 1, 97, 120]


def ccls(c):
    if c in (SPC, TAB, LF, CR, 11, 12):
        return {SPC: "SP", TAB: "TAB", LF: "LF", CR: "CR", 11: "VT", 12: "FF"}[c]
    return "A1" if c < 128 else "A2" if c < 2048 else "A3" if c < 65536 else "A4"


def overhead(kind, user):
    return len(("PRIVMSG" if kind == "msg" else "NOTICE").encode()) + 1 + len("".join(map(chr, user)).encode("utf-8")) + 2 + 2


def run_send(kind, user, limit, text):
    from twisted.words.protocols import irc
    try:
        from twisted.internet.testing import StringTransport
    except ImportError:  # older layout
        from twisted.test.proto_helpers import StringTransport

    c = irc.IRCClient()
    c.performLogin = False
    tr = StringTransport()
    c.makeConnection(tr)
    tr.clear()
    exc = ""
    try:
        (c.msg if kind == "msg" else c.notice)("".join(map(chr, user)), "".join(map(chr, text)), limit)
    except Exception as e:
        exc = type(e).__name__
    cfg = dict(mode="split", kind=kind, user=list(user), limit=limit)
    return {"cfg": cfg, "ev": [{"e": "send", "text": list(text), "stream": list(tr.value()), "exc": exc}]}


def run_quote(level, text):
    from twisted.words.protocols import irc

    t = "".join(map(chr, text))
    cfg = dict(mode=level, kind="msg", user=[], limit=0)
    try:
        if level == "low":
            q = irc.lowQuote(t)
            back = irc.lowDequote(q)
        else:
            q = irc.ctcpQuote(t)
            back = irc.ctcpDequote(q)
        ev = {"e": "quote", "text": list(text), "q": [ord(ch) for ch in q], "back": [ord(ch) for ch in back], "exc": ""}
    except Exception as e:
        ev = {"e": "quote", "text": list(text), "q": [], "back": [], "exc": type(e).__name__}
    return {"cfg": cfg, "ev": [ev]}


def texts_upto(alpha, L):
    for n in range(L + 1):
        for t in itertools.product(alpha, repeat=n):
            yield list(t)


def random_text(rng):
    r = rng.random()
    n = rng.randint(0, 40)
    out = []
    for _ in range(n):
        x = rng.random()
        if x < 0.15:
            out.append(rng.choice([SPC, SPC, SPC, TAB, LF, CR]))
        elif r < 0.3:
            out.append(rng.choice(A1))                      # pure ASCII texts
        elif x < 0.55:
            out.append(rng.choice(A1))
        elif x < 0.75:
            out.append(rng.choice(A2))
        elif x < 0.9:
            out.append(rng.choice(A3))
        else:
            out.append(rng.choice(A4))
    if rng.random() < 0.3:      # a long word
        w = [rng.choice(A1 + A2 + A4) for _ in range(rng.randint(10, 30))]
        k = rng.randint(0, len(out))
        out[k:k] = w
    return out


def mutate(t, rng):
    e = t["ev"][0]
    if e["e"] == "send":
        if e["exc"] or not e["stream"]:
            return None
        r = rng.random()
        s = e["stream"]
        if r < 0.3:
            k = rng.randrange(len(s))
            if s[k] in (10, 13, 32):
                return None
            del s[k]                         # lost octet
        elif r < 0.55:
            t["cfg"]["limit"] = max(len(x) for x in bytes(s).split(b"\n")) - 0   # longest line is now one over (line + LF = len+1)
        elif r < 0.8:
            s[-2:] = [10]                    # bare LF terminator
        else:
            s.insert(len(s) - 2, 13)         # CR inside the line
    else:
        if e["exc"]:
            return None
        e["back"] = e["back"] + [120]
    return t


def clsstr(text, cap=24):
    s = [ccls(c) for c in text]
    return ",".join(s[:cap]) + ("..." if len(s) > cap else "")


def variants(kind, user, limit, text):
    # ddmin-style: delete big chunks first, then smaller ones, then single characters; finally lower the limit
    out, seen = [], set()
    n = len(text)
    size = max(n // 2, 1)
    while n and size >= 1:
        for start in range(0, n, size):
            t = text[:start] + text[start + size:]
            if tuple(t) not in seen:
                seen.add(tuple(t))
                out.append((limit, t))
        if size == 1:
            break
        size //= 2
    if limit - overhead(kind, user) > 1:
        out.append((limit - 1, text))
    return out


def report(ctx, traces, rej):
    """Classify every TLC-rejected run (TLC decides each classification step too)."""
    rejected = [traces[x.idx] for x in rej]
    sends = [t for t in rejected if t["cfg"]["mode"] == "split"]
    quotes = [t for t in rejected if t["cfg"]["mode"] != "split"]
    for t in quotes:
        e = t["ev"][0]
        names = {16: "MQUOTE", 0: "NUL", 10: "LF", 13: "CR", 92: "XQUOTE", 1: "XDELIM"}
        special = sorted({names[c] for c in e["text"] if c in names})
        ctx.violation("quote-roundtrip/%s/special-characters-in-text=%s" % (t["cfg"]["mode"], "+".join(special) or "none"),
                      "%sDequote(%sQuote(%r)) = %r (quoted: %r, exc %r)" % (t["cfg"]["mode"], t["cfg"]["mode"], e["text"], e["back"], e["q"], e["exc"]),
                      dict(kind="quote", level=t["cfg"]["mode"], text=e["text"]))
    if not sends:
        return
    # 1. which clause: is the run accepted once the octet-limit clause is dropped?
    r_nolen = {x.idx for x in ctx.validate("IrcSplitTrace", sends, cfg="IrcSplitTraceNoLen.cfg", count=False, shard_size=3000)}
    # 2. the same call with every multi-octet character replaced by an ASCII letter (same number of characters)
    ascii_runs = []
    for t in sends:
        c, e = t["cfg"], t["ev"][0]
        ascii_runs.append(run_send(c["kind"], c["user"], c["limit"], [ch if ch < 128 else 97 for ch in e["text"]]))
    r_ascii = {x.idx for x in ctx.validate("IrcSplitTrace", ascii_runs, count=False, shard_size=3000)}
    rest = []
    n_multi = 0
    for i, t in enumerate(sends):
        c, e = t["cfg"], t["ev"][0]
        multi = any(ch >= 128 for ch in e["text"])
        if i not in r_nolen and i not in r_ascii and multi and not e["exc"]:
            n_multi += 1
            longest = max((len(x) + 1 for x in bytes(e["stream"]).split(b"\n")[:-1]), default=0)
            ctx.violation("send/line-exceeds-octet-limit/only-with-multi-octet-characters",
                          "IRCClient.%s(%r, %r, length=%d) wrote a line of %d octets (> %d): %r" % (
                              c["kind"], "".join(map(chr, c["user"])), "".join(map(chr, e["text"])), c["limit"], longest, c["limit"], bytes(e["stream"])[:200]),
                          dict(kind="send", cmd=c["kind"], user=c["user"], limit=c["limit"], text=e["text"]))
        else:
            rest.append((t, i not in r_nolen))
    ctx.extra["rejected_runs_line_too_long_multi_octet_only"] = n_multi
    # 3. anything else: shrink by deleting characters / lowering the limit (lock-step, TLC decides), then report
    memo = {}

    def k(c, text):
        return (c["kind"], tuple(c["user"]), c["limit"], tuple(text))

    cur = {}
    for t, only_len in sorted(rest, key=lambda r: len(r[0]["ev"][0]["text"]))[:20]:
        c, e = t["cfg"], t["ev"][0]
        cur[k(c, e["text"])] = (c, e["text"], t)
    final = {}
    for _ in range(12):
        if not cur:
            break
        cand = {}
        for kk, (c, text, t) in cur.items():
            vs = []
            for lim, tx in variants(c["kind"], c["user"], c["limit"], text)[:150]:
                c2 = dict(c, limit=lim)
                k2 = k(c2, tx)
                if k2 not in memo and k2 not in cand:
                    cand[k2] = run_send(c2["kind"], c2["user"], lim, tx)
        if cand:
            ts = list(cand.values())
            bad = {x.idx for x in ctx.validate("IrcSplitTrace", ts, count=False, shard_size=3000)}
            for j, (k2, tr) in enumerate(cand.items()):
                memo[k2] = (j in bad, tr)
        nxt = {}
        for kk, (c, text, t) in cur.items():
            hit = None
            for lim, tx in variants(c["kind"], c["user"], c["limit"], text)[:150]:
                k2 = k(dict(c, limit=lim), tx)
                if memo.get(k2, (False,))[0]:
                    hit = (dict(c, limit=lim), tx, memo[k2][1])
                    break
            if hit is None:
                final[kk] = (c, text, t)
            else:
                nxt[k(hit[0], hit[1])] = hit
        cur = nxt
    final.update(cur)
    for kk, (c, text, t) in final.items():
        e = t["ev"][0]
        avail = c["limit"] - overhead(c["kind"], c["user"])
        ctx.violation("send/%s/min-text-classes=%s/avail=%d" % ("exception:" + e["exc"] if e["exc"] else "relation", clsstr(text) or "empty", avail),
                      "IRCClient.%s(%r, %r, length=%d) wrote %r exc=%r" % (c["kind"], "".join(map(chr, c["user"])), "".join(map(chr, text)), c["limit"], bytes(e["stream"])[:300], e["exc"]),
                      dict(kind="send", cmd=c["kind"], user=c["user"], limit=c["limit"], text=text))
    if len(rest) > 20:
        ctx.extra["rejected_runs_not_shrunk"] = len(rest) - 20


def nontrivial(t):
    e = t["ev"][0]
    if e["e"] == "send":
        return any(ch >= 128 or ch in (SPC, TAB, LF, CR) for ch in e["text"])
    return any(ch in (16, 0, 10, 13, 92, 1) for ch in e["text"])


def run(ctx):
    from harness.core import MachineryError, extract_printed
    import json

    r = ctx.mc("IrcSplitMC", ctx.pick("IrcSplitMC.cfg", "IrcSplitMC.thorough.cfg"), label="relation satisfiable: two octet-counting splitters")
    if not r.ok:
        raise MachineryError("IrcSplit: the spec's own splitters violate the relation: " + r.error)
    rq = ctx.mc("IrcSplitMC", ctx.pick("IrcSplitQuote.cfg", "IrcSplitQuote.thorough.cfg"), label="reference quoting round trip")
    if not rq.ok:
        raise MachineryError("IrcSplit: reference quoting does not round-trip: " + rq.error)
    rc = ctx.mc("IrcSplitMC", ctx.pick("IrcSplitChars.cfg", "IrcSplitChars.thorough.cfg"), label="control: character-counting splitter (violations printed)")
    if not rc.ok:
        raise MachineryError("IrcSplit control run failed: " + rc.error)
    ctx.require_actions("IrcSplitMC", ["ExtendAny", "SendPack", "SendWords", "SendRefuse", "SendCharCount", "DoQuote"])
    cex = [json.loads(j) for j in sorted({v[1] for v in extract_printed(rc.out, "CEX")})]   # sorted: TLC workers print in any order
    if not cex:
        raise MachineryError("vacuity: the relation accepts the character-counting control splitter everywhere")
    ctx.extra["control_violations_found_by_tlc"] = len(cex)

    traces = []
    # (1) exhaustive: every short text over the class alphabet x every limit leaving 0..5 octets for the message part
    L = ctx.pick(3, 4)
    user = [117]
    for kind in ctx.pick(["msg"], ["msg", "notice"]):
        for avail in ctx.pick([0, 1, 2, 4], [0, 1, 2, 3, 4, 5, 7]):
            for text in texts_upto(CLASS_ALPHA, L):
                traces.append(run_send(kind, user, overhead(kind, user) + avail, text))
    ctx.exhaustive = True
    ctx.extra["exhaustive_text_len"] = L
    nex = len(traces)
    # (2) spec -> code: inputs on which TLC found the character-counting control to violate the relation
    seen = set()
    for b in cex[:: max(1, len(cex) // ctx.pick(600, 5000))]:
        kk = (b["kind"], b["limit"], tuple(b["text"]))
        if kk not in seen:
            seen.add(kk)
            traces.append(run_send(b["kind"], b["user"], b["limit"], b["text"]))
    ctx.extra["control_violations_replayed_on_real_client"] = len(seen)
    # (3) random long texts, random targets and limits
    for _ in range(ctx.pick(1200, 20000)):
        kind = ctx.rng.choice(["msg", "notice"])
        usr = [ord(ch) for ch in ctx.rng.choice(["u", "#chan", "nick123", "&x"])]
        oh = overhead(kind, usr)
        limit = oh + ctx.rng.choice([0, 1, 2, 3, 4, 5, 8, 13, 20, 40, 100, -1, 512 - oh])
        traces.append(run_send(kind, usr, limit, random_text(ctx.rng)))
    # (4) quoting: exhaustive short texts over the quoting alphabets + random
    LQ = ctx.pick(3, 4)
    for level, alpha in (("low", LOW_ALPHA), ("ctcp", CTCP_ALPHA)):
        for text in texts_upto(alpha, LQ if level == "low" else LQ + 1):
            traces.append(run_quote(level, text))
        for _ in range(ctx.pick(200, 5000)):
            traces.append(run_quote(level, [ctx.rng.choice(alpha + A2 + A4 + [32, 9]) for _ in range(ctx.rng.randint(0, 30))]))
    for t in traces:
        ctx.note_trace(t, nontrivial=nontrivial(t))
    ctx.log("recorded %d real executions (%d exhaustive sends)" % (len(traces), nex))

    rej = ctx.validate("IrcSplitTrace", traces, shard_size=ctx.pick(2000, 5000))
    ctx.log("%d of %d real executions rejected by TLC" % (len(rej), len(traces)))
    report(ctx, traces, rej)
    rejidx = {x.idx for x in rej}
    good = [t for i, t in enumerate(traces) if i not in rejidx]

    # diagnostic: real quoting vs the reference quoting (never a verdict)
    gq = [t for t in good if t["cfg"]["mode"] != "split"]
    rr = ctx.validate("IrcSplitTrace", gq[:: max(1, len(gq) // ctx.pick(600, 5000))], cfg="IrcSplitTraceRef.cfg", count=False)
    ctx.extra["real_quoting_vs_reference_mismatches"] = len(rr)
    ctx.impl_drift += len(rr)

    gs = [t for t in good if t["cfg"]["mode"] == "split" and t["ev"][0]["stream"]]
    ctx.selftest_rejects("IrcSplitTrace", gs[-200:] + gq[-100:], mutate, n=24)


def replay(ctx, obj):
    if obj.get("kind") == "quote":
        t = run_quote(obj["level"], obj["text"])
    else:
        t = run_send(obj["cmd"], obj["user"], obj["limit"], obj["text"])
    ctx.note_trace(t)
    rej = ctx.validate("IrcSplitTrace", [t])
    report(ctx, [t], rej)
    print(t["cfg"])
    for e in t["ev"]:
        print(e)
