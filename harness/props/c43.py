"""C43 -- IRC messages are split within the length limit without losing content; quoting round-trips.

Spec:     specs/IrcSplit.tla -- the property as a relation between (command, target, text, limit) and the
          octets written (no algorithm), plus reference CTCP / low-level quoting.  IrcSplitMC: exhaustive TLC
          (two octet-counting splitters meet the relation; a character-counting one does not -- those inputs
          are replayed on the real client; quoting round trip).  IrcSplitTrace: trace validation.
Binding:  real IRCClient.msg / notice on a StringTransport (the octets written are logged raw), real
          ctcpQuote/ctcpDequote and lowQuote/lowDequote.  TLC decides every run.
"""
import itertools

META = dict(
    id="C43",
    specs=["IrcSplit.tla", "IrcSplitMC.tla", "IrcSplitTrace.tla"],
    technique="TLA+ relation between text, octet limit and emitted lines over 1/2/3/4-octet character classes and SP/TAB/LF/CR (TLC exhaustive: satisfiable by two octet-counting splitters, violated by a character-counting one; quoting round trip for all short texts); TLC trace validation of real IRCClient.msg/notice output octets and real ctcp/low quote-dequote runs (exhaustive short texts x limits, random long texts)",
    level_text="TLC checks on the specification that the splitting relation (every line within the octet limit including CRLF, no CR/LF inside, framing intact, message parts concatenate to the text's non-whitespace characters) is satisfiable and discriminating and that the reference quoting round-trips, and decides for every recorded run of the real IRCClient.msg/notice and the real quoting functions whether it satisfies the relation.",
    level_note="Trusted: TLC, StringTransport capturing the octets written. Whitespace = ASCII whitespace (SP, TAB, LF, CR, VT, FF); text characters are drawn from printable ASCII and non-whitespace, non-control multi-octet code points; characters expanded by low-level quoting (NUL, \\x10) are outside the message alphabet. length=None (the client's own estimate) is not decided. Texts longer than the enumerated length are sampled.",
    design_ref="2.6 C43",
    rule="case = (msg|notice, target, text, limit) or (quoting level, text); distinct = hash of the trace; non-trivial = text has a multi-octet or whitespace character (split) / a character the quoting level must escape (quote)",
)

SPC, TAB, LF, CR = 32, 9, 10, 13
CLASS_ALPHA = [97, 233, 0x20AC, 0x1F600, SPC, TAB, LF, CR]
A1 = [97, 33, 126, 45, 58, 65, 48, 46]
A2 = [0xE9, 0xA1, 0x7FF, 0x100, 0x3A9]
A3 = [0x800, 0x20AC, 0xFFFD, 0x4E2D]
A4 = [0x10000, 0x1F600, 0x10FFFF]
LOW_ALPHA = [16, 0, 10, 13, 48, 110, 114, 120]
CTCP_ALPHA = [92, 1, 97, 120]


def ccls(c):
    if c in (SPC, TAB, LF, CR, 11, 12):
        return {SPC: "SP", TAB: "TAB", LF: "LF", CR: "CR", 11: "VT", 12: "FF"}[c]
    return "A1" if c < 128 else "A2" if c < 2048 else "A3" if c < 65536 else "A4"


def overhead(kind, user):
    return len(("PRIVMSG" if kind == "msg" else "NOTICE").encode()) + 1 + len("".join(map(chr, user)).encode("utf-8")) + 2 + 2


def run_send(kind, user, limit, text):
    from twisted.words.protocols import irc
    try:
        from twisted.internet.testing import StringTransport
    except ImportError:  # older layout
        from twisted.test.proto_helpers import StringTransport

    c = irc.IRCClient()
    c.performLogin = False
    tr = StringTransport()
    c.makeConnection(tr)
    tr.clear()
    exc = ""
    try:
        (c.msg if kind == "msg" else c.notice)("".join(map(chr, user)), "".join(map(chr, text)), limit)
    except Exception as e:
        exc = type(e).__name__
    cfg = dict(mode="split", kind=kind, user=list(user), limit=limit)
    return {"cfg": cfg, "ev": [{"e": "send", "text": list(text), "stream": list(tr.value()), "exc": exc}]}


def run_history(rate, ops):
    """Several msg/notice calls on ONE client.  rate = 0: lineRate None (lines written at once); rate > 0: lineRate
    set, the send queue's timer runs on a task.Clock installed as irc.reactor for the duration of the history.
    ops: ("send", kind, user, limit, text) | ("tick",).  The history ends by advancing the clock until no timer is
    pending ("drain").  Every event logs the octets that reached the transport during it."""
    from twisted.words.protocols import irc
    from twisted.internet import task
    try:
        from twisted.internet.testing import StringTransport
    except ImportError:
        from twisted.test.proto_helpers import StringTransport

    clock = task.Clock()
    saved = irc.reactor
    irc.reactor = clock
    ev = []
    try:
        c = irc.IRCClient()
        c.performLogin = False
        if rate:
            c.lineRate = rate
        tr = StringTransport()
        c.makeConnection(tr)
        tr.clear()

        def wrote():
            w = list(tr.value())
            tr.clear()
            return w

        for op in ops:
            if op[0] == "send":
                _, kind, user, limit, text = op
                exc = ""
                try:
                    (c.msg if kind == "msg" else c.notice)("".join(map(chr, user)), "".join(map(chr, text)), limit)
                except Exception as e:
                    exc = type(e).__name__
                ev.append({"e": "send", "kind": kind, "user": list(user), "limit": limit, "text": list(text), "exc": exc, "wrote": wrote()})
            else:
                exc = ""
                try:
                    clock.advance(rate or 1)
                except Exception as e:
                    exc = type(e).__name__
                ev.append({"e": "tick", "exc": exc, "wrote": wrote()})
        exc = ""
        n = 0
        try:
            while clock.getDelayedCalls():
                clock.advance(rate or 1)
                n += 1
                if n > 2000:
                    exc = "NoDrain"
                    break
        except Exception as e:
            exc = type(e).__name__
        ev.append({"e": "drain", "exc": exc, "wrote": wrote()})
    finally:
        irc.reactor = saved
    return {"cfg": dict(mode="hist", kind="msg", user=[], limit=0, rate=rate), "ops": [list(o) for o in ops], "ev": ev}


def random_history(rng, small=False):
    rate = rng.choice([0, 1, 1, 2])
    ops = []
    nmsg = rng.randint(1, 3) if small else rng.randint(1, 4)
    k = 0
    for i in range(nmsg):
        kind = rng.choice(["msg", "notice"])
        user = [ord(ch) for ch in rng.choice(["u", "#c", "nick", "&x"]) + str(i + 1)]
        oh = overhead(kind, user)
        if small:
            text = [rng.choice([97, 98, 99, 233, SPC, LF]) for _ in range(rng.randint(0, 6))]
            limit = oh + rng.choice([1, 2, 3])
        else:
            text = random_text(rng)
            limit = oh + rng.choice([1, 2, 3, 5, 8, 13, 20, 40, 100])
        ops.append(("send", kind, user, limit, text))
        for _ in range(rng.choice([0, 0, 1, 2, 3])):
            ops.append(("tick",))
    return rate, ops


def run_quote(level, text):
    from twisted.words.protocols import irc

    t = "".join(map(chr, text))
    cfg = dict(mode=level, kind="msg", user=[], limit=0)
    try:
        if level == "low":
            q = irc.lowQuote(t)
            back = irc.lowDequote(q)
        else:
            q = irc.ctcpQuote(t)
            back = irc.ctcpDequote(q)
        ev = {"e": "quote", "text": list(text), "q": [ord(ch) for ch in q], "back": [ord(ch) for ch in back], "exc": ""}
    except Exception as e:
        ev = {"e": "quote", "text": list(text), "q": [], "back": [], "exc": type(e).__name__}
    return {"cfg": cfg, "ev": [ev]}


def texts_upto(alpha, L):
    for n in range(L + 1):
        for t in itertools.product(alpha, repeat=n):
            yield list(t)


def random_text(rng):
    r = rng.random()
    n = rng.randint(0, 40)
    out = []
    for _ in range(n):
        x = rng.random()
        if x < 0.15:
            out.append(rng.choice([SPC, SPC, SPC, TAB, LF, CR]))
        elif r < 0.3:
            out.append(rng.choice(A1))                      # pure ASCII texts
        elif x < 0.55:
            out.append(rng.choice(A1))
        elif x < 0.75:
            out.append(rng.choice(A2))
        elif x < 0.9:
            out.append(rng.choice(A3))
        else:
            out.append(rng.choice(A4))
    if rng.random() < 0.3:      # a long word
        w = [rng.choice(A1 + A2 + A4) for _ in range(rng.randint(10, 30))]
        k = rng.randint(0, len(out))
        out[k:k] = w
    return out


def mutate(t, rng):
    if t["cfg"]["mode"] == "hist":
        evs = [e for e in t["ev"] if e["wrote"]]
        if not evs:
            return None
        r = rng.random()
        e = rng.choice(evs)
        lines = bytes(e["wrote"]).split(b"\n")[:-1]
        if r < 0.4:
            # two lines of the SAME message swapped (the order across messages is free)
            groups = {}
            for i, ln in enumerate(lines):
                groups.setdefault(ln.split(b" :", 1)[0], []).append(i)
            g = [ix for ix in groups.values() if len(ix) >= 2 and lines[ix[0]] != lines[ix[-1]]]
            if not g:
                return None
            i, j = g[0][0], g[0][-1]
            lines[i], lines[j] = lines[j], lines[i]
            e["wrote"] = list(b"".join(x + b"\n" for x in lines))
        elif r < 0.7:
            if not lines or not lines[-1].split(b" :", 1)[-1].strip():
                return None
            e["wrote"] = list(b"".join(x + b"\n" for x in lines[:-1]))     # last line lost
        else:
            del t["ev"][-1]                                     # the drain event dropped: nothing establishes completeness
            t["ev"].append({"e": "drain", "exc": "NoDrain", "wrote": []})
        return t
    e = t["ev"][0]
    if e["e"] == "send":
        if e["exc"] or not e["stream"]:
            return None
        r = rng.random()
        s = e["stream"]
        if r < 0.3:
            k = rng.randrange(len(s))
            if s[k] in (10, 13, 32):
                return None
            del s[k]                         # lost octet
        elif r < 0.55:
            t["cfg"]["limit"] = max(len(x) for x in bytes(s).split(b"\n")) - 0   # longest line is now one over (line + LF = len+1)
        elif r < 0.8:
            s[-2:] = [10]                    # bare LF terminator
        else:
            s.insert(len(s) - 2, 13)         # CR inside the line
    else:
        if e["exc"]:
            return None
        e["back"] = e["back"] + [120]
    return t


def clsstr(text, cap=24):
    s = [ccls(c) for c in text]
    return ",".join(s[:cap]) + ("..." if len(s) > cap else "")


def variants(kind, user, limit, text):
    # ddmin-style: delete big chunks first, then smaller ones, then single characters; finally lower the limit
    out, seen = [], set()
    n = len(text)
    size = max(n // 2, 1)
    while n and size >= 1:
        for start in range(0, n, size):
            t = text[:start] + text[start + size:]
            if tuple(t) not in seen:
                seen.add(tuple(t))
                out.append((limit, t))
        if size == 1:
            break
        size //= 2
    if limit - overhead(kind, user) > 1:
        out.append((limit - 1, text))
    return out


def _ops_of(t):
    return [tuple(o) for o in t["ops"]]


def _hsize(ops):
    return sum(len(o[4]) + 3 if o[0] == "send" else 1 for o in ops)


def hist_variants(rate, ops, cap=150):
    """Reductions of a history, biggest first: drop an op, delete chunks of a text, lineRate -> 1."""
    out = []
    for i in range(len(ops)):
        out.append((rate, ops[:i] + ops[i + 1:]))
    for i, o in enumerate(ops):
        if o[0] == "send":
            for lim, tx in variants(o[1], o[2], o[3], o[4])[:40]:
                out.append((rate, ops[:i] + [("send", o[1], o[2], lim, tx)] + ops[i + 1:]))
    if rate > 1:
        out.append((1, ops))
    return out[:cap]


def report_hist(ctx, hists):
    """Rejected histories (several messages, optional rate-limited queue): classify, shrink, report."""
    import json
    if not hists:
        return
    r_nolen = {x.idx for x in ctx.validate("IrcSplitTrace", hists, cfg="IrcSplitTraceNoLen.cfg", count=False, shard_size=2000)}
    ascii_runs = []
    for t in hists:
        ops = [("send", o[1], o[2], o[3], [ch if ch < 128 else 97 for ch in o[4]]) if o[0] == "send" else o for o in _ops_of(t)]
        ascii_runs.append(run_history(t["cfg"]["rate"], ops))
    r_ascii = {x.idx for x in ctx.validate("IrcSplitTrace", ascii_runs, count=False, shard_size=2000)}
    rest = []
    n_multi = 0
    for i, t in enumerate(hists):
        multi = any(ch >= 128 for o in _ops_of(t) if o[0] == "send" for ch in o[4])
        if i not in r_nolen and i not in r_ascii and multi:
            n_multi += 1
            ctx.violation("send/line-exceeds-octet-limit/only-with-multi-octet-characters",
                          "history with multi-octet text: a line exceeds its octet limit (same history with ASCII letters is accepted)",
                          dict(kind="hist", rate=t["cfg"]["rate"], ops=t["ops"]))
        else:
            rest.append(t)
    ctx.extra["rejected_histories_line_too_long_multi_octet_only"] = n_multi
    ctx.extra["rejected_histories_other"] = len(rest)
    if not rest:
        return
    key = lambda rate, ops: json.dumps([rate, [list(o) for o in ops]])
    memo = {}
    cur = {}
    for t in sorted(rest, key=lambda t: _hsize(_ops_of(t)))[:12]:
        cur[key(t["cfg"]["rate"], _ops_of(t))] = (t["cfg"]["rate"], _ops_of(t), t)
    final = {}
    for _ in range(14):
        if not cur:
            break
        cand = {}
        for kk, (rate, ops, t) in cur.items():
            for r2, o2 in hist_variants(rate, ops):
                k2 = key(r2, o2)
                if k2 not in memo and k2 not in cand:
                    cand[k2] = run_history(r2, o2)
        if cand:
            ts = list(cand.values())
            bad = {x.idx for x in ctx.validate("IrcSplitTrace", ts, count=False, shard_size=3000)}
            for j, (k2, tr) in enumerate(cand.items()):
                memo[k2] = (j in bad, tr)
        nxt = {}
        for kk, (rate, ops, t) in cur.items():
            hit = None
            for r2, o2 in hist_variants(rate, ops):
                k2 = key(r2, o2)
                if memo.get(k2, (False,))[0]:
                    hit = (r2, o2, memo[k2][1])
                    break
            if hit is None:
                final[kk] = (rate, ops, t)
            else:
                nxt[key(hit[0], hit[1])] = hit
        cur = nxt
    final.update(cur)
    for kk, (rate, ops, t) in final.items():
        sends = [o for o in ops if o[0] == "send"]
        shape = ";".join("%s@avail%d" % (clsstr(o[4]) or "empty", o[3] - overhead(o[1], o[2])) for o in sends)
        ctx.violation("history/lineRate-%s/%d-message(s)/ticks-between=%d/min-texts=%s" % ("set" if rate else "None", len(sends), sum(1 for o in ops if o[0] == "tick"), shape),
                      "IRCClient(lineRate=%s) history %r: transport received %r" % (rate or None, [(o[1], "".join(map(chr, o[2])), "".join(map(chr, o[4])), o[3]) if o[0] == "send" else "tick" for o in ops],
                                                                              [bytes(e["wrote"]) for e in t["ev"]]),
                      dict(kind="hist", rate=rate, ops=[list(o) for o in ops]))


def report(ctx, traces, rej):
    """Classify every TLC-rejected run (TLC decides each classification step too)."""
    rejected = [traces[x.idx] for x in rej]
    report_hist(ctx, [t for t in rejected if t["cfg"]["mode"] == "hist"])
    rejected = [t for t in rejected if t["cfg"]["mode"] != "hist"]
    sends = [t for t in rejected if t["cfg"]["mode"] == "split"]
    quotes = [t for t in rejected if t["cfg"]["mode"] != "split"]
    for t in quotes:
        e = t["ev"][0]
        names = {16: "MQUOTE", 0: "NUL", 10: "LF", 13: "CR", 92: "XQUOTE", 1: "XDELIM"}
        special = sorted({names[c] for c in e["text"] if c in names})
        ctx.violation("quote-roundtrip/%s/special-characters-in-text=%s" % (t["cfg"]["mode"], "+".join(special) or "none"),
                      "%sDequote(%sQuote(%r)) = %r (quoted: %r, exc %r)" % (t["cfg"]["mode"], t["cfg"]["mode"], e["text"], e["back"], e["q"], e["exc"]),
                      dict(kind="quote", level=t["cfg"]["mode"], text=e["text"]))
    if not sends:
        return
    # 1. which clause: is the run accepted once the octet-limit clause is dropped?
    r_nolen = {x.idx for x in ctx.validate("IrcSplitTrace", sends, cfg="IrcSplitTraceNoLen.cfg", count=False, shard_size=3000)}
    # 2. the same call with every multi-octet character replaced by an ASCII letter (same number of characters)
    ascii_runs = []
    for t in sends:
        c, e = t["cfg"], t["ev"][0]
        ascii_runs.append(run_send(c["kind"], c["user"], c["limit"], [ch if ch < 128 else 97 for ch in e["text"]]))
    r_ascii = {x.idx for x in ctx.validate("IrcSplitTrace", ascii_runs, count=False, shard_size=3000)}
    rest = []
    n_multi = 0
    for i, t in enumerate(sends):
        c, e = t["cfg"], t["ev"][0]
        multi = any(ch >= 128 for ch in e["text"])
        if i not in r_nolen and i not in r_ascii and multi and not e["exc"]:
            n_multi += 1
            longest = max((len(x) + 1 for x in bytes(e["stream"]).split(b"\n")[:-1]), default=0)
            ctx.violation("send/line-exceeds-octet-limit/only-with-multi-octet-characters",
                          "IRCClient.%s(%r, %r, length=%d) wrote a line of %d octets (> %d): %r" % (
                              c["kind"], "".join(map(chr, c["user"])), "".join(map(chr, e["text"])), c["limit"], longest, c["limit"], bytes(e["stream"])[:200]),
                          dict(kind="send", cmd=c["kind"], user=c["user"], limit=c["limit"], text=e["text"]))
        else:
            rest.append((t, i not in r_nolen))
    ctx.extra["rejected_runs_line_too_long_multi_octet_only"] = n_multi
    # 3. anything else: shrink by deleting characters / lowering the limit (lock-step, TLC decides), then report
    memo = {}

    def k(c, text):
        return (c["kind"], tuple(c["user"]), c["limit"], tuple(text))

    cur = {}
    for t, only_len in sorted(rest, key=lambda r: len(r[0]["ev"][0]["text"]))[:20]:
        c, e = t["cfg"], t["ev"][0]
        cur[k(c, e["text"])] = (c, e["text"], t)
    final = {}
    for _ in range(12):
        if not cur:
            break
        cand = {}
        for kk, (c, text, t) in cur.items():
            vs = []
            for lim, tx in variants(c["kind"], c["user"], c["limit"], text)[:150]:
                c2 = dict(c, limit=lim)
                k2 = k(c2, tx)
                if k2 not in memo and k2 not in cand:
                    cand[k2] = run_send(c2["kind"], c2["user"], lim, tx)
        if cand:
            ts = list(cand.values())
            bad = {x.idx for x in ctx.validate("IrcSplitTrace", ts, count=False, shard_size=3000)}
            for j, (k2, tr) in enumerate(cand.items()):
                memo[k2] = (j in bad, tr)
        nxt = {}
        for kk, (c, text, t) in cur.items():
            hit = None
            for lim, tx in variants(c["kind"], c["user"], c["limit"], text)[:150]:
                k2 = k(dict(c, limit=lim), tx)
                if memo.get(k2, (False,))[0]:
                    hit = (dict(c, limit=lim), tx, memo[k2][1])
                    break
            if hit is None:
                final[kk] = (c, text, t)
            else:
                nxt[k(hit[0], hit[1])] = hit
        cur = nxt
    final.update(cur)
    for kk, (c, text, t) in final.items():
        e = t["ev"][0]
        avail = c["limit"] - overhead(c["kind"], c["user"])
        ctx.violation("send/%s/min-text-classes=%s/avail=%d" % ("exception:" + e["exc"] if e["exc"] else "relation", clsstr(text) or "empty", avail),
                      "IRCClient.%s(%r, %r, length=%d) wrote %r exc=%r" % (c["kind"], "".join(map(chr, c["user"])), "".join(map(chr, text)), c["limit"], bytes(e["stream"])[:300], e["exc"]),
                      dict(kind="send", cmd=c["kind"], user=c["user"], limit=c["limit"], text=text))
    if len(rest) > 20:
        ctx.extra["rejected_runs_not_shrunk"] = len(rest) - 20


def nontrivial(t):
    if t["cfg"]["mode"] == "hist":
        return len(t["ev"]) > 2
    e = t["ev"][0]
    if e["e"] == "send":
        return any(ch >= 128 or ch in (SPC, TAB, LF, CR) for ch in e["text"])
    return any(ch in (16, 0, 10, 13, 92, 1) for ch in e["text"])


def run(ctx):
    from harness.core import MachineryError, extract_printed
    import json

    r = ctx.mc("IrcSplitMC", ctx.pick("IrcSplitMC.cfg", "IrcSplitMC.thorough.cfg"), label="relation satisfiable: two octet-counting splitters")
    if not r.ok:
        raise MachineryError("IrcSplit: the spec's own splitters violate the relation: " + r.error)
    rq = ctx.mc("IrcSplitMC", ctx.pick("IrcSplitQuote.cfg", "IrcSplitQuote.thorough.cfg"), label="reference quoting round trip")
    if not rq.ok:
        raise MachineryError("IrcSplit: reference quoting does not round-trip: " + rq.error)
    rc = ctx.mc("IrcSplitMC", ctx.pick("IrcSplitChars.cfg", "IrcSplitChars.thorough.cfg"), label="control: character-counting splitter (violations printed)")
    if not rc.ok:
        raise MachineryError("IrcSplit control run failed: " + rc.error)
    rf = ctx.mc("IrcSplitMC", ctx.pick("IrcSplitQueue.cfg", "IrcSplitQueue.thorough.cfg"), label="several messages through a FIFO send queue, all interleavings of sends and ticks")
    if not rf.ok:
        raise MachineryError("IrcSplit: FIFO queue model violates the per-message relation: " + rf.error)
    rl = ctx.mc("IrcSplitMC", ctx.pick("IrcSplitLifo.cfg", "IrcSplitLifo.thorough.cfg"), label="control: LIFO queue (violations printed)")
    if not rl.ok:
        raise MachineryError("IrcSplit LIFO control run failed: " + rl.error)
    if not extract_printed(rl.out, "CEXQ"):
        raise MachineryError("vacuity: the per-message relation does not notice a reordering send queue")
    ctx.extra["lifo_control_violations_found_by_tlc"] = len(extract_printed(rl.out, "CEXQ"))
    ctx.require_actions("IrcSplitMC", ["ExtendAny", "SendPack", "SendWords", "SendRefuse", "SendCharCount", "DoQuote", "EnqueueAny", "TickFifo", "TickLifo"])
    cex = [json.loads(j) for j in sorted({v[1] for v in extract_printed(rc.out, "CEX")})]   # sorted: TLC workers print in any order
    if not cex:
        raise MachineryError("vacuity: the relation accepts the character-counting control splitter everywhere")
    ctx.extra["control_violations_found_by_tlc"] = len(cex)

    traces = []
    # (1) exhaustive: every short text over the class alphabet x every limit leaving 0..5 octets for the message part
    L = ctx.pick(3, 4)
    user = [117]
    for kind in ctx.pick(["msg"], ["msg", "notice"]):
        for avail in ctx.pick([0, 1, 2, 4], [0, 1, 2, 3, 4, 5, 7]):
            for text in texts_upto(CLASS_ALPHA, L):
                traces.append(run_send(kind, user, overhead(kind, user) + avail, text))
    ctx.exhaustive = True
    ctx.extra["exhaustive_text_len"] = L
    nex = len(traces)
    # (2) spec -> code: inputs on which TLC found the character-counting control to violate the relation
    seen = set()
    for b in cex[:: max(1, len(cex) // ctx.pick(600, 5000))]:
        kk = (b["kind"], b["limit"], tuple(b["text"]))
        if kk not in seen:
            seen.add(kk)
            traces.append(run_send(b["kind"], b["user"], b["limit"], b["text"]))
    ctx.extra["control_violations_replayed_on_real_client"] = len(seen)
    # (3) random long texts, random targets and limits
    for _ in range(ctx.pick(1200, 20000)):
        kind = ctx.rng.choice(["msg", "notice"])
        usr = [ord(ch) for ch in ctx.rng.choice(["u", "#chan", "nick123", "&x"])]
        oh = overhead(kind, usr)
        limit = oh + ctx.rng.choice([0, 1, 2, 3, 4, 5, 8, 13, 20, 40, 100, -1, 512 - oh])
        traces.append(run_send(kind, usr, limit, random_text(ctx.rng)))
    # (4) quoting: exhaustive short texts over the quoting alphabets + random
    LQ = ctx.pick(3, 4)
    for level, alpha in (("low", LOW_ALPHA), ("ctcp", CTCP_ALPHA)):
        for text in texts_upto(alpha, LQ if level == "low" else LQ + 1):
            traces.append(run_quote(level, text))
        for _ in range(ctx.pick(200, 5000)):
            traces.append(run_quote(level, [ctx.rng.choice(alpha + A2 + A4 + [32, 9]) for _ in range(ctx.rng.randint(0, 30))]))
    # (5) histories: several messages on one client, with and without lineRate (send queue drained by a fake clock)
    nh0 = len(traces)
    letters = [97, 98, 99, 100, 101]
    for rate in (0, 1):
        for avail in (1, 2, 3):
            for n in range(1, ctx.pick(4, 5) + 1):
                for pat in itertools.product("LS", repeat=n):
                    it = iter(letters)
                    text = [next(it) if ch == "L" else SPC for ch in pat]
                    for second in (False, True):
                        for ticks in ((0, 1, 2) if second else (0,)):
                            ops = [("send", "msg", [117, 49], overhead("msg", [117, 49]) + avail, text)]
                            ops += [("tick",)] * ticks
                            if second:
                                ops.append(("send", "notice", [117, 50], overhead("notice", [117, 50]) + 1, [121, 122]))
                            traces.append(run_history(rate, ops))
    for i in range(ctx.pick(400, 6000)):
        traces.append(run_history(*random_history(ctx.rng, small=(i % 2 == 0))))
    ctx.extra["histories"] = len(traces) - nh0
    for t in traces:
        ctx.note_trace(t, nontrivial=nontrivial(t))
    ctx.log("recorded %d real executions (%d exhaustive sends, %d histories)" % (len(traces), nex, len(traces) - nh0))

    rej = ctx.validate("IrcSplitTrace", traces, shard_size=ctx.pick(2000, 5000))
    ctx.log("%d of %d real executions rejected by TLC" % (len(rej), len(traces)))
    report(ctx, traces, rej)
    rejidx = {x.idx for x in rej}
    good = [t for i, t in enumerate(traces) if i not in rejidx]

    # diagnostic: real quoting vs the reference quoting (never a verdict)
    gq = [t for t in good if t["cfg"]["mode"] != "split"]
    rr = ctx.validate("IrcSplitTrace", gq[:: max(1, len(gq) // ctx.pick(600, 5000))], cfg="IrcSplitTraceRef.cfg", count=False)
    ctx.extra["real_quoting_vs_reference_mismatches"] = len(rr)
    ctx.impl_drift += len(rr)

    gs = [t for t in good if t["cfg"]["mode"] == "split" and t["ev"][0]["stream"]]
    gh = [t for t in good if t["cfg"]["mode"] == "hist" and sum(len(e["wrote"]) for e in t["ev"]) > 40]
    mix = [t for trio in itertools.zip_longest(gh[-120:], gs[-120:], gq[-120:]) for t in trio if t is not None]   # round-robin
    ctx.selftest_rejects("IrcSplitTrace", mix, mutate, n=36)


def replay(ctx, obj):
    if obj.get("kind") == "hist":
        t = run_history(obj["rate"], [tuple(o) for o in obj["ops"]])
    elif obj.get("kind") == "quote":
        t = run_quote(obj["level"], obj["text"])
    else:
        t = run_send(obj["cmd"], obj["user"], obj["limit"], obj["text"])
    ctx.note_trace(t)
    rej = ctx.validate("IrcSplitTrace", [t])
    report(ctx, [t], rej)
    print(t["cfg"])
    for e in t["ev"]:
        print(e)
