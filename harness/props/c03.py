"""C03 -- A Deferred delivers one result; cancellation follows its protocol.

Spec:     specs/DeferredCancel.tla (+ DeferredCancelMC exhaustive TLC, DeferredCancelTrace trace validation,
          DeferredCancelSim behaviour generator)
Binding:  real twisted.internet.defer.Deferred objects constructed with each kind of canceller (none / no-op /
          calls callback / calls errback / raises), driven along exhaustive short histories, seeded random
          longer ones and TLC-generated behaviours over {callback, errback, cancel, add a callback returning a
          new unfired Deferred} applied to any existing Deferred (firing an inner Deferred = callback/errback on
          it; Deferreds waiting on Deferreds waiting on Deferreds arise from add-inner on an inner).  One event
          per public call carrying the exception class it raised and what user code saw during the call:
          canceller invocations, the result the first callback of each Deferred received, the result each outer
          Deferred resumed with after waiting.  TLC decides.
"""
import re

META = dict(
    id="C03",
    specs=["DeferredCancel.tla", "DeferredCancelMC.tla", "DeferredCancelTrace.tla", "DeferredCancelSim.tla"],
    technique="TLA+ spec of Deferred firing/AlreadyCalledError/suppression/cancel forwarding over a population of chained Deferreds (TLC exhaustive over all canceller-kind assignments) + TLC trace validation of real Deferred executions (exhaustive short histories, random long ones, TLC-generated behaviours replayed)",
    level_text="TLC checks on the specification, for every history up to the stated depth and every assignment of the five canceller kinds, that each Deferred is given a result at most once, that exactly one late callback/errback is ignored after a canceller-less cancel and every other extra one raises AlreadyCalledError, that a canceller is invoked exactly once and the Deferred ends up fired (CancelledError unless the canceller fired it), that cancel() of a fired Deferred is forwarded to the Deferred it waits on and otherwise changes nothing; every recorded execution of real Deferred objects is validated by TLC as a behaviour of that specification with every logged observation matched.",
    level_note="Trusted: TLC, the adapter's logging of callback arguments, canceller invocations and exception classes. Result values are abstracted to integer tokens (identity of the accepted call kept). Histories are sequences of top-level calls; user callbacks only log, pass the result through, or return a Deferred (no pause/unpause, no re-entrant firing except from cancellers). Whether cancel() propagates the exception of a raising canceller is left open, as the property does. Beyond the enumerated depth histories are sampled.",
    design_ref="2.1 C03",
    rule="history = sequence of callback(x)/errback(x)/cancel(x)/addinner(x) calls over up to 5 Deferreds with a canceller kind each; distinct = hash of (cfg, events); non-trivial = at least two different call kinds",
)

CKINDS = ["None", "Noop", "FiresCb", "FiresEb", "Raises"]
OPS = ["callback", "errback", "cancel", "addinner"]


class Boom(Exception):
    def __init__(self, n):
        Exception.__init__(self, n)
        self.n = n


class CancellerBoom(Exception):
    pass


class DSys:
    """A population of real Deferreds plus the recorder.  step(op, x) = one public call, one event."""

    def __init__(self, cfg, noarg=False):
        from twisted.internet import defer
        from twisted.python.failure import Failure

        self.noarg = noarg     # errback() is called without argument inside an except block

        self.defer = defer
        self.Failure = Failure
        self.kinds = cfg["kinds"]
        self.ds = []
        self.att = []
        self.obs = []
        self.ev = []
        self.new()

    def enc(self, r):
        if isinstance(r, self.Failure):
            if r.check(self.defer.CancelledError):
                return ["ERR", 9000]
            if r.check(Boom):
                return ["ERR", r.value.n]
            return ["ERR", 9999]
        if r is None:
            return ["OK", 0]
        if type(r) is int:
            return ["OK", r]
        return ["OK", 9998]

    def new(self):
        defer = self.defer
        x = len(self.ds) + 1
        kind = self.kinds[x - 1]

        def noop(d):
            self.obs.append(["cc", x if d is self.ds[x - 1] else 0, 0, "", 0])

        def fires_cb(d):
            noop(d)
            d.callback(1000 + x)

        def fires_eb(d):
            noop(d)
            d.errback(Boom(1000 + x))

        def raises(d):
            noop(d)
            raise CancellerBoom()

        canc = {"None": None, "Noop": noop, "FiresCb": fires_cb, "FiresEb": fires_eb, "Raises": raises}[kind]
        d = defer.Deferred(canceller=canc) if canc else defer.Deferred()
        self.ds.append(d)
        self.att.append(0)

        def p0(r):
            t, n = self.enc(r)
            self.obs.append(["p0", x, 0, t, n])
            return r

        d.addBoth(p0)
        return x

    def step(self, op, x):
        del self.obs[:]
        e = dict(e=op, x=x, y=0)
        exc = "none"
        d = self.ds[x - 1]
        try:
            if op == "callback":
                self.att[x - 1] += 1
                d.callback(100 * x + self.att[x - 1])
            elif op == "errback":
                self.att[x - 1] += 1
                if self.noarg:
                    try:
                        raise Boom(100 * x + self.att[x - 1])
                    except Boom:
                        d.errback()
                else:
                    d.errback(Boom(100 * x + self.att[x - 1]))
            elif op == "cancel":
                d.cancel()
            elif op == "addinner":
                y = self.new()
                e["y"] = y
                dy = self.ds[y - 1]

                def stage(r, dy=dy):
                    return dy

                def probe(r, x=x, y=y):
                    t, n = self.enc(r)
                    self.obs.append(["st", x, y, t, n])
                    return r

                d.addBoth(stage)
                d.addBoth(probe)
            else:
                raise ValueError(op)
        except BaseException as ex:
            exc = type(ex).__name__
        e["exc"] = exc
        e["obs"] = [list(o) for o in self.obs]
        self.ev.append(e)
        return e

    def close(self):
        # swallow remaining failures so nothing is reported as an unhandled error at garbage collection
        for d in self.ds:
            d.addErrback(lambda f: None)

    def applicable(self):
        n = len(self.ds)
        ops = []
        for x in range(1, n + 1):
            for op in OPS:
                if op == "addinner" and n >= len(self.kinds):
                    continue
                ops.append((op, x))
        return ops


def run_history(cfg, ops, noarg=False, debug=False):
    """noarg: errbacks are argument-less errback() calls inside an except block; debug: the history runs
    under defer.setDebugging(True).  Same calls, same specification."""
    from twisted.internet import defer
    was = defer.getDebugging()
    defer.setDebugging(bool(debug))
    try:
        s = DSys(cfg, noarg)
        for op, x in ops:
            s.step(op, x)
        s.close()
    finally:
        defer.setDebugging(was)
    return {"cfg": cfg, "ops": [list(o) for o in ops], "ev": s.ev, "mode": {"noarg": noarg, "debug": debug}}


def histories(maxd, depth, prefix=(), ops_allowed=OPS):
    """All call sequences of exactly `depth` calls (after `prefix`) over at most `maxd` Deferreds (each shorter
    one is a prefix of one of them)."""
    out = []
    prefix = list(prefix)
    n0 = 1 + sum(1 for o in prefix if o[0] == "addinner")
    depth += len(prefix)

    def rec(prefix, n):
        if len(prefix) == depth:
            out.append((list(prefix), n))
            return
        for x in range(1, n + 1):
            for op in ops_allowed:
                if op == "addinner":
                    if n >= maxd:
                        continue
                    rec(prefix + [(op, x)], n + 1)
                else:
                    rec(prefix + [(op, x)], n)

    rec(prefix, n0)
    return out


# chain-building prefixes: 1 gets a callback returning 2, 2 gets a callback returning 3 (before / after firing)
NESTED_PREFIXES = [
    [("addinner", 1), ("addinner", 2)],
    [("callback", 1), ("addinner", 1), ("addinner", 2)],
    [("addinner", 1), ("callback", 2), ("addinner", 2)],
]


def kind_assignments(n):
    import itertools
    return [list(k) for k in itertools.product(CKINDS, repeat=n)]


def influenced(trace):
    """Deferreds whose canceller kind had a say in this execution: a canceller invocation was seen, or the
    Deferred got its result during a cancel() call."""
    inf = set()
    for e in trace["ev"]:
        for o in e["obs"]:
            if o[0] == "cc" or (o[0] == "p0" and e["e"] == "cancel"):
                inf.add(o[1])
    return inf


def exhaustive(maxd, depth, prefix=(), ops_allowed=OPS):
    """Every call sequence of `depth` calls (after `prefix`) over <= maxd Deferreds, with every assignment of the five canceller
    kinds to the Deferreds whose canceller kind can matter in that sequence (those a cancel() reaches while
    unfired, found by a first run without cancellers; a Deferred that is never cancelled while unfired never
    has its canceller looked at, so it keeps kind "None").  Trace-set reduction only: TLC still decides."""
    import itertools
    out = []
    for ops, n in histories(maxd, depth, prefix, ops_allowed):
        base = run_history({"kinds": ["None"] * n}, ops)
        inf = sorted(x for x in influenced(base) if 1 <= x <= n)
        for ks in itertools.product(CKINDS, repeat=len(inf)):
            if all(k == "None" for k in ks):
                out.append(base)
                continue
            kinds = ["None"] * n
            for x, k in zip(inf, ks):
                kinds[x - 1] = k
            out.append(run_history({"kinds": kinds}, ops))
    return out


def random_history(rng, maxd, n):
    kinds = [rng.choice(CKINDS) for _ in range(maxd)]
    ops = []
    nd = 1
    for _ in range(n):
        r = rng.random()
        # bias towards recent Deferreds (the ones others wait on)
        x = nd - int(rng.random() ** 1.5 * nd)
        x = max(1, min(nd, x))
        if r < 0.25 and nd < maxd:
            ops.append(("addinner", x))
            nd += 1
        elif r < 0.5:
            ops.append(("cancel", x))
        elif r < 0.78:
            ops.append(("callback", x))
        else:
            ops.append(("errback", x))
    return {"kinds": kinds}, ops


def mutate(t, rng):
    """Corrupt one logged field / drop one event (binding self-test)."""
    evs = t["ev"]
    if not evs:
        return None
    r = rng.random()
    e = evs[rng.randrange(len(evs))]
    witho = [x for x in evs if x["obs"]]
    if r < 0.2:
        e["exc"] = "AlreadyCalledError" if e["exc"] != "AlreadyCalledError" else "none"
    elif r < 0.4 and witho:
        x = rng.choice(witho)
        x["obs"][0][4] += 1                     # a different value observed
    elif r < 0.55 and witho:
        x = rng.choice(witho)
        x["obs"].append(list(x["obs"][0]))      # observed twice (canceller called twice, result twice)
    elif r < 0.7 and witho:
        x = rng.choice(witho)
        del x["obs"][rng.randrange(len(x["obs"]))]   # an observation missing
    elif r < 0.85:
        e["obs"].append(["cc", e["x"], 0, "", 0]) # a canceller call that the protocol does not make
    else:
        # drop the call that fired Deferred x, when a later callback/errback on x exists
        # (its logged outcome -- refused or ignored -- is then not what the spec predicts)
        drop = None
        for j, x in enumerate(evs):
            fired = [o[1] for o in x["obs"] if o[0] == "p0"]
            if x["e"] in ("callback", "errback") and fired == [x["x"]] and any(
                    z["e"] in ("callback", "errback") and z["x"] == x["x"] for z in evs[j + 1:]):
                drop = j
                break
        if drop is None:
            e["exc"] = "AlreadyCalledError" if e["exc"] != "AlreadyCalledError" else "none"
        else:
            del evs[drop]
    return t


def fingerprint(trace, rej):
    """Names the failing call site and input class from the first event the spec could not take."""
    if rej.reached >= len(trace["ev"]):
        return "end"
    e = trace["ev"][rej.reached]
    kinds = trace["cfg"]["kinds"]
    cc = [o[1] for o in e["obs"] if o[0] == "cc"]
    fired = {o[1] for o in e["obs"] if o[0] == "p0"}
    if e["e"] == "cancel" and e["exc"] == "CancellerBoom" and len(cc) == 1 and cc[0] >= 1 \
            and kinds[cc[0] - 1] == "Raises" and cc[0] not in fired and len(e["obs"]) == 1:
        return "cancel/canceller-raises/exception-escapes-and-deferred-left-unfired"
    tgt = e["x"]
    return "%s/kind=%s/exc=%s/cc=%d/p0=%d/st=%d" % (
        e["e"], kinds[tgt - 1], e["exc"], len(cc), len(fired), sum(1 for o in e["obs"] if o[0] == "st"))


_COV = re.compile(r"^<(\w+) line \d+, col \d+ to line \d+, col \d+ of module (\w+)(?: \((\d+) (\d+) (\d+) (\d+)\))?>: (\d+):(\d+)", re.M)


def action_counts(out, specs_dir):
    """Per-action 'generated' counts from TLC -coverage output (disjuncts reported under `Next`
    are named after the operator they apply)."""
    import os
    cov = {}
    for m in _COV.finditer(out):
        name, mod, gen = m.group(1), m.group(2), int(m.group(8))
        if name == "Next" and m.group(3):
            with open(os.path.join(specs_dir, mod + ".tla")) as f:
                lines = f.read().split("\n")
            l1, c1, l2, c2 = (int(m.group(i)) for i in (3, 4, 5, 6))
            span = "\n".join(lines[l1 - 1:l2])[c1 - 1:]
            mm = re.search(r"\b([A-Z]\w*)\(", span)
            if mm:
                name = mm.group(1)
        cov[name] = cov.get(name, 0) + gen
    return cov


ACTIONS = ["Callback", "Errback", "Cancel", "AddInner"]


def report(ctx, traces, rej, label):
    for x in rej:
        t = traces[x.idx]
        ev = t["ev"][x.reached] if x.reached < len(t["ev"]) else None
        ctx.violation(fingerprint(t, x),
                      "real Deferred execution (cancellers %s) not explained by DeferredCancel.tla at event %d (%s): %s" % (
                          t["cfg"]["kinds"], x.reached, label, ev),
                      dict(cfg=t["cfg"], ops=t["ops"][:x.reached + 1], rejected_at=x.reached, mode=t.get("mode", {})))


def run(ctx):
    from harness.core import MachineryError, SPECS

    r = ctx.mc("DeferredCancelMC", ctx.pick("DeferredCancelMC.cfg", "DeferredCancelMC.thorough.cfg"))
    if not r.ok:
        raise MachineryError("DeferredCancel spec violates its own invariants: " + r.error)
    cov = action_counts(r.out, SPECS)
    missing = [a for a in ACTIONS if not cov.get(a)]
    if missing:
        raise MachineryError("vacuity: actions never taken in DeferredCancelMC: %s" % missing)
    ctx.extra["mc_action_counts"] = {a: cov[a] for a in ACTIONS}

    # exhaustive: every call sequence of the given length over <= maxd Deferreds x every assignment of
    # canceller kinds to the Deferreds the sequence creates
    maxd, depth = ctx.pick((3, 4), (4, 5))
    traces = exhaustive(maxd, depth)
    # nested waiting (1 waits on 2 waits on 3): every continuation of the chain-building prefixes with
    # callback/errback/cancel on any of the three Deferreds
    nest = ctx.pick(3, 4)
    for pre in NESTED_PREFIXES[:ctx.pick(2, 3)]:
        traces += exhaustive(3, nest, pre, ["callback", "errback", "cancel"])
    ctx.extra["nested_suffix_depth"] = nest
    nex = len(traces)
    ctx.exhaustive = True
    ctx.extra["exhaustive_depth"] = depth
    ctx.extra["exhaustive_max_deferreds"] = maxd
    ctx.extra["exhaustive_histories"] = nex
    nrand = ctx.pick(3000, 100000)
    for i in range(nrand):
        cfg, ops = random_history(ctx.rng, ctx.rng.randint(2, 5), ctx.rng.randint(6, 14))
        traces.append(run_history(cfg, ops))
    # spec -> code
    behs = ctx.simulate("DeferredCancelSim", "DeferredCancelSim.cfg", num=ctx.pick(60, 2000), depth=14)
    behs = behs[:ctx.pick(600, 20000)]
    drift = []
    for b in behs:
        ops = [(h["e"], h["x"]) for h in b["hist"]]
        t = run_history(b["cfg"], ops)
        norm = lambda e: (e["e"], e["x"], e["y"], e["exc"], sorted(map(tuple, e["obs"])))
        if [norm(e) for e in t["ev"]] != [norm(h) for h in b["hist"]]:
            drift.append(len(traces))
        traces.append(t)
    ctx.extra["spec_behaviours_replayed"] = len(behs)
    # input-mode variation: histories 1,3 mod 4 use argument-less errback() inside an except block,
    # histories 2,3 mod 4 run under defer.setDebugging(True)
    for i in range(len(traces)):
        if i % 4:
            traces[i] = run_history(traces[i]["cfg"], [tuple(o) for o in traces[i]["ops"]], noarg=i % 4 in (1, 3), debug=i % 4 in (2, 3))
    ctx.extra["histories_with_argless_errback"] = len([i for i in range(len(traces)) if i % 4 in (1, 3)])
    ctx.extra["histories_under_setDebugging"] = len([i for i in range(len(traces)) if i % 4 in (2, 3)])
    ctx.note_traces(traces)
    ctx.log("recorded %d real executions (%d exhaustive depth %d, %d random, %d from TLC behaviours)" % (
        len(traces), nex, depth, nrand, len(behs)))
    rej = ctx.validate("DeferredCancelTrace", traces, shard_size=ctx.pick(4000, 8000))
    report(ctx, traces, rej, "run")
    ctx.extra["rejected_executions"] = len(rej)
    bad = {x.idx for x in rej}
    # predicted observables that the real code did not reproduce: either rejected by TLC (reported above) or
    # differing only in a choice the spec leaves open (does cancel() let a raising canceller's exception escape)
    ctx.extra["spec_behaviours_not_reproduced_and_rejected"] = sum(1 for i in drift if i in bad)
    ctx.extra["spec_behaviours_differing_only_in_free_choice"] = sum(1 for i in drift if i not in bad)
    good = [t for i, t in enumerate(traces) if i not in bad and len(t["ev"]) >= 5]
    ctx.selftest_rejects("DeferredCancelTrace", good[-300:], mutate, n=24)


def replay(ctx, obj):
    t = run_history(obj["cfg"], [tuple(o) for o in obj["ops"]], **obj.get("mode", {}))
    ctx.note_trace(t)
    rej = ctx.validate("DeferredCancelTrace", [t])
    report(ctx, [t], rej, "replay")
    for e in t["ev"]:
        print(e)
