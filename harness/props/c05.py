"""C05 -- inlineCallbacks and coroutines match synchronous execution, incl. cancellation.

Spec:     specs/InlineCB.tla -- an open system: generator / coroutine bodies are the environment,
          Twisted's machinery (resume with the awaited outcome, fire the returned Deferred once
          with the body's outcome, cancel exactly the awaited Deferred) is the system.
          InlineCBMC (exhaustive TLC), InlineCBTrace (trace validation), InlineCBSim (spec -> code).
Binding:  bodies are interpreters of random structured programs (loops, try/except/finally,
          nested invocations in several styles, return in finally).  The same program runs as an
          @inlineCallbacks generator, as a generator given to ensureDeferred and as an `async def`
          coroutine given to ensureDeferred.  A body logs every move it makes (await, yield value,
          start a nested call, return, raise) and every value / exception it observes at an await;
          observers log what returned Deferreds fire with, cancellers and leaf Deferreds log
          cancellation.  TLC checks the machinery's moves against the bodies' moves.
"""
import json

META = dict(
    id="C05",
    specs=["InlineCB.tla", "InlineCBMC.tla", "InlineCBTrace.tla", "InlineCBSim.tla"],
    technique="TLA+ open-system spec of inlineCallbacks/ensureDeferred (bodies = environment; TLC exhaustive over all body behaviours, firing orders and cancellation points for small bounds) + TLC trace validation of real executions of random structured programs run as @inlineCallbacks generators and as async-def coroutines, with cancellation injected at every suspension point, + TLC-generated behaviours replayed through scripted bodies",
    level_text="TLC checks on the specification that a body is resumed only with the outcome of what it awaits, that each returned Deferred fires exactly once with the body's return value or uncaught exception, that nothing is owed when a call returns, and that cancel() reaches exactly the awaited Deferred; every recorded execution of real generators and coroutines is validated by TLC as a behaviour of that specification with every logged move and observation matched.",
    level_note="Trusted: TLC, the body interpreter's logging of its own moves and observations. Values are abstracted to identities. Scope: every Deferred is awaited at most once, a nested invocation is awaited only by the body that started it, only the driver fires or cancels Deferreds and only between calls (no re-entrant cancel from inside a body). Python's own generator semantics (try/finally, return in finally) are exercised but taken as given: 'as a synchronous call would' is checked as 'the machinery delivers exactly the awaited outcome and reports exactly the body's outcome'.",
    design_ref="2.2 C05",
    rule="case = (program, top-level mode, canceller kinds, schedule of pre-firings / firings / cancels); distinct = hash of (cfg, events); non-trivial = at least one await and two different event kinds",
)

MODES = ("icb", "coro", "gened")
NG_CAP = 5          # bound on nested invocations per history (further spawns run inline)
ND_POOL = 10        # leaf Deferreds available to a program ("awaiting up to 10 Deferreds")


# ----------------------------------------------------------------------------- runtime
_RT = None


def runtime():
    """Everything that needs twisted, built once (twisted is imported only here)."""
    global _RT
    if _RT is not None:
        return _RT
    import asyncio
    from twisted.internet import defer
    from twisted.python.failure import Failure

    class Val:
        def __init__(self, k):
            self.k = k

    class Err(Exception):
        def __init__(self, k):
            Exception.__init__(self, k)
            self.k = k

    class BErr(BaseException):      # an exception that is NOT an Exception subclass (like KeyboardInterrupt, SystemExit)
        def __init__(self, k):
            BaseException.__init__(self, k)
            self.k = k

    def mk_exc(kind, k):
        return Err(k) if kind == "err" else BErr(k) if kind == "berr" else asyncio.CancelledError(k) if kind == "acan" \
            else defer.CancelledError() if kind == "cancelled" else RuntimeError(kind)

    class _Ret(BaseException):      # `return v` from anywhere inside a body (runs enclosing finally blocks)
        def __init__(self, v):
            self.v = v

    def cls_val(x):
        if isinstance(x, Val):
            return ["ok", x.k]
        if x is None:
            return ["none", 0]
        return ["other:" + type(x).__name__, 0]

    def cls_exc(e):
        if isinstance(e, Err):
            return ["err", e.k]
        if isinstance(e, defer.CancelledError):
            return ["cancelled", 0]
        if isinstance(e, BErr):
            return ["berr", e.k]
        if isinstance(e, asyncio.CancelledError):
            return ["acan", e.args[0] if e.args and isinstance(e.args[0], int) else 0]
        return ["exc:" + type(e).__name__, 0]

    def cls_any(x):
        return cls_exc(x.value) if isinstance(x, Failure) else cls_val(x)

    CATCH = {"err": (Err,), "cancel": (defer.CancelledError,), "any": (Exception,), "berr": (BErr,),
             "base": (Exception, BErr, asyncio.CancelledError)}

    class Env:
        def __init__(self, cfg):
            self.cfg = cfg
            self.ev = []
            self.closed = False
            self.nG = 0
            self.next_leaf = 0
            self.fired = set()
            self.later = {}          # g -> list of (c, Deferred) started but not yet awaited
            self.dinv = {}           # g -> the Deferred returned for invocation g (not for yielded coroutine objects)
            self.finished = set()
            self.started = set()
            self.leaves = [None]
            for d in range(1, cfg["nd"] + 1):
                dd = defer.Deferred(canceller=self.mk_canceller(d, cfg["ck"][d - 1]))
                dd.addBoth(self.leaf_obs, d)
                self.leaves.append(dd)

        def log(self, e, g=0, x=0, k="-", v=0):
            if not self.closed:
                self.ev.append({"e": e, "g": g, "x": x, "k": k, "v": v})

        def mk_canceller(self, d, k):
            if k == 0:
                return None

            def canceller(dd):
                self.log("cc", 0, d)
                if k == 2:
                    dd.callback(Val(10 + d))
                elif k == 3:
                    dd.errback(Err(10 + d))
                elif k == 4:
                    dd.errback(BErr(10 + d))
            return canceller

        def leaf_obs(self, x, d):
            self.fired.add(d)
            c = cls_any(x)
            self.log("in", 0, d, c[0], c[1])
            return x

        def res_obs(self, x, g):
            c = cls_any(x)
            self.log("res", g, 0, c[0], c[1])
            return x

        def take_leaf(self):
            if self.next_leaf >= self.cfg["nd"]:
                return None
            self.next_leaf += 1
            return self.next_leaf

        def new_inv(self):
            self.nG += 1
            self.started.add(self.nG)
            return self.nG

        def launch_logged(self, g, mode, prog):
            """launch(); an exception escaping from the decorated call / ensureDeferred itself is logged as
            an event the specification has no action for (the outcome must arrive through the Deferred)."""
            try:
                return self.launch(g, mode, prog)
            except BaseException as e:
                c = cls_exc(e)
                self.log("escape", g, 0, c[0], c[1])
                raise

        # -- starting an invocation in a given mode; returns its Deferred
        def launch(self, g, mode, prog):
            if "scripts" in self.cfg:           # spec -> code replay: the body follows a script of moves
                if mode == "icb":
                    return defer.inlineCallbacks(lambda: g_script(self, g))()
                return defer.ensureDeferred(g_script(self, g) if mode == "gened" else c_script(self, g))
            if mode == "icb":
                return defer.inlineCallbacks(lambda: g_body(self, g, prog))()
            if mode == "gened":
                return defer.ensureDeferred(g_body(self, g, prog))
            return defer.ensureDeferred(c_body(self, g, prog))

    # ---- generator flavour -------------------------------------------------------------
    def g_body(env, g, prog):
        try:
            yield from g_block(env, g, prog)
            v = None
        except _Ret as r:
            v = r.v
        except BaseException as e:
            c = cls_exc(e)
            env.finished.add(g)
            env.log("raise", g, 0, c[0], c[1])
            raise
        c = cls_val(v)
        env.finished.add(g)
        env.log("return", g, 0, c[0], c[1])
        return v

    def g_block(env, g, stmts):
        for s in stmts:
            yield from g_stmt(env, g, s)

    def g_await(env, g, what, kind, x):
        env.log("yield", g, x, kind)
        try:
            r = yield what
        except BaseException as e:
            c = cls_exc(e)
            env.log("resume", g, 0, c[0], c[1])
            raise
        c = cls_val(r)
        env.log("resume", g, 0, c[0], c[1])
        return r

    def g_stmt(env, g, s):
        op = s[0]
        if op == "await":
            d = env.take_leaf()
            if d is not None:
                yield from g_await(env, g, env.leaves[d], "d", d)
        elif op == "val":
            yield from g_await(env, g, Val(s[1]), "v", s[1])
        elif op == "spawn":
            style, mode, prog = s[1], s[2], s[3]
            if style == "inline" or env.nG >= env.cfg["ng"]:
                try:
                    yield from g_block(env, g, prog)
                except _Ret:
                    pass
            elif style == "yieldobj":
                # a generator / coroutine object is yielded: the machinery itself wraps and starts it
                c = env.new_inv()
                obj = c_body(env, c, prog) if mode == "coro" else g_body(env, c, prog)
                env.log("spawnyield", g, c, mode)
                try:
                    r = yield obj
                except BaseException as e:
                    cc = cls_exc(e)
                    env.log("resume", g, 0, cc[0], cc[1])
                    raise
                cc = cls_val(r)
                env.log("resume", g, 0, cc[0], cc[1])
            else:
                c = env.new_inv()
                env.log("spawn", g, c, mode)
                dc = env.launch_logged(c, mode, prog)
                env.dinv[c] = dc
                dc.addBoth(env.res_obs, c)
                if style == "await":
                    yield from g_await(env, g, dc, "g", c)
                elif style == "later":
                    env.later.setdefault(g, []).append((c, dc))
                else:
                    dc.addErrback(lambda f: None)
        elif op == "join":
            if env.later.get(g):
                c, dc = env.later[g].pop(0)
                yield from g_await(env, g, dc, "g", c)
        elif op == "try":
            body, kinds, handler, fin = s[1], s[2], s[3], s[4]
            try:
                try:
                    yield from g_block(env, g, body)
                except CATCH.get(kinds, ()):
                    yield from g_block(env, g, handler)
            finally:
                yield from g_block(env, g, fin)
        elif op == "loop":
            for _ in range(s[1]):
                yield from g_block(env, g, s[2])
        elif op == "ret":
            raise _Ret(Val(s[1]))
        elif op == "raise":
            raise mk_exc(s[2] if len(s) > 2 else "err", s[1])
        else:
            raise ValueError(s)

    # ---- coroutine flavour (the same interpreter with async/await) -----------------------
    async def c_body(env, g, prog):
        try:
            await c_block(env, g, prog)
            v = None
        except _Ret as r:
            v = r.v
        except BaseException as e:
            c = cls_exc(e)
            env.finished.add(g)
            env.log("raise", g, 0, c[0], c[1])
            raise
        c = cls_val(v)
        env.finished.add(g)
        env.log("return", g, 0, c[0], c[1])
        return v

    async def c_block(env, g, stmts):
        for s in stmts:
            await c_stmt(env, g, s)

    async def c_await(env, g, what, kind, x):
        env.log("yield", g, x, kind)
        try:
            r = await what
        except BaseException as e:
            c = cls_exc(e)
            env.log("resume", g, 0, c[0], c[1])
            raise
        c = cls_val(r)
        env.log("resume", g, 0, c[0], c[1])
        return r

    async def c_stmt(env, g, s):
        op = s[0]
        if op == "await":
            d = env.take_leaf()
            if d is not None:
                await c_await(env, g, env.leaves[d], "d", d)
        elif op == "val":
            pass                      # `await <plain value>` is a TypeError of Python itself, not Twisted's business
        elif op == "spawn":
            style, mode, prog = s[1], s[2], s[3]
            if style in ("inline", "yieldobj") or env.nG >= env.cfg["ng"]:
                try:
                    await c_block(env, g, prog)
                except _Ret:
                    pass
            else:
                c = env.new_inv()
                env.log("spawn", g, c, mode)
                dc = env.launch_logged(c, mode, prog)
                env.dinv[c] = dc
                dc.addBoth(env.res_obs, c)
                if style == "await":
                    await c_await(env, g, dc, "g", c)
                elif style == "later":
                    env.later.setdefault(g, []).append((c, dc))
                else:
                    dc.addErrback(lambda f: None)
        elif op == "join":
            if env.later.get(g):
                c, dc = env.later[g].pop(0)
                await c_await(env, g, dc, "g", c)
        elif op == "try":
            body, kinds, handler, fin = s[1], s[2], s[3], s[4]
            try:
                try:
                    await c_block(env, g, body)
                except CATCH.get(kinds, ()):
                    await c_block(env, g, handler)
            finally:
                await c_block(env, g, fin)
        elif op == "loop":
            for _ in range(s[1]):
                await c_block(env, g, s[2])
        elif op == "ret":
            raise _Ret(Val(s[1]))
        elif op == "raise":
            raise mk_exc(s[2] if len(s) > 2 else "err", s[1])
        else:
            raise ValueError(s)

    # ---- scripted bodies (moves generated by TLC from the specification) -----------------
    def script_exc(k, v):
        return mk_exc(k, v)

    def g_script(env, g):
        kids = {}
        for mv in env.cfg["scripts"][g - 1]:
            try:
                if mv[0] == "yd":
                    yield from g_await(env, g, env.leaves[mv[1]], "d", mv[1])
                elif mv[0] == "yv":
                    yield from g_await(env, g, Val(mv[1]), "v", mv[1])
                elif mv[0] == "yg":
                    yield from g_await(env, g, kids[mv[1]], "g", mv[1])
                elif mv[0] == "sp":
                    c = env.new_inv()
                    env.log("spawn", g, c, mv[1])
                    kids[c] = env.dinv[c] = env.launch_logged(c, mv[1], None)
                    kids[c].addBoth(env.res_obs, c)
                elif mv[0] == "sy":
                    c = env.new_inv()
                    obj = c_script(env, c) if mv[1] == "coro" else g_script(env, c)
                    env.log("spawnyield", g, c, mv[1])
                    try:
                        r = yield obj
                    except BaseException as e:
                        cc = cls_exc(e)
                        env.log("resume", g, 0, cc[0], cc[1])
                        raise
                    cc = cls_val(r)
                    env.log("resume", g, 0, cc[0], cc[1])
            except (Exception, BErr, asyncio.CancelledError):
                pass                      # a scripted body carries on with its script whatever it observed
            if mv[0] == "ret":
                env.finished.add(g)
                env.log("return", g, 0, mv[1], mv[2])
                return Val(mv[2])
            if mv[0] == "raise":
                env.finished.add(g)
                env.log("raise", g, 0, mv[1], mv[2])
                raise script_exc(mv[1], mv[2])
        env.finished.add(g)

    async def c_script(env, g):
        kids = {}
        for mv in env.cfg["scripts"][g - 1]:
            try:
                if mv[0] == "yd":
                    await c_await(env, g, env.leaves[mv[1]], "d", mv[1])
                elif mv[0] == "yg":
                    await c_await(env, g, kids[mv[1]], "g", mv[1])
                elif mv[0] == "sp":
                    c = env.new_inv()
                    env.log("spawn", g, c, mv[1])
                    kids[c] = env.dinv[c] = env.launch_logged(c, mv[1], None)
                    kids[c].addBoth(env.res_obs, c)
            except (Exception, BErr, asyncio.CancelledError):
                pass
            if mv[0] == "ret":
                env.finished.add(g)
                env.log("return", g, 0, mv[1], mv[2])
                return Val(mv[2])
            if mv[0] == "raise":
                env.finished.add(g)
                env.log("raise", g, 0, mv[1], mv[2])
                raise script_exc(mv[1], mv[2])
        env.finished.add(g)

    class Runner:
        """One history: leaf Deferreds + the top-level invocation, driven op by op."""

        def __init__(self, cfg):
            self.cfg = cfg
            self.env = Env(cfg)
            self.top = None
            self.ops = []

        def step(self, op):
            env = self.env
            if op[0] == "fire" and op[1] in env.fired:
                return False           # already fired (cancelled meanwhile): firing again is C03's subject
            if op[0] == "cancel" and (op[1] if len(op) > 1 else 1) not in env.dinv:
                return False
            if op[0] == "start" and self.top is not None:
                return False
            self.ops.append(list(op))
            ret = "ok"
            try:
                if op[0] == "start":
                    g = env.new_inv()
                    env.log("start", g, 0, self.cfg["mode"])
                    self.top = env.launch_logged(g, self.cfg["mode"], self.cfg.get("prog"))
                    env.dinv[g] = self.top
                    self.top.addBoth(env.res_obs, g)
                elif op[0] == "fire":
                    env.log("fire", 0, op[1], op[2])
                    if op[2] == "ok":
                        env.leaves[op[1]].callback(Val(op[1]))
                    else:
                        env.leaves[op[1]].errback(mk_exc(op[2], op[1]))
                elif op[0] == "cancel":
                    g = op[1] if len(op) > 1 else 1
                    env.log("cancel", g)
                    env.dinv[g].cancel()
                elif op[0] == "cancelleaf":
                    env.log("cancelleaf", 0, op[1])
                    env.leaves[op[1]].cancel()
                else:
                    raise ValueError(op)
            except ValueError:
                raise
            except BaseException as e:      # not an action of the spec
                ret = "EXC:" + type(e).__name__
            env.log("end", 0, 0, ret)
            return True

        # what the driver can see (from the log only)
        def awaited_unfired(self):
            aw = [e["x"] for e in self.env.ev if e["e"] == "yield" and e["k"] == "d"]
            return [d for d in aw if d not in self.env.fired]

        def unfired(self):
            return [d for d in range(1, self.cfg["nd"] + 1) if d not in self.env.fired]

        def waiting_children(self):
            """Nested invocations (with a Deferred of their own) that are started and not finished."""
            return [g for g in self.env.dinv if g != 1 and g not in self.env.finished]

        def top_done(self):
            return 1 in self.env.finished

        def all_done(self):
            return self.top is not None and self.env.started <= self.env.finished

        def close(self):
            """Stop logging, then let every body run to its end (no generator is left suspended)."""
            env = self.env
            env.closed = True
            for _ in range(3):
                for d in range(1, self.cfg["nd"] + 1):
                    if d not in env.fired:
                        try:
                            env.leaves[d].callback(Val(d))
                        except BaseException:
                            pass
            for dd in env.leaves[1:]:
                dd.addErrback(lambda f: None)
            for dc in env.dinv.values():
                dc.addErrback(lambda f: None)
            for lst in env.later.values():
                for _, dc in lst:
                    dc.addErrback(lambda f: None)

        def trace(self):
            cfg = dict(self.cfg)
            return {"cfg": cfg, "ops": self.ops, "ev": self.env.ev}

    _RT = dict(Runner=Runner, Val=Val, Err=Err, defer=defer)
    return _RT


def run_ops(cfg, ops):
    """Replay a fixed list of driver ops; returns the trace."""
    r = runtime()["Runner"](cfg)
    for op in ops:
        r.step(tuple(op))
    t = r.trace()
    r.close()
    return t


# ----------------------------------------------------------------------------- generators

def gen_prog(rng, depth, budget, top=True):
    """Random structured program.  budget = [awaits left, spawns left]."""
    stmts = []
    for i in range(rng.randint(2, 5) if top else rng.randint(1, 3)):
        r = rng.random()
        if r < 0.42 and budget[0] > 0:
            budget[0] -= 1
            stmts.append(["await"])
        elif r < 0.47:
            stmts.append(["val", rng.randint(40, 45)])
        elif r < 0.62 and depth > 0 and budget[1] > 0:
            budget[1] -= 1
            style = rng.choice(["await", "await", "later", "forget", "inline", "yieldobj"])
            stmts.append(["spawn", style, rng.choice(MODES), gen_prog(rng, depth - 1, budget, False)])
        elif r < 0.66:
            stmts.append(["join"])
        elif r < 0.84 and depth > 0:
            body = gen_prog(rng, depth - 1, budget, False)
            kinds = rng.choice(["err", "cancel", "any", "none", "berr", "base", "base"])
            handler = gen_prog(rng, depth - 1, budget, False) if kinds != "none" and rng.random() < 0.7 else []
            fin = gen_prog(rng, depth - 1, budget, False) if rng.random() < 0.5 else []
            stmts.append(["try", body, kinds, handler, fin])
        elif r < 0.90 and depth > 0:
            stmts.append(["loop", rng.randint(2, 3), gen_prog(rng, depth - 1, budget, False)])
        elif r < 0.95 and not (top and i == 0):
            stmts.append(["ret", rng.randint(20, 25)])
            if rng.random() < 0.5:
                break
        elif r < 0.98 and not (top and i == 0):
            stmts.append(["raise", rng.randint(30, 35), rng.choice(["err", "err", "berr", "berr", "acan"])])
            if rng.random() < 0.5:
                break
        elif budget[0] > 0:
            budget[0] -= 1
            stmts.append(["await"])
    return stmts


def count_awaits(prog):
    n = 0
    for s in prog:
        if s[0] == "await":
            n += 1
        elif s[0] == "spawn":
            n += count_awaits(s[3])
        elif s[0] == "try":
            n += count_awaits(s[1]) + count_awaits(s[3]) + count_awaits(s[4])
        elif s[0] == "loop":
            n += s[1] * count_awaits(s[2])
    return n


def gen_case(rng):
    prog = gen_prog(rng, rng.choice([1, 2, 2, 3]), [rng.randint(2, ND_POOL), rng.randint(0, NG_CAP - 1)])
    nd = max(1, min(ND_POOL, count_awaits(prog) + rng.choice([0, 0, 1])))
    return dict(prog=prog, mode=rng.choice(MODES), nd=nd, ng=NG_CAP,
                ck=[rng.choice([0, 0, 0, 1, 2, 3, 4]) for _ in range(nd)])


def drive(cfg, seed, cancel_at=None, extras=True):
    """Adaptive schedule: pre-fire some leaves, start, then fire what is awaited (mostly) or other
    leaves, in random order with random outcomes; cancel() of the top-level Deferred injected at
    suspension point number cancel_at.  Deterministic in (cfg, seed, cancel_at); the resulting
    op list is stored in the trace so that it can be replayed verbatim.
    Returns (trace, number of suspension points seen)."""
    import random
    rng = random.Random(seed)
    r = runtime()["Runner"](cfg)
    ppre = rng.choice([0.0, 0.0, 0.0, 0.3, 0.6, 1.0])
    pok = rng.choice([0.2, 0.5, 0.8, 1.0])

    def outcome():      # a value, or a failure of any kind: Exception, non-Exception BaseException, asyncio.CancelledError
        return "ok" if rng.random() < pok else rng.choice(["err", "err", "err", "berr", "berr", "acan"])
    for d in range(1, cfg["nd"] + 1):
        if rng.random() < ppre:
            r.step(("fire", d, outcome()))
    r.step(("start",))
    susp = 0
    cancelled = False
    for _ in range(4 * cfg["nd"] + 12):
        if r.all_done():
            break
        if not r.top_done():
            if cancel_at is not None and susp == cancel_at:
                susp += 1
                cancelled = True
                r.step(("cancel",))
                continue
            susp += 1
        aw = r.awaited_unfired()
        un = [d for d in r.unfired() if d not in aw]
        x = rng.random()
        wc = r.waiting_children() if extras else []
        if extras and cancelled and x < 0.15:
            r.step(("cancel",))                     # cancelling again later
        elif wc and x < 0.22:
            r.step(("cancel", rng.choice(wc)))      # cancelling a nested invocation's Deferred
        elif extras and aw and x < 0.27:
            r.step(("cancelleaf", rng.choice(aw)))
        elif aw and (x < 0.8 or not un):
            r.step(("fire", rng.choice(aw), outcome()))
        elif un:
            r.step(("fire", rng.choice(un), outcome()))
        else:
            break
    if rng.random() < 0.2:
        r.step(("cancel",))                         # cancel after everything finished: no effect
    t = r.trace()
    r.close()
    return t, susp


def from_behaviour(b):
    """A TLC-generated behaviour -> (cfg with one script of moves per invocation, driver ops)."""
    nd, ng = b["cfg"]["nd"], b["cfg"]["ng"]
    ck = [0] * nd
    scripts = [[] for _ in range(ng)]
    ops = []
    mode = "icb"
    hist = b["hist"]
    for i, h in enumerate(hist):
        e = h["e"]
        if e == "start":
            mode = h["k"]
            ops.append(["start"])
        elif e == "fire":
            ops.append(["fire", h["x"], h["k"]])
        elif e == "cancel":
            ops.append(["cancel", h["g"]])
        elif e == "cancelleaf":
            ops.append(["cancelleaf", h["x"]])
        elif e == "cc":
            ck[h["x"] - 1] = {"cancelled": 1, "ok": 2, "err": 3, "berr": 4}[hist[i + 1]["k"]]
        elif e == "yield":
            scripts[h["g"] - 1].append([{"d": "yd", "v": "yv", "g": "yg"}[h["k"]], h["x"]])
        elif e == "spawn":
            scripts[h["g"] - 1].append(["sp", h["k"]])
        elif e == "spawnyield":
            scripts[h["g"] - 1].append(["sy", h["k"]])
        elif e == "return":
            scripts[h["g"] - 1].append(["ret", h["k"], h["v"]])
        elif e == "raise":
            scripts[h["g"] - 1].append(["raise", h["k"], h["v"]])
    return dict(mode=mode, nd=nd, ng=ng, ck=ck, scripts=scripts), ops


def mutate(t, rng):
    """Corrupt one logged field / drop or duplicate one observation (binding self-test)."""
    evs = t["ev"]
    idx = [i for i, e in enumerate(evs) if e["e"] in ("resume", "res", "in", "return", "raise", "yield", "cc")]
    if not idx:
        return None
    i = rng.choice(idx)
    e = evs[i]
    what = rng.choice(["val", "kind", "drop", "dup", "who"])
    if what == "val" and e["e"] in ("resume", "res", "in"):
        e["v"] += 1
    elif what == "kind" and e["e"] in ("resume", "res"):
        e["k"] = "err" if e["k"] != "err" else "ok"
    elif what == "dup" and e["e"] in ("resume", "res", "cc"):
        evs.insert(i, dict(e))
    elif what == "who" and e["e"] in ("resume", "res"):
        e["g"] += 1
    else:
        evs.pop(i)
    return t


def fingerprint(trace, rej):
    evs = trace["ev"]
    e = evs[rej.reached] if rej.reached < len(evs) else {}
    call = "-"
    for p in reversed(evs[:rej.reached]):
        if p["e"] in ("start", "fire", "cancel", "cancelleaf"):
            call = p["e"]
            break
    return "%s/in-%s/%s:%s" % (trace["cfg"]["mode"], call, e.get("e"), e.get("k"))


def nontrivial(t):
    kinds = {e["e"] for e in t["ev"]}
    return "yield" in kinds and len(kinds) >= 4


def run(ctx):
    from harness.core import MachineryError
    r = ctx.mc("InlineCBMC", ctx.pick("InlineCBMC.cfg", "InlineCBMC.thorough.cfg"))
    if not r.ok:
        raise MachineryError("InlineCB spec violates its own invariants: " + r.error)
    ctx.require_actions("InlineCBMC", ["Start", "DFireA", "DCancelA", "DCancelLeafA", "End", "CancellerCalledA", "LeafFiresA",
                                       "ResumeA", "FireResultA", "YieldLeafA", "YieldValA", "YieldChildA", "SpawnA",
                                       "SpawnYieldA", "ReturnA", "RaiseA"])
    traces = []
    nprog = ctx.pick(220, 8000)
    ncancel = 0
    for k in range(nprog):
        cfg = gen_case(ctx.rng)
        for mode in MODES:                       # the same program as generator and as coroutine
            c = dict(cfg, mode=mode)
            seed = ctx.rng.randrange(1 << 30)
            t, susp = drive(c, seed)
            traces.append(t)
            # cancellation injected at every suspension point of that run
            pts = list(range(susp))
            if ctx.quick and len(pts) > 3:
                pts = ctx.rng.sample(pts, 3)
            for j in pts:
                t2, _ = drive(c, seed, cancel_at=j)
                traces.append(t2)
                ncancel += 1
    # spec -> code: behaviours generated by TLC, the bodies' moves turned into scripted generators / coroutines
    behs = ctx.simulate("InlineCBSim", "InlineCBSim.cfg", num=ctx.pick(100, 3000), depth=70)
    drift = 0
    for b in behs:
        cfg, ops = from_behaviour(b)
        t = run_ops(cfg, ops)
        if t["ev"] != b["hist"]:
            drift += 1
        traces.append(t)
    ctx.extra["spec_behaviours_replayed"] = len(behs)
    ctx.extra["spec_behaviours_not_reproduced"] = drift
    ctx.impl_drift += drift
    ctx.extra["programs"] = nprog
    ctx.extra["runs_with_cancellation"] = ncancel
    for t in traces:
        ctx.note_trace(t, nontrivial(t))
    ctx.log("recorded %d real executions of %d programs (%d with cancellation)" % (len(traces), nprog, ncancel))
    rej = ctx.validate("InlineCBTrace", traces, shard_size=ctx.pick(400, 2500))
    for x in rej[:20]:
        t = traces[x.idx]
        ev = t["ev"][x.reached] if x.reached < len(t["ev"]) else None
        ctx.violation(fingerprint(t, x), "real %s execution not explained by InlineCB.tla at event %d %s; program=%s ops=%s; preceding events=%s" % (
            t["cfg"]["mode"], x.reached, ev, json.dumps(t["cfg"]["prog"]), t["ops"], t["ev"][max(0, x.reached - 6):x.reached]),
            dict(cfg=t["cfg"], ops=t["ops"], rejected_at=x.reached))
    bad = {x.idx for x in rej}
    good = [t for i, t in enumerate(traces) if i not in bad]
    # vacuity on the binding side: the accepted real executions contain every kind of event
    kinds = {}
    for t in good:
        for e in t["ev"]:
            key = e["e"] + (":" + e["k"] if e["e"] in ("resume", "yield", "raise") else "")
            kinds[key] = kinds.get(key, 0) + 1
    ctx.extra["event_kinds_accepted"] = kinds
    need = {"start", "fire", "cancel", "cancelleaf", "end", "cc", "in", "res", "spawn", "spawnyield", "return",
            "raise:err", "raise:cancelled", "raise:berr", "raise:acan", "resume:ok", "resume:err", "resume:cancelled",
            "resume:berr", "resume:acan", "yield:d", "yield:g", "yield:v"}
    if (need - set(kinds)) and not rej:
        raise MachineryError("vacuity: event kinds never observed: %s" % sorted(need - set(kinds)))
    ctx.selftest_rejects("InlineCBTrace", [t for t in good if nontrivial(t)][-300:], mutate, n=24)


def replay(ctx, obj):
    t = run_ops(obj["cfg"], obj["ops"])
    ctx.note_trace(t, nontrivial(t))
    rej = ctx.validate("InlineCBTrace", [t])
    for x in rej:
        ctx.violation(fingerprint(t, x), "replayed history rejected at event %d: %s" % (
            x.reached, t["ev"][x.reached] if x.reached < len(t["ev"]) else None),
            dict(cfg=t["cfg"], ops=t["ops"], rejected_at=x.reached))
    for i, e in enumerate(t["ev"]):
        print(i, e)
