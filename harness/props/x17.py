"""X17 (extension, not a listed property) -- defer.Deferred.addTimeout and task.deferLater on task.Clock.
Spec: specs/DTimeout.tla.  Reported under coverage.extra_modules of the nearest property (C03).

One REAL Deferred per history: either Deferred(canceller) fired by the user, or the Deferred returned by the REAL
task.deferLater(clock, lt, f).  Optionally its first callback (the "gate") answers a success with a fresh inner
Deferred (so d is called but paused).  Probe callbacks (addBoth, pass-through) sit before the first and after every
addTimeout; they, the user's canceller, f and the onTimeoutCancel callables record their arguments.  The only fake is
the boundary: task.Clock, subclassed to remember the IDelayedCall objects it hands out so that after every public call
the state of every delayed call (armed / fired / cancelled, via the public .called / .cancelled / getTime()) is logged.
One event per public call: addTimeout, callback, errback, release (inner.callback), cancel, clock.advance."""

META = dict(
    id="X17", extension=True, nearest="C03",
    specs=["DTimeout.tla", "DTimeoutMC.tla", "DTimeoutTrace.tla"],
    technique="TLA+ spec of Deferred.addTimeout / deferLater (result-vs-timeout-vs-cancel race, onTimeoutCancel translation, "
              "delayed-call bookkeeping, chained timeouts, paused chains) + TLC trace validation of the real Deferred on task.Clock "
              "(exhaustive-short and seeded-random histories)",
    level_text="extension module: grows the specification beyond the listed properties",
    level_note="not a listed property; alarms are reported as EXTRA-ALARM, never as VIOLATION.  One Deferred per history; integer "
               "times; callbacks never re-enter the Deferred or the clock; the user never fires deferLater's Deferred by hand; "
               "the inner Deferred of the gate has no canceller; Deferred debug mode off",
    design_ref="4 (extensions)",
    rule="history of addTimeout(t, kind)/callback/errback/release/cancel/advance(d) on one Deferred per configuration "
         "(source, canceller kind, gate, deferLater delay and f kind); an op whose precondition does not hold is dropped; "
         "distinct by (cfg, event sequence)",
)

OTC_KINDS = ["default", "value", "reraise", "other"]
CANC_KINDS = ["none", "ignore", "errc", "value", "erro"]
F_KINDS = ["val", "raise", "nil"]


def all_cfgs(lts=(1, 2)):
    out = [dict(src="user", canc=c, gate=g, lt=0, fk="na") for c in CANC_KINDS for g in (False, True)]
    out += [dict(src="later", canc="later", gate=False, lt=t, fk=f) for t in lts for f in F_KINDS]
    return out


def run_history(cfg, ops):
    from twisted.internet import defer, task
    from twisted.python.failure import Failure

    made = []

    class RecClock(task.Clock):
        def callLater(self, delay, f, *a, **kw):
            dc = task.Clock.callLater(self, delay, f, *a, **kw)
            made.append(dc)
            return dc

    class UserError(Exception):
        pass

    class CancellerError(Exception):
        pass

    class OtherError(Exception):
        pass

    class FError(Exception):
        pass

    clock = RecClock()
    probes, otcs = [], []
    cnt = dict(canc=0, fr=0)
    box = dict(inner=None)

    def rep(x):
        if isinstance(x, Failure):
            v = x.value
            if isinstance(v, defer.TimeoutError):
                a = v.args[0] if v.args and isinstance(v.args[0], (int, float)) and v.args[0] == int(v.args[0]) else -1
                return ["ERR", "TimeoutError", int(a)]
            return ["ERR", type(v).__name__, 0]
        if x is None:
            return ["OK", "None", 0]
        return ["OK", x if isinstance(x, str) else repr(x), 0]

    def probe(i):
        def p(r):
            probes.append([i] + rep(r))
            return r
        return p

    def otc(i, kind):
        if kind == "default":
            return None

        def f(value, timeout):
            otcs.append([i] + rep(value) + [int(timeout) if timeout == int(timeout) else -1])
            if kind == "value":
                return "ov"
            if kind == "other":
                raise OtherError()
            if isinstance(value, Failure):
                value.raiseException()
            return value
        return f

    def canceller(d):
        cnt["canc"] += 1
        k = cfg["canc"]
        if k == "errc":
            d.errback(Failure(defer.CancelledError()))
        elif k == "value":
            d.callback("cv")
        elif k == "erro":
            d.errback(Failure(CancellerError()))

    def gate(v):
        box["inner"] = defer.Deferred()
        return box["inner"]

    def f():
        cnt["fr"] += 1
        if cfg["fk"] == "raise":
            raise FError()
        return "fv"

    if cfg["src"] == "user":
        d = defer.Deferred(None if cfg["canc"] == "none" else canceller)
        if cfg["gate"]:
            d.addCallback(gate)
    else:
        if cfg["fk"] == "nil":
            d = task.deferLater(clock, cfg["lt"])

            def count_nil(r):          # f is absent: count the firing of the call through the first callback instead
                cnt["fr"] += 1
                return r
            d.addCallback(count_nil)
        else:
            d = task.deferLater(clock, cfg["lt"], f)
    d.addBoth(probe(0))
    nt = 0
    ev = []
    for op in ops:
        del probes[:], otcs[:]
        c0, f0 = cnt["canc"], cnt["fr"]
        exc = ""
        e = {"e": op[0]}
        try:
            if op[0] == "addTimeout":
                nt += 1
                e["t"], e["k"] = op[1], op[2]
                r = d.addTimeout(op[1], clock, otc(nt, op[2]))
                if r is not d:
                    exc = "returned-other-object"
                d.addBoth(probe(nt))
            elif op[0] in ("callback", "errback"):
                if cfg["src"] != "user":
                    continue
                if op[0] == "callback":
                    d.callback("v")
                else:
                    d.errback(Failure(UserError()))
            elif op[0] == "release":
                if box["inner"] is None:
                    continue
                box["inner"].callback("gv")
            elif op[0] == "cancel":
                d.cancel()
            elif op[0] == "advance":
                e["d"] = op[1]
                clock.advance(op[1])
            else:
                raise ValueError(op)
        except (defer.AlreadyCalledError, defer.CancelledError, defer.TimeoutError) as x:
            exc = type(x).__name__
        except Exception as x:                 # anything else the public call raised is an observation, too
            exc = "%s.%s" % (type(x).__module__, type(x).__name__)
        e["probes"] = [list(p) for p in probes]
        e["otcs"] = [list(o) for o in otcs]
        e["canc"] = cnt["canc"] - c0
        e["fr"] = cnt["fr"] - f0
        e["exc"] = exc
        e["calls"] = [[int(dc.getTime()) if dc.getTime() == int(dc.getTime()) else -1,
                       "cancelled" if dc.cancelled else "fired" if dc.called else "armed"] for dc in made]
        ev.append(e)
    d.addErrback(lambda f: None)
    if box["inner"] is not None:
        box["inner"].addErrback(lambda f: None)
    return {"cfg": cfg, "ops": [list(o) for o in ops], "ev": ev}


def alphabet(cfg, ts=(1, 2), kinds=OTC_KINDS):
    a = [("addTimeout", t, k) for t in ts for k in kinds] + [("cancel",), ("advance", 1)]
    if cfg["src"] == "user":
        a += [("callback",), ("errback",)]
        if cfg["gate"]:
            a.append(("release",))
    return a


def exhaustive(cfg, depth, ts=(1, 2), kinds=OTC_KINDS):
    """Every history of exactly `depth` ops over the alphabet with at most two addTimeouts, at least one addTimeout
    (deferLater: none needed), and no op dropped (so every history is a distinct event sequence)."""
    import itertools
    out = []
    for ops in itertools.product(alphabet(cfg, ts, kinds), repeat=depth):
        na = sum(1 for o in ops if o[0] == "addTimeout")
        if na > 2 or (na == 0 and cfg["src"] == "user"):
            continue
        t = run_history(cfg, ops)
        if len(t["ev"]) == depth:
            out.append(t)
    return out


def random_cfg(rng):
    if rng.random() < 0.7:
        return dict(src="user", canc=rng.choice(CANC_KINDS), gate=rng.random() < 0.4, lt=0, fk="na")
    return dict(src="later", canc="later", gate=False, lt=rng.choice([0, 1, 2, 3, 5]), fk=rng.choice(F_KINDS))


def random_ops(rng, cfg, n):
    ops = []
    na = 0
    for _ in range(n):
        r = rng.random()
        if r < 0.25 and na < 3:
            na += 1
            ops.append(("addTimeout", rng.choice([0, 1, 2, 3, 4]), rng.choice(OTC_KINDS + ["default"] * 2)))
        elif r < 0.6:
            ops.append(("advance", rng.choice([0, 1, 1, 1, 2, 3])))
        elif r < 0.72:
            ops.append(("cancel",))
        elif r < 0.84:
            ops.append(("callback",))
        elif r < 0.92:
            ops.append(("errback",))
        else:
            ops.append(("release",))
    return ops


def fingerprint(t, x):
    e = t["ev"][x.reached] if x.reached < len(t["ev"]) else None
    return "dtimeout/%s/%s" % (t["cfg"]["src"], (e or {}).get("e")), e


ACTIONS = ["AddTimeout", "Callback", "Errback", "Release", "Cancel", "Advance"]


def run(ctx):
    ctx.mc("DTimeoutMC", ctx.pick("DTimeoutMC.cfg", "DTimeoutMC.thorough.cfg"))
    ctx.require_actions("DTimeoutMC", ACTIONS)
    traces = []
    # exhaustive-short: every history of exactly 3 applicable ops, every configuration; thorough adds every history of
    # 4 ops over the alphabet with onTimeoutCancel kinds default / value only
    for cfg in all_cfgs():
        traces += exhaustive(cfg, 3)
    nexh = len(traces)
    ctx.log("exhaustive histories of length 3 over %d configurations: %d" % (len(all_cfgs()), nexh))
    if not ctx.quick:
        for cfg in all_cfgs():
            traces += exhaustive(cfg, 4, kinds=["default", "value"])
        ctx.log("exhaustive histories of length 4 (kinds default/value): %d" % (len(traces) - nexh))
        nexh = len(traces)
    for _ in range(ctx.pick(3000, 40000)):
        cfg = random_cfg(ctx.rng)
        t = run_history(cfg, random_ops(ctx.rng, cfg, ctx.rng.randint(3, 16)))
        if t["ev"]:
            traces.append(t)
    ctx.extra["exhaustive_short_histories"] = nexh
    ctx.extra["random_histories"] = len(traces) - nexh
    ctx.extra["timeouts_reported_observed"] = sum(1 for t in traces for e in t["ev"] if e["e"] == "advance"
                                                  and any(p[2] == "TimeoutError" for p in e["probes"]))
    ctx.extra["user_cancels_observed"] = sum(1 for t in traces for e in t["ev"] if e["e"] == "cancel" and e["probes"])
    ctx.extra["double_expiry_histories_observed"] = sum(1 for t in traces if t["cfg"]["src"] == "user" and t["ev"]
                                                        and sum(1 for c in t["ev"][-1]["calls"] if c[1] == "fired") >= 2)
    ctx.extra["paused_chain_timeouts_observed"] = sum(1 for t in traces if t["cfg"]["gate"] for e in t["ev"]
                                                      if e["e"] == "advance" and e["probes"] and e["canc"] == 0 and t["cfg"]["canc"] != "none")
    ctx.extra["deferLater_f_runs_observed"] = sum(e["fr"] for t in traces for e in t["ev"])
    ctx.note_traces(traces)
    rej = ctx.validate("DTimeoutTrace", traces, shard_size=ctx.pick(6000, 12000))
    seen = set()
    for x in rej:
        t = traces[x.idx]
        fp, e = fingerprint(t, x)
        if fp in seen or len(seen) >= 10:
            continue
        seen.add(fp)
        ctx.violation(fp, "addTimeout/deferLater execution not explained by DTimeout.tla at event %d: %s" % (x.reached, e),
                      dict(cfg=t["cfg"], ops=t["ops"]))

    def mutate(t, rng):
        i = rng.randrange(len(t["ev"]))
        e = t["ev"][i]
        which = rng.choice(["probe", "calls", "exc", "drop", "dup"])
        if which == "probe":
            if e["probes"]:
                p = rng.choice(e["probes"])
                p[1], p[2], p[3] = ("OK", "v", 0) if p[1] == "ERR" else ("ERR", "TimeoutError", 1)
            else:
                e["probes"] = [[0, "ERR", "TimeoutError", 1]]
        elif which == "calls":
            if not e["calls"]:
                return None
            c = rng.choice(e["calls"])
            c[1] = "armed" if c[1] != "armed" else "cancelled"
        elif which == "exc":
            e["exc"] = "AlreadyCalledError" if not e["exc"] else ""
        elif which == "drop":
            c = [k for k, x in enumerate(t["ev"][:-1]) if x["probes"] or x["e"] == "addTimeout"]
            if not c:
                return None
            del t["ev"][rng.choice(c)]
        else:
            c = [k for k, x in enumerate(t["ev"]) if x["probes"]]
            if not c:
                return None
            k = rng.choice(c)
            t["ev"][k]["probes"].append(list(t["ev"][k]["probes"][-1]))      # a probe fires twice
        return t
    bad = {x.idx for x in rej}
    good = [t for i, t in enumerate(traces) if i not in bad and len(t["ev"]) >= 3]
    ctx.selftest_rejects("DTimeoutTrace", good[nexh // 2:nexh // 2 + 200] + good[-200:], mutate, n=20)


def replay(ctx, obj):
    t = run_history(obj["cfg"], [tuple(o) for o in obj["ops"]])
    for e in t["ev"]:
        print(e)
    for x in ctx.validate("DTimeoutTrace", [t]):
        ctx.violation("dtimeout/replay", "rejected at %d" % x.reached, dict(cfg=t["cfg"], ops=t["ops"]))
