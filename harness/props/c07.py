"""C07 -- DeferredQueue delivers each object once, in order, within its bounds.

Spec:     specs/DQueue.tla (+ DQueueMC for exhaustive TLC, DQueueTrace for trace validation)
Binding:  real twisted.internet.defer.DeferredQueue driven along exhaustive short
          histories and seeded random long ones; one event per public call, carrying the call's
          outcome and the deliveries (get id, object id) its callbacks observed.  TLC decides.
"""
import itertools

META = dict(
    id="C07",
    specs=["DQueue.tla", "DQueueMC.tla", "DQueueTrace.tla", "DQueueSim.tla"],
    technique="TLA+ spec of the queue (TLC exhaustive over all 16 size/backlog configs) + TLC trace validation of real DeferredQueue executions (exhaustive short histories, random long ones)",
    level_text="TLC checks the delivery-history invariants (exactly once, FIFO, no delivery to cancelled gets, overflow/underflow exactly at the limits) on the specification for every history up to the stated depth, and every recorded execution of the real DeferredQueue is validated by TLC as a behaviour of that specification with every logged outcome matched.",
    level_note="Trusted: TLC, the adapter's logging of callback arguments and exception classes. Values are abstracted to object identities. Histories beyond the enumerated depth are sampled.",
    design_ref="2.3 C07",
    rule="history = sequence of put/get/cancel(g) calls on one queue; distinct = hash of (cfg, events); non-trivial = at least two different call kinds",
)

NONE = -1


def run_history(cfg, ops):
    """Run ops on a real DeferredQueue; return the trace dict.

    ("getput",) is a get whose callback, when it fires, immediately issues a further put() (a re-entrant
    operation: it runs inside the put() - or right after the get() - that serves this get).  Events are
    logged in linearisation order: the serving call first, then the nested put as an ordinary put event."""
    from twisted.internet import defer

    q = defer.DeferredQueue(size=None if cfg["size"] == NONE else cfg["size"],
                            backlog=None if cfg["backlog"] == NONE else cfg["backlog"])
    gets = []          # Deferreds returned by get() (None for underflowed calls)
    reput = set()      # get ids whose callback issues a nested put
    stack = [[]]       # deliveries observed by the call currently executing (innermost last)
    nested = []        # events of nested puts, in the order they were issued
    state = {"nobj": 0}
    ev = []

    class Obj:
        def __init__(self, n):
            self.n = n

    def do_put():
        state["nobj"] += 1
        stack.append([])
        try:
            q.put(Obj(state["nobj"]))
            res = "ok"
        except defer.QueueOverflow:
            res = "overflow"
        except BaseException as e:  # not an action of the spec
            res = "EXC:" + type(e).__name__
        dl = stack.pop()
        return {"e": "put", "res": res, "dl": [list(x) for x in dl]}

    def on_ok(o, g):
        stack[-1].append([g, o.n])
        if g in reput:
            reput.discard(g)
            slot = len(nested)
            nested.append(None)          # keep issue order: this nested put precedes the ones it causes
            e = do_put()
            e["nested"] = True
            nested[slot] = e

    def on_err(f, g):
        stack[-1].append([g, "ERR:" + f.type.__name__])

    def flush(first):
        ev.append(first)
        ev.extend(x for x in nested if x is not None)
        del nested[:]

    for op in ops:
        del stack[1:]
        del stack[0][:]
        if op[0] == "put":
            flush(do_put())
        elif op[0] in ("get", "getput"):
            g = len(gets) + 1
            if op[0] == "getput":
                reput.add(g)
            try:
                d = q.get()
                d.addCallbacks(on_ok, on_err, callbackArgs=(g,), errbackArgs=(g,))
                gets.append(d)
                dl = stack[0]
                res = "now" if dl else "wait"
            except defer.QueueUnderflow:
                gets.append(None)
                reput.discard(g)
                dl = []
                res = "underflow"
            except BaseException as e:
                gets.append(None)
                dl = []
                res = "EXC:" + type(e).__name__
            flush({"e": "get", "res": res, "dl": [list(x) for x in dl]})
        else:
            g = op[1]
            d = gets[g - 1]
            res = "noop"
            dl = stack[0]
            if d is not None:
                try:
                    d.cancel()
                except BaseException as e:
                    res = "EXC:" + type(e).__name__
                if dl == [[g, "ERR:CancelledError"]]:
                    res = "cancelled"
                    del dl[:]
                    reput.discard(g)
            flush({"e": "cancel", "g": g, "res": res, "dl": [list(x) for x in dl]})
    return {"cfg": cfg, "ops": [list(o) for o in ops], "ev": ev}


def exhaustive(depth):
    """All op sequences up to `depth` (cancel targets any earlier get)."""
    def rec(prefix, ngets, left):
        yield prefix
        if not left:
            return
        yield from rec(prefix + [("put",)], ngets, left - 1)
        yield from rec(prefix + [("get",)], ngets + 1, left - 1)
        yield from rec(prefix + [("getput",)], ngets + 1, left - 1)
        for g in range(1, ngets + 1):
            yield from rec(prefix + [("cancel", g)], ngets, left - 1)
    # only maximal or all prefixes?  every prefix is itself a history; keep only leaves (length = depth)
    for h in rec([], 0, depth):
        if len(h) == depth:
            yield h


def random_history(rng, n):
    ops = []
    ngets = 0
    for _ in range(n):
        r = rng.random()
        if r < 0.4:
            ops.append(("put",))
        elif r < 0.8 or ngets == 0:
            ops.append(("getput",) if rng.random() < 0.3 else ("get",))
            ngets += 1
        else:
            # bias to recent gets (more likely still waiting)
            g = ngets - int(rng.random() ** 2 * min(ngets, 6))
            ops.append(("cancel", max(1, g)))
    return ops


def mutate(t, rng):
    """Corrupt one logged field (binding self-test)."""
    evs = t["ev"]
    cands = [i for i, e in enumerate(evs) if e["dl"]]
    if cands and rng.random() < 0.5:
        i = rng.choice(cands)
        evs[i]["dl"][0][1] += 1          # wrong object delivered
    elif evs:
        i = rng.randrange(len(evs))
        e = evs[i]
        flip = {"ok": "overflow", "overflow": "ok", "now": "wait", "wait": "underflow", "underflow": "wait",
                "cancelled": "noop", "noop": "cancelled"}
        e["res"] = flip.get(e["res"], "ok")
    else:
        return None
    return t


def fingerprint(trace, rej):
    e = trace["ev"][rej.reached] if rej.reached < len(trace["ev"]) else {}
    return "%s/%s" % (e.get("e"), e.get("res"))


def run(ctx):
    lims = [NONE, 0, 1, 2]
    r = ctx.mc("DQueueMC", ctx.pick("DQueueMC.cfg", "DQueueMC.thorough.cfg"))
    if not r.ok:
        # a design-level counterexample in the Abs spec itself is a machinery defect (the spec *is* the property)
        from harness.core import MachineryError
        raise MachineryError("DQueue spec violates its own invariants: " + r.error)
    ctx.require_actions("DQueueMC", ["PutDeliver", "PutQueue", "PutOverflow", "GetNow", "GetWait", "GetUnderflow", "CancelWaiting", "CancelNoop"])

    depth = ctx.pick(5, 7)
    traces = []
    for s, b in itertools.product(lims, lims):
        cfg = {"size": s, "backlog": b}
        for h in exhaustive(depth):
            traces.append(run_history(cfg, h))
    ctx.exhaustive = True
    ctx.extra["exhaustive_depth"] = depth
    nrand = ctx.pick(2000, 60000)
    for i in range(nrand):
        cfg = {"size": ctx.rng.choice(lims + [5]), "backlog": ctx.rng.choice(lims + [5])}
        traces.append(run_history(cfg, random_history(ctx.rng, ctx.rng.randint(8, 40))))
    # spec -> code: behaviours generated by TLC from the specification are stepped through the real queue;
    # the real outcome of every step must be the one TLC predicted (checked again by TLC in validate()).
    behs = ctx.simulate("DQueueSim", "DQueueSim.cfg", num=ctx.pick(100, 3000), depth=15)
    drift = 0
    for b in behs:
        ops = [("cancel", h["g"]) if h["e"] == "cancel" else (h["e"],) for h in b["hist"]]
        t = run_history(b["cfg"], ops)
        predicted = [{k: h[k] for k in ("e", "res", "dl")} for h in b["hist"]]
        if [{k: e[k] for k in ("e", "res", "dl")} for e in t["ev"]] != predicted:
            drift += 1
        traces.append(t)
    ctx.extra["spec_behaviours_replayed"] = len(behs)
    ctx.extra["spec_behaviours_not_reproduced"] = drift   # each of these is also rejected by TLC below
    ctx.note_traces(traces)
    ctx.log("recorded %d real executions" % len(traces))
    rej = ctx.validate("DQueueTrace", traces, shard_size=4000)
    for x in rej[:20]:
        t = traces[x.idx]
        ev = t["ev"][x.reached] if x.reached < len(t["ev"]) else None
        ctx.violation(fingerprint(t, x), "real DeferredQueue execution not explained by DQueue.tla at event %d: %s" % (x.reached, ev),
                      dict(cfg=t["cfg"], ops=t["ops"], rejected_at=x.reached))
    good = [t for i, t in enumerate(traces) if i not in {x.idx for x in rej}]
    ctx.selftest_rejects("DQueueTrace", good[-200:], mutate, n=20)


def replay(ctx, obj):
    t = run_history(obj["cfg"], [tuple(o) for o in obj["ops"]])
    ctx.note_trace(t)
    rej = ctx.validate("DQueueTrace", [t])
    for x in rej:
        ctx.violation(fingerprint(t, x), "replayed history rejected at event %d: %s" % (x.reached, t["ev"][x.reached] if x.reached < len(t["ev"]) else None),
                      dict(cfg=t["cfg"], ops=t["ops"], rejected_at=x.reached))
    for e in t["ev"]:
        print(e)
