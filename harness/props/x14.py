"""X14 (extension, not a listed property) -- twisted.protocols.ftp.FTP control-connection state machine and
DTP (data connection) life cycle.  Spec: specs/FtpSession.tla.  Reported under coverage.extra_modules of C54."""
import itertools

META = dict(
    id="X14", extension=True, nearest="C54",
    specs=["FtpSession.tla", "FtpSessionMC.tla", "FtpSessionTrace.tla"],
    technique="TLA+ spec of the FTP server session (auth states, command gating, pipelined command queue, PASV/PORT DTP life cycle, logout) + TLC trace validation of the real ftp.FTP / DTPFactory / DTP driven over StringTransport with a real Portal, an in-memory shell, a recording listening port / real BaseConnector and an in-memory reactor clock",
    level_text="extension module: grows the specification beyond the listed properties",
    level_note="not a listed property; alarms are reported as EXTRA-ALARM, never as VIOLATION. Trusted: TLC, MemoryReactorClock, StringTransport, the fake port/connector (the connector's own 30 s connect timeout and EPSV/EPRT are not modelled); the history ends at control-connection loss (only the clock advances afterwards)",
    design_ref="4 (extensions)",
    rule="history of command lines (pipelined while a command is outstanding) / data-connect / connect-fail / clock advance / pump / data / data-lost / control-lost; exhaustive short suffixes after fixed prefixes plus seeded random histories; distinct by event sequence",
)

CMDS = ([("cmd", "USER", u) for u in ("alice", "anonymous", "bob", "")] + [("cmd", "PASS", p) for p in ("pw", "bad", "")]
        + [("cmd", "RETR", "f"), ("cmd", "RETR", "nx"), ("cmd", "STOR", "f"), ("cmd", "RNFR", "a"), ("cmd", "RNTO", "b")]
        + [("cmd", c, "") for c in ("PASV", "PORT", "LIST", "NOOP", "REIN", "QUIT", "FEAT")])
ENV = [("dconn",), ("dfail",), ("adv", 1), ("adv", 2), ("dpump",), ("ddata",), ("dlost",), ("clost",)]
ALPHA = CMDS + ENV
LOGIN = [("cmd", "USER", "alice"), ("cmd", "PASS", "pw")]
PREFIXES = [
    [],
    [("cmd", "USER", "alice")],
    LOGIN,
    LOGIN + [("cmd", "PASV", "")],
    LOGIN + [("cmd", "PORT", "")],
    LOGIN + [("cmd", "PASV", ""), ("dconn",)],
    LOGIN + [("cmd", "PORT", ""), ("dconn",)],
    LOGIN + [("cmd", "PASV", ""), ("dconn",), ("cmd", "RETR", "f")],
    LOGIN + [("cmd", "PORT", ""), ("dconn",), ("cmd", "STOR", "f")],
    LOGIN + [("cmd", "PASV", ""), ("dconn",), ("cmd", "LIST", "")],
    LOGIN + [("cmd", "PORT", ""), ("adv", 2)],
    LOGIN + [("cmd", "RNFR", "a")],
    LOGIN + [("cmd", "PASV", ""), ("cmd", "RETR", "f"), ("cmd", "NOOP", "")],
]


def random_ops(rng):
    ops = []
    if rng.random() < 0.8:
        ops += LOGIN
    for _ in range(rng.randint(3, 28)):
        r = rng.random()
        if r < 0.5:
            c = rng.choice(CMDS)
            if c[1] in ("USER", "PASS", "QUIT", "REIN", "FEAT") and rng.random() < 0.6:
                c = rng.choice([("cmd", "PASV", ""), ("cmd", "PORT", ""), ("cmd", "LIST", ""), ("cmd", "RETR", "f"),
                                ("cmd", "STOR", "f"), ("cmd", "NOOP", "")])
            ops.append(c)
        elif r < 0.97:
            ops.append(rng.choice(ENV[:-1] + [("dconn",), ("dconn",), ("dlost",), ("dpump",)]))
        else:
            ops.append(("clost",))
    return ops


DEEP = (2, 5, 6)      # indices into PREFIXES explored one level deeper


def histories(ctx):
    """Exhaustive suffixes over the whole alphabet (27 ops) after every prefix: quick = length <= 1 everywhere and
    <= 2 after login / an established passive / active data connection; thorough = <= 2 everywhere, <= 3 after login."""
    out = []
    for i, pre in enumerate(PREFIXES):
        depth = ctx.pick(2 if i in DEEP else 1, 3 if i == 2 else 2)
        for n in range(0, depth + 1):
            for suf in itertools.product(ALPHA, repeat=n):
                out.append(pre + list(suf))
    nexh = len(out)
    for _ in range(ctx.pick(1200, 20000)):
        out.append(random_ops(ctx.rng))
    return out, nexh


def run(ctx):
    from harness.adapters import x14_ftp as A
    ctx.mc("FtpSessionMC", ctx.pick("FtpSessionMC.cfg", "FtpSessionMC.thorough.cfg"))
    ctx.require_actions("FtpSessionMC", ["Open", "Cmd", "DConn", "DFail", "Adv", "DPump", "DData", "DLost", "CLost"])
    hs, nexh = histories(ctx)
    traces, seen, errs = [], set(), {}
    for ops in hs:
        t = A.run_history({"T": ctx.rng.choice([1, 2, 3])}, ops)
        for k, v in t.pop("errs").items():
            errs[k] = errs.get(k, 0) + v
        key = (t["cfg"]["T"], repr(t["ev"]))
        if key in seen:
            continue
        seen.add(key)
        traces.append(t)
    ctx.extra["histories_run"] = len(hs)
    ctx.extra["exhaustive_suffix_histories"] = nexh
    ctx.extra["exceptions_escaping_into_the_reactor"] = errs
    ctx.log("%d histories run (%d exhaustive-suffix), %d distinct traces, %d events" % (len(hs), nexh, len(traces), sum(len(t["ev"]) for t in traces)))
    ctx.note_traces(traces)
    rej = ctx.validate("FtpSessionTrace", traces, shard_size=ctx.pick(800, 2500))
    for r in rej[:10]:
        t = traces[r.idx]
        e = t["ev"][r.reached] if r.reached < len(t["ev"]) else None
        ctx.violation("ftpsession/%s/%s" % ((e or {}).get("e"), (e or {}).get("c", "")),
                      "ftp.FTP session not explained by FtpSession.tla at event %d: %s" % (r.reached, e),
                      dict(cfg=t["cfg"], ops=t["ops"]))

    def mutate(t, rng):
        i = rng.randrange(len(t["ev"]))
        e = t["ev"][i]
        k = rng.choice(["codes", "stop", "lo", "paused", "tm", "op"])
        if k == "codes":
            e["codes"] = e["codes"][:-1] if e["codes"] else [200]
        elif k == "stop":
            e["stop"] = [] if e["stop"] else [1]
        elif k == "lo":
            e["lo"] = [] if e["lo"] else [1]
        elif k == "paused":
            e["paused"] = not e["paused"]
        elif k == "tm":
            e["tm"] = 1 - min(e["tm"], 1)
        else:
            e["op"] = [] if e["op"] else [[9, "L"]]
        return t
    bad = {r.idx for r in rej}
    ctx.selftest_rejects("FtpSessionTrace", [t for i, t in enumerate(traces) if i not in bad][:200], mutate, n=12)


def replay(ctx, obj):
    from harness.adapters import x14_ftp as A
    t = A.run_history(obj["cfg"], [tuple(o) for o in obj["ops"]])
    t.pop("errs")
    for e in t["ev"]:
        print({k: v for k, v in e.items() if v not in ([], 0, False) or k == "e"})
    for r in ctx.validate("FtpSessionTrace", [t]):
        ctx.violation("ftpsession/replay", "rejected at %d" % r.reached, dict(cfg=t["cfg"], ops=t["ops"]))
