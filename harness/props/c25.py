"""C25 -- static file range requests return exactly the requested bytes.

Spec:     specs/RangeReq.tla (RFC 9110 section 14 transcribed: syntax, satisfiability, resolution, the
          relation of allowed responses, and the same property restated pointwise on byte positions),
          RangeReqMC (exhaustive over all small cases, also *emits* the cases), RangeReqTrace.
Binding:  every case TLC enumerated is sent as real bytes (GET and HEAD) to a real
          twisted.web.server.Site / HTTPChannel serving a real twisted.web.static.File; the bytes
          written to the transport are parsed (status, Content-Range, Content-Length, body,
          multipart parts split on the announced boundary) and TLC decides whether that response is
          one the specification allows.  Larger files (<= 64 KiB) and longer headers are sampled.
"""
import os
import re

META = dict(
    id="C25",
    specs=["RangeReq.tla", "RangeReqMC.tla", "RangeReqTrace.tla"],
    technique="RFC 9110 range semantics transcribed as TLA+ operators (Pattern C); TLC proves the response relation against a pointwise byte-level restatement for all small cases and emits the cases; each is replayed (GET and HEAD) on the real static.File behind a real HTTPChannel and the parsed response is validated by TLC",
    level_text="TLC checks for every file size, Range header (valid, malformed, suffix, open-ended, reversed, overlapping, unsatisfiable; up to the stated bounds) and method that the specified responses deliver exactly the requested bytes with matching Content-Range/Content-Length, 200 when the header must be ignored and 416 when nothing is satisfiable; every response of the real static.File to each of those cases, and to sampled larger ones, is validated by TLC against that specification.",
    level_note="Trusted: TLC, the adapter's HTTP response / multipart parser and its lossless run-length description of bodies (file byte i = i mod m; for files longer than m an offset error that is a multiple of m is not visible). HEAD may ignore Range (RFC 9110 14.2) or mirror GET; coalescing of overlapping ranges, the spelling 'Bytes', 416 vs 200 for a suffix range on an empty file are left free. Numbers beyond 2^31 are not generated.",
    design_ref="2.7 C25",
    rule="case = (file size, modulus, method, abstract Range header); distinct = hash of (cfg, recorded response); non-trivial = the header is present",
)

BAD_KINDS = ("dash", "num", "alpha", "neg", "plus", "under", "three")
_state = {}


# ----------------------------------------------------------------------------- concretisation
def spec_bytes(s, rng=None):
    k, a, b = s["k"], s["a"], s["b"]

    def num(n):
        if rng is not None and rng.random() < 0.15:
            return "0" * rng.randint(1, 3) + str(n)       # leading zeros are 1*DIGIT too
        return str(n)
    if k == "ab":
        return "%s-%s" % (num(a), num(b))
    if k == "from":
        return "%s-" % num(a)
    if k == "suffix":
        return "-%s" % num(a)
    if k == "empty":
        return ""
    if k == "dash":
        return "-"
    if k == "num":
        return "%d" % a
    if k == "alpha":
        return "x-%d" % b
    if k == "neg":
        return "--%d" % a
    if k == "plus":
        return "+%d-%d" % (a, b)
    if k == "under":
        return "0_%d-0_%d" % (a, b)
    if k == "space":
        return "%d - %d" % (a, b)
    if k == "three":
        return "%d-%d-%d" % (a, b, b)
    raise ValueError(k)


def header_bytes(h, rng=None):
    if not h["present"]:
        return None
    seps = [","] if rng is None else [rng.choice([",", ", ", " ,", "\t,  "]) for _ in h["specs"]]
    body = ""
    for i, s in enumerate(h["specs"]):
        if i:
            body += seps[i % len(seps)]
        body += spec_bytes(s, rng)
    unit = {"bytes": "bytes=", "Bytes": "Bytes=", "other": "items=", "noeq": "bytes "}[h["unit"]]
    return (unit + body).encode("ascii")


# ----------------------------------------------------------------------------- the real server
def _setup(workdir):
    """Real Site over a directory of static files; pull producers are driven by a Cooperator on a
    bounded FIFO of scheduled calls (the harness's stand-in for the reactor loop)."""
    from twisted.logger import globalLogBeginner
    from twisted.web import server, static

    if _state.get("dir") and os.path.isdir(_state["dir"]):
        return _state
    try:
        globalLogBeginner.beginLoggingTo([lambda e: None], redirectStandardIO=False, discardBuffer=True)
    except Exception:
        pass
    d = os.path.join(workdir, "c25-files")
    os.makedirs(d, exist_ok=True)
    _state.update(dir=d, site=server.Site(static.File(d)), files=set(), pat={})
    return _state


def _file(st, size, mod):
    name = "f%d_%d.bin" % (size, mod)
    if name not in st["files"]:
        with open(os.path.join(st["dir"], name), "wb") as f:
            f.write(bytes(i % mod for i in range(size)))
        st["files"].add(name)
    return name


def runs_of(data, mod, st):
    """Lossless description of `data`: maximal runs <<v, n>> of bytes v, v+1, ... (mod `mod`)."""
    pat = st["pat"].get(mod)
    if pat is None or len(pat) < len(data) + mod:
        pat = bytes(i % mod for i in range(mod)) * ((len(data) + 2 * mod) // mod + 1)
        st["pat"][mod] = pat
    out = []
    i = 0
    n = len(data)
    while i < n:
        v = data[i]
        if v >= mod:
            out.append([v, 1])
            i += 1
            continue
        lo, hi = 1, n - i          # longest k with data[i:i+k] == pat[v:v+k]
        if data[i:i + hi] == pat[v:v + hi]:
            k = hi
        else:
            while lo < hi:          # invariant: prefix of length lo matches, length hi+... unknown
                mid = (lo + hi + 1) // 2
                if data[i:i + mid] == pat[v:v + mid]:
                    lo = mid
                else:
                    hi = mid - 1
            k = lo
        out.append([v, k])
        i += k
    return out


_CR_RANGE = re.compile(rb"^bytes (\d+)-(\d+)/(\d+)$")
_CR_UNSAT = re.compile(rb"^bytes \*/(\d+)$")


def parse_cr(vals):
    if not vals:
        return ["none", 0, 0, 0]
    if len(vals) > 1:
        return ["bad", 0, 0, 0]
    m = _CR_RANGE.match(vals[0])
    if m and all(len(g) < 10 for g in m.groups()):
        return ["range", int(m.group(1)), int(m.group(2)), int(m.group(3))]
    m = _CR_UNSAT.match(vals[0])
    if m and len(m.group(1)) < 10:
        return ["unsat", 0, 0, int(m.group(1))]
    return ["bad", 0, 0, 0]


def parse_headers(block):
    hs = {}
    for ln in block.split(b"\r\n"):
        if b":" not in ln:
            continue
        k, v = ln.split(b":", 1)
        hs.setdefault(k.strip().lower(), []).append(v.strip())
    return hs


def dechunk(body):
    out = b""
    while True:
        i = body.find(b"\r\n")
        if i < 0:
            return None
        try:
            n = int(body[:i].split(b";")[0], 16)
        except ValueError:
            return None
        if n == 0:
            return out
        out += body[i + 2:i + 2 + n]
        body = body[i + 2 + n + 2:]


def parse_multipart(body, ctype, mod, st):
    """Strict RFC 2046 split on the boundary announced in Content-Type.  Returns (ok, parts)."""
    m = re.search(rb'boundary=(?:"([^"]+)"|([^;\s]+))', ctype)
    if not m:
        return False, []
    b = m.group(1) or m.group(2)
    delim = b"\r\n--" + b
    if body.startswith(b"--" + b):
        body = b"\r\n" + body
    pieces = body.split(delim)
    ok = len(pieces) >= 3 and pieces[0] == b"" and pieces[-1] in (b"--", b"--\r\n")
    parts = []
    for p in pieces[1:-1]:
        if not p.startswith(b"\r\n") or b"\r\n\r\n" not in p[2:] and not p[2:].startswith(b"\r\n"):
            ok = False
            continue
        p = p[2:]
        if p.startswith(b"\r\n"):
            hblock, data = b"", p[2:]
        else:
            hblock, data = p.split(b"\r\n\r\n", 1)
        cr = parse_cr(parse_headers(hblock).get(b"content-range", []))
        if cr[0] != "range":
            parts.append([-1, -1, -1, runs_of(data, mod, st)])
        else:
            parts.append([cr[1], cr[2], cr[3], runs_of(data, mod, st)])
    return ok, parts


def run_case(cfg, workdir, rng=None, raw_header=None):
    """Send one real request; return the trace."""
    from twisted.internet import _producer_helpers, address, task
    from twisted.internet.testing import StringTransport

    st = _setup(workdir)
    name = _file(st, cfg["size"], cfg["mod"])
    hb = raw_header if raw_header is not None else header_bytes(cfg["hdr"], rng)
    msg = cfg["method"].encode() + b" /" + name.encode() + b" HTTP/1.1\r\nHost: verif.test\r\nConnection: close\r\n"
    if hb is not None:
        msg += b"Range: " + hb + b"\r\n"
    msg += b"\r\n"
    ch = st["site"].buildProtocol(address.IPv4Address("TCP", "10.0.0.1", 40000))
    tr = StringTransport()
    exc = ""
    # the harness's stand-in for the reactor loop: a FIFO of scheduled calls (fresh Cooperator per request), pumped one
    # call at a time and bounded -- a producer that never finishes must not hang the check: it is an observation (done = False)
    queue = []

    class _Call:
        def __init__(self, f):
            self.f, self.cancelled = f, False

        def cancel(self):
            self.cancelled = True

    def schedule(f):
        c = _Call(f)
        queue.append(c)
        return c
    _producer_helpers.cooperate = task.Cooperator(scheduler=schedule, terminationPredicateFactory=lambda: (lambda: True)).cooperate
    try:
        ch.makeConnection(tr)
        ch.dataReceived(msg)
        n = 0
        while queue and n < 5000:
            c = queue.pop(0)
            if not c.cancelled:
                c.f()
            n += 1
    except Exception as e:      # an exception escaping into the "reactor" is not a response
        exc = type(e).__name__
    hung = bool(queue)
    del queue[:]
    raw = tr.value()
    done = bool(tr.disconnecting) and not exc and not hung
    try:
        ch.connectionLost(__import__("twisted.python.failure", fromlist=["Failure"]).Failure(Exception("done")))
    except Exception:
        pass
    ev = dict(e="resp", status=0, cr=["none", 0, 0, 0], clen=-1, rawlen=0, mp=False, mpok=True, body=[], parts=[], done=done)
    if b"\r\n\r\n" in raw:
        head, body = raw.split(b"\r\n\r\n", 1)
        lines = head.split(b"\r\n", 1)
        m = re.match(rb"^HTTP/1\.[01] (\d{3})(?: |$)", lines[0])
        ev["status"] = int(m.group(1)) if m else 1
        hs = parse_headers(lines[1] if len(lines) > 1 else b"")
        if b"chunked" in b",".join(hs.get(b"transfer-encoding", [])).lower():
            body = dechunk(body)
            if body is None:
                body, ev["done"] = b"", False
        cl = hs.get(b"content-length", [])
        if len(cl) == 1 and cl[0].isdigit() and len(cl[0]) < 10:
            ev["clen"] = int(cl[0])
        elif cl:
            ev["clen"] = -2
        ev["cr"] = parse_cr(hs.get(b"content-range", []))
        ev["rawlen"] = len(body)
        ctype = b";".join(hs.get(b"content-type", []))
        if ctype.lower().startswith(b"multipart/byteranges"):
            ev["mp"] = True
            ev["mpok"], ev["parts"] = parse_multipart(body, ctype, cfg["mod"], st)
        else:
            ev["body"] = runs_of(body, cfg["mod"], st)
    t = {"cfg": cfg, "ev": [ev], "range": "" if hb is None else hb.decode("latin1")}
    if exc:
        t["exc"] = exc
    return t


# ----------------------------------------------------------------------------- classification (fingerprints only)
LENIENT = {"neg", "plus", "under"}     # number spellings Python's int() accepts but 1*DIGIT does not


def input_class(cfg):
    """Coarse class of the *input* (used only to name a failure, never to decide one)."""
    h = cfg["hdr"]
    if not h["present"]:
        return "absent"
    if h["unit"] != "bytes":
        return "unit-" + h["unit"]
    real = [dict(s, k="ab") if s["k"] == "space" else s for s in h["specs"] if s["k"] != "empty"]
    if not real:
        return "empty-range-set"
    bad = sorted({s["k"] for s in real if s["k"] in BAD_KINDS})
    rev = any(s["k"] == "ab" and s["a"] > s["b"] for s in real)
    if bad and not rev and set(bad) <= LENIENT:
        return "malformed-number-not-1*DIGIT"
    if bad:
        return "malformed-" + [k for k in bad if k not in LENIENT][0] if set(bad) - LENIENT else "malformed+reversed"
    if rev:
        return "reversed"
    size = cfg["size"]
    if any(s["k"] == "suffix" and s["a"] > size for s in real):
        return "suffix-longer-than-file"
    sat = [s for s in real if (s["a"] > 0 and size > 0) if s["k"] == "suffix"] + [s for s in real if s["k"] != "suffix" and s["a"] < size]
    if len(real) >= 2 and not sat:
        return "multi-none-satisfiable"
    if len(real) >= 2 and _part_ends_below_buffer_multiple(real, size):
        return "multi-part-ends-just-below-buffer-multiple"
    return ("single" if len(real) == 1 else "multi") + ("" if sat else "-unsatisfiable")


BUFSIZE = 65536          # twisted.web.static.StaticProducer.bufferSize (read from the class when cases are generated)


def _part_ends_below_buffer_multiple(real, size, window=230, overhead=105):
    """Input feature (naming only): in the multipart body, some part ends fewer than ~`window` bytes before a multiple
    of the producer's buffer size, estimating `overhead` bytes of delimiter + part header per part."""
    total = 0
    for s in real:
        if s["k"] == "suffix":
            lo, hi = max(0, size - s["a"]), size - 1
            if s["a"] == 0 or size == 0:
                continue
        else:
            lo, hi = s["a"], (size - 1 if s["k"] == "from" else min(s["b"], size - 1))
            if lo >= size:
                continue
        total += overhead + hi - lo + 1
        r = total % BUFSIZE          # the estimate may be a few bytes off per part either way
        if BUFSIZE - r <= window or (r <= 40 and total >= BUFSIZE):
            return True
    return False


def outcome_class(ev):
    if ev["status"] in (0, 1, 500) or not ev["done"]:
        return "internal-error"
    return str(ev["status"])


def fingerprint(t):
    ic = input_class(t["cfg"])
    oc = outcome_class(t["ev"][0])
    if ic == "malformed-number-not-1*DIGIT":
        oc = "not-ignored"          # the only allowed outcome is 200/whole; whatever else happened, the header was honoured
    return "%s/%s/%s" % (t["cfg"]["method"], ic, oc)


# ----------------------------------------------------------------------------- random larger cases
def random_case(rng):
    size = rng.choice([0, 1, 2, 7, 250, 251, 252, 1000, 4096, 65535, 65536, rng.randint(0, 65536), rng.randint(0, 2000)])
    mod = rng.choice([251, 241, 239, 256])

    def val():
        return max(0, rng.choice([0, 1, size - 1, size, size + 1, size // 2, rng.randint(0, size + 10), rng.randint(0, 70000), 1000000]))
    specs = []
    for _ in range(rng.choice([1, 1, 1, 2, 2, 3, 4, 6])):
        r = rng.random()
        if r < 0.45:
            a, b = val(), val()
            if a > b and rng.random() < 0.9:
                a, b = b, a
            specs.append(dict(k="ab", a=a, b=b))
        elif r < 0.65:
            specs.append(dict(k="from", a=val(), b=0))
        elif r < 0.88:
            specs.append(dict(k="suffix", a=val(), b=0))
        elif r < 0.93:
            specs.append(dict(k="empty", a=0, b=0))
        else:
            k = rng.choice(BAD_KINDS + ("space", "space"))
            specs.append(dict(k=k, a=1 if k == "neg" else 0, b=0 if k == "neg" else 1))
    unit = rng.choice(["bytes"] * 12 + ["Bytes", "other", "noeq"])
    present = rng.random() < 0.97
    hdr = dict(present=present, unit=unit if present else "bytes", specs=specs if present else [])
    return dict(size=size, mod=mod, method=rng.choice(["GET", "GET", "HEAD"]), hdr=hdr)


def buffer_boundary_cases(bufsize, step_a, step):
    """Multi-range requests on files around and above the producer's buffer size whose parts end close to a multiple of
    it (the multipart delimiter + part header is ~100 bytes; d sweeps the distance of a part's end below the multiple).
    Shapes: A two parts; B one satisfiable part + unsatisfiable one (only the closing delimiter follows); C three parts,
    the second ends near the multiple; D the first part ends near the *second* multiple; E whole-buffer-sized single ranges."""
    def case(size, specs, method="GET", mod=251):
        return dict(size=size, mod=mod, method=method,
                    hdr=dict(present=True, unit="bytes", specs=[dict(k=k, a=a, b=b) for k, a, b in specs]))
    big = bufsize + 500
    for d in range(0, 330, step_a):
        yield case(big, [("ab", 0, bufsize - d - 1), ("ab", 0, 10)])
    for d in range(0, 330, step):
        yield case(big, [("ab", 0, bufsize - d - 1), ("from", big + 5, 0)])
        yield case(big, [("ab", 3, 12), ("ab", 100, 100 + bufsize - 120 - d - 1), ("suffix", 6, 0)], mod=241)
        yield case(2 * bufsize + 500, [("ab", 0, 2 * bufsize - 90 - d - 1), ("ab", 7, 9)], mod=239)
        yield case(bufsize - d, [("ab", 0, bufsize - d - 1), ("ab", 1, 1)])                 # the whole file, just below the buffer size
    for size in (bufsize - 1, bufsize, bufsize + 1, 2 * bufsize, 2 * bufsize + 1):
        for specs in ([("from", 0, 0)], [("ab", 1, size - 2)], [("suffix", bufsize, 0)], [("ab", 0, bufsize - 1), ("from", bufsize, 0)],
                      [("from", 1, 0), ("ab", 0, 0)]):
            for method in ("GET", "HEAD"):
                yield case(size, specs, method)


def random_boundary_case(rng, bufsize):
    """random multi-range request with 2-5 parts; one part is placed to end within 0..300 bytes below a buffer multiple"""
    k = rng.choice([1, 1, 2, 3])
    size = k * bufsize + rng.choice([0, 1, 300, 500, 5000]) + rng.randint(0, 400)
    nparts = rng.randint(2, 5)
    target = rng.randrange(nparts)
    specs = []
    total = 0
    for i in range(nparts):
        if i == target:
            n = k * bufsize - rng.randint(0, 300) - total - 105
            if n < 1:
                n = rng.randint(1, 50)
        else:
            n = rng.choice([1, 2, 11, 100, rng.randint(1, 3000)])
        n = min(n, size)
        a = rng.randint(0, size - n)
        total += n + 105
        r = rng.random()
        if a + n == size and r < 0.3:
            specs.append(dict(k="from", a=a, b=0))
        elif a + n == size and r < 0.6:
            specs.append(dict(k="suffix", a=n, b=0))
        else:
            specs.append(dict(k="ab", a=a, b=a + n - 1))
        if rng.random() < 0.1:
            specs.append(dict(k="from", a=size + rng.randint(0, 9), b=0))      # an unsatisfiable one in between
    return dict(size=size, mod=rng.choice([251, 241, 239]), method="GET", hdr=dict(present=True, unit="bytes", specs=specs))


def mutate(t, rng):
    ev = t["ev"][0]
    r = rng.random()
    if ev["parts"] and r < 0.4:
        p = rng.choice(ev["parts"])
        if rng.random() < 0.5:
            p[3][0][0] = (p[3][0][0] + 1) % t["cfg"]["mod"]   # part body shifted by one byte
        else:
            p[1] += 1                                          # part announces one byte more
    elif ev["body"] and r < 0.5:
        ev["body"][0][1] += 1                                  # one byte too many
        ev["rawlen"] += 1
    elif r < 0.7:
        ev["clen"] += 1                                        # Content-Length off by one
    elif r < 0.85:
        ev["status"] = {200: 206, 206: 200, 416: 200}.get(ev["status"], 200)
    else:
        ev["done"] = not ev["done"]
    return t


def _report(ctx, traces, rej):
    for x in rej:
        t = traces[x.idx]
        fp = fingerprint(t)
        ctx.violation(fp, "Range: %r on a %d-byte file (%s): real response status=%s Content-Range=%s Content-Length=%s body-bytes=%s complete=%s%s is not allowed by RangeReq.tla"
                      % (t["range"], t["cfg"]["size"], t["cfg"]["method"], t["ev"][0]["status"], t["ev"][0]["cr"], t["ev"][0]["clen"],
                         t["ev"][0]["rawlen"], t["ev"][0]["done"], (" exception=" + t["exc"]) if t.get("exc") else ""),
                      dict(cfg=t["cfg"], range=t["range"]))


def run(ctx):
    import json
    from harness.core import MachineryError, extract_printed

    r = ctx.mc("RangeReqMC", ctx.pick("RangeReqMC.cfg", "RangeReqMC.thorough.cfg"))
    if not r.ok:
        raise MachineryError("RangeReq spec violates its own invariants: " + r.error)
    ctx.require_actions("RangeReqMC", ["Respond"])
    cases = sorted({v[1] for v in extract_printed(r.out, "CASE")})
    if len(cases) < 1000:
        raise MachineryError("TLC emitted only %d cases" % len(cases))
    cases = [json.loads(c) for c in cases]
    ctx.extra["cases_enumerated_by_tlc"] = len(cases)
    if not ctx.quick:
        r3 = ctx.mc("RangeReqMC", "RangeReqMC.three.cfg")
        if not r3.ok:
            raise MachineryError("RangeReq spec (3 ranges) violates its own invariants: " + r3.error)
        c3 = sorted({v[1] for v in extract_printed(r3.out, "CASE")})
        ctx.extra["cases_enumerated_by_tlc_three_ranges"] = len(c3)
        cases += [json.loads(c) for c in c3]
    ctx.log("TLC enumerated %d cases" % len(cases))

    traces = [run_case(c, ctx.work) for c in cases]
    ctx.exhaustive = True
    nrand = ctx.pick(1000, 60000)
    for _ in range(nrand):
        traces.append(run_case(random_case(ctx.rng), ctx.work, rng=ctx.rng))
    ctx.extra["random_larger_cases"] = nrand
    # files around / above the pull producers' buffer size, parts ending near its multiples
    from twisted.web import static
    bufsize = int(static.StaticProducer.bufferSize)
    nb = len(traces)
    for c in buffer_boundary_cases(bufsize, 1, ctx.pick(5, 1)):
        traces.append(run_case(c, ctx.work))
    for _ in range(ctx.pick(400, 20000)):
        traces.append(run_case(random_boundary_case(ctx.rng, bufsize), ctx.work, rng=ctx.rng))
    ctx.extra["buffer_boundary_cases"] = len(traces) - nb
    for t in traces:
        ctx.note_trace(t, nontrivial=t["cfg"]["hdr"]["present"])
    ctx.log("recorded %d real request/response pairs" % len(traces))
    rej = ctx.validate("RangeReqTrace", traces, shard_size=ctx.pick(4000, 12000))
    ctx.extra["rejected_by_class"] = {}
    for x in rej:
        fp = fingerprint(traces[x.idx])
        ctx.extra["rejected_by_class"][fp] = ctx.extra["rejected_by_class"].get(fp, 0) + 1
    _report(ctx, traces, rej)
    bad = {x.idx for x in rej}
    good = [t for i, t in enumerate(traces) if i not in bad and t["cfg"]["hdr"]["present"] and t["ev"][0]["status"] == 206]
    if good or not ctx.violations:
        ctx.selftest_rejects("RangeReqTrace", good[::max(1, len(good) // 60)], mutate, n=24)
    else:
        ctx.log("selftest skipped: no accepted 206 response to corrupt (violations reported above)")


def replay(ctx, obj):
    raw = obj.get("range")
    t = run_case(obj["cfg"], ctx.work, raw_header=raw.encode("latin1") if raw and obj["cfg"]["hdr"]["present"] else None)
    ctx.note_trace(t, nontrivial=True)
    rej = ctx.validate("RangeReqTrace", [t])
    _report(ctx, [t], rej)
    print(t["range"], t["ev"][0])
