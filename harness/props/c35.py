"""C35 -- SSH transport delivers packets intact and detects tampering.

Spec:     specs/SshPackets.tla (+ SshPacketsMC exhaustive, SshPacketsTrace trace validation)
Binding:  a real SSHTransportBase sender (keyed through the real KEXINIT negotiation and the real
          _keySetup/_newKeys with a fixed shared secret, i.e. SSHCiphers keyed directly) produces the wire
          for every cipher x MAC x compression the transport offers; optional identification lines are put
          in front of its version line; optionally one byte of one MAC-protected packet is altered.  A fresh
          real SSHTransportBase receiver is fed that wire in a recorded segmentation.  Logged per delivery:
          the identities of the payloads handed to the application (service.packetReceived / receiveDebug),
          whether the receiver asked its transport to close, and the DISCONNECT reason code the peer decoded
          from what the receiver wrote.  TLC decides.
"""
import json

META = dict(
    id="C35",
    specs=["SshPackets.tla", "SshPacketsMC.tla", "SshPacketsTrace.tla", "SshIdent.tla"],
    technique="TLA+ spec of the SSH binary packet stream as seen by the peer (TLC exhaustive over all small wires, tamper classes and segmentations) + TLC trace validation of real SSHTransportBase sender/receiver pairs for every offered cipher x MAC x compression, random payloads, banner lines, segmentations and single-byte corruptions",
    level_text="TLC checks on the specification, for every small wire (banner lines, version line, packets), every tamper class and every segmentation, that the dispatched payloads are exactly the reference function of the consumed prefix (in order, complete at the end), that there is no disconnect on an unaltered wire, and that an altered MAC-protected packet is never dispatched and leads to a disconnect; every recorded execution of real SSHTransportBase pairs is validated by TLC as a behaviour of that specification with every logged field matched and the invariants evaluated at every step.",
    level_note="Trusted: TLC, the `cryptography` primitives and zlib (ciphers/MACs are perfect in the spec), the adapter's mapping of received payload bytes to the identity of the equal sent payload (unknown bytes map to id 0, which the spec never accepts). Transports are keyed by the real KEXINIT negotiation plus the real key derivation with a fixed shared secret (no Diffie-Hellman). Not decided: payload sequences / segmentations beyond those sampled; re-keying mid-session; messages mixed with queued service messages during key exchange.",
    design_ref="2.8 C35",
    rule="case = (cipher, MAC, compression, banner lines, payload sequence before/after keys, optional single-byte alteration, segmentation); distinct = hash of (cfg, events); non-trivial = at least two event kinds (deliver + end/flood)",
)

SECRET = b"\x00\x00\x00\x20" + bytes(range(1, 33))
HASH = bytes(range(64, 96))

BANNERS = {
    "plain": b"Welcome to the verification host\r\n",
    "short": b"hi\r\n",
    "lfonly": b"identification line ending in LF only\n",
    "empty": b"\r\n",
    "midssh": b"This is an SSH-2.0 capable server\r\n",
    "long": b"#" * 700 + b"\r\n",
}


class DetRandom:
    """Deterministic replacement for twisted.python.randbytes.secureRandom (rule 8)."""

    def __init__(self, seed):
        import random
        self.r = random.Random(seed)

    def __call__(self, n):
        return self.r.getrandbits(8 * n).to_bytes(n, "big") if n else b""


class WT:
    """Minimal ITransport recording each write separately."""

    disconnecting = False

    def __init__(self):
        self.writes = []
        self.closed = 0

    def write(self, data):
        self.writes.append(bytes(data))

    def writeSequence(self, seq):
        self.write(b"".join(seq))

    def loseConnection(self):
        self.disconnecting = True
        self.closed += 1

    def getPeer(self):
        from twisted.internet.address import IPv4Address
        return IPv4Address("TCP", "10.0.0.1", 22)

    getHost = getPeer

    def value(self):
        return b"".join(self.writes)


def make_classes():
    from twisted.conch.ssh import transport

    class Keyed(transport.SSHTransportBase):
        """SSHTransportBase with the smallest possible key exchange: both sides know the shared secret.
        Exactly what SSHServerTransport/SSHClientTransport do after their DH step: _keySetup once the
        algorithms are negotiated, _newKeys on NEWKEYS."""

        def __init__(self):
            self.seen = []       # observable application-level deliveries
            self.errors = []     # DISCONNECT reason codes received

        force = None         # (outCipher, inCipher, outMAC, inMAC): per-direction algorithms keyed directly

        def ssh_KEXINIT(self, packet):
            r = transport.SSHTransportBase.ssh_KEXINIT(self, packet)
            if r is not None:
                if self.force is not None:
                    # RFC 4253 negotiates each direction separately; the transport can only *offer* one list for
                    # both, so asymmetric pairs are installed directly (SSHCiphers keyed directly, as designed)
                    self.nextEncryptions = transport.SSHCiphers(*self.force)
                self._keySetup(SECRET, HASH)
            return r

        def ssh_NEWKEYS(self, packet):
            self._newKeys()

        def receiveDebug(self, alwaysDisplay, message, lang):
            self.seen.append(("dbg", bool(alwaysDisplay), bytes(message), bytes(lang)))

        def receiveError(self, reasonCode, description):
            self.errors.append(int(reasonCode))

        def receiveUnimplemented(self, seqnum):
            self.seen.append(("unimpl", int(seqnum)))

    class Client(Keyed):
        isClient = True

    class Service:
        name = b"verif"

        def __init__(self, seen):
            self.seen = seen

        def serviceStarted(self):
            pass

        def serviceStopped(self):
            pass

        def packetReceived(self, num, payload):
            self.seen.append(("svc", int(num), bytes(payload)))

    return transport, Keyed, Client, Service


def payload_bytes(kind, n, seed):
    import random
    r = random.Random(seed)
    if kind == "zero":
        body = b"\x00" * n
    elif kind == "sshlike":
        body = (b"\nSSH-2.0-evil\r\n" * (n // 15 + 1))[:n]
    elif kind == "text":
        body = (b"The quick brown fox jumps over the lazy dog.\n" * (n // 45 + 1))[:n]
    else:
        body = r.getrandbits(8 * n).to_bytes(n, "big") if n else b""
    # make it distinct from the other payloads where there is room
    tag = b"<%d>" % seed
    if n >= len(tag):
        body = tag + body[len(tag):]
    return body


def send_one(s, p):
    """p = [kind, num, paykind, n, seed]"""
    kind, num, pk, n, seed = p
    body = payload_bytes(pk, n, seed)
    if kind == "svc":
        s.sendPacket(num, body)
        return ("svc", num, body)
    if kind == "dbg":
        s.sendDebug(body, bool(num & 1), b"en")
        return ("dbg", bool(num & 1), body, b"en")
    s.sendIgnore(body)
    return None


def algs(plan):
    return plan["cipher"].encode(), plan["mac"].encode(), plan["comp"].encode()


def restrict(t, plan):
    c, m, z = algs(plan)
    t.supportedCiphers = [c]
    t.supportedMACs = [m]
    t.supportedCompressions = [z]


def force_dirs(t, plan, sender_side):
    """Asymmetric plans carry the sender's incoming algorithms as cipher_in / mac_in."""
    if "cipher_in" not in plan:
        return
    co, ci = plan["cipher"].encode(), plan["cipher_in"].encode()
    mo, mi = plan["mac"].encode(), plan["mac_in"].encode()
    t.force = (co, ci, mo, mi) if sender_side else (ci, co, mi, mo)


def widen(t, plan):
    # 'none' is supported but not offered by default; the documented way to enable it
    c, m, z = algs(plan)
    if c == b"none":
        t.supportedCiphers = list(t.supportedCiphers) + [b"none"]
    if m == b"none":
        t.supportedMACs = list(t.supportedMACs) + [b"none"]


def build_wire(plan):
    """Run the real sender.  Returns dict(wire, items, sent_obs, sender, bs, ms, enc_from)."""
    from harness.core import MachineryError
    from twisted.python import randbytes
    transport, Keyed, Client, Service = make_classes()
    old = randbytes.secureRandom
    randbytes.secureRandom = DetRandom(plan["seed"])
    try:
        s = Keyed()                               # server role: servers may send lines before the version line
        restrict(s, plan)
        force_dirs(s, plan, True)
        ts = WT()
        s.makeConnection(ts)                      # version line, KEXINIT
        if len(ts.writes) != 2:
            raise MachineryError("C35 adapter: expected version + KEXINIT writes, got %d" % len(ts.writes))
        kinds = ["version", "hs"]
        obs = [None, None]
        queued = []
        for p in plan["pre"]:
            before = len(ts.writes)
            o = send_one(s, p)
            if len(ts.writes) == before + 1:
                kinds.append(p[0])
                obs.append(o)
            elif len(ts.writes) == before:
                queued.append((p[0], o))
            else:
                raise MachineryError("C35 adapter: one send produced %d writes" % (len(ts.writes) - before))
        # Key the sender directly: hand it the peer's KEXINIT payload and NEWKEYS as already-parsed messages
        # (its receive path is not involved, so a defect there cannot break the set-up of the wire).
        from twisted.conch.ssh.common import NS
        c, m, z = algs(plan)
        T = transport.SSHTransportBase
        peer_kexinit = b"".join([
            b"\x07" * 16,
            NS(b",".join(list(T.supportedKeyExchanges) + [T._EXT_INFO_C])), NS(b",".join(T.supportedPublicKeys)),
            NS(c), NS(c), NS(m), NS(m), NS(z), NS(z), NS(b""), NS(b""), b"\x00", b"\x00\x00\x00\x00"])
        before = len(ts.writes)
        s.ssh_KEXINIT(peer_kexinit)               # real negotiation, real key derivation -> NEWKEYS out
        s.ssh_NEWKEYS(b"")                        # keys adopted, queued packets flushed
        if len(ts.writes) != before + 1 + len(queued):
            raise MachineryError("C35 adapter: key adoption produced %d writes, expected %d" % (len(ts.writes) - before, 1 + len(queued)))
        kinds.append("hs")
        obs.append(None)
        enc_from = len(kinds)                     # 0-based index of the first packet under the negotiated keys
        for k, o in queued:
            kinds.append(k)
            obs.append(o)
        for p in plan["post"]:
            before = len(ts.writes)
            o = send_one(s, p)
            if len(ts.writes) != before + 1:
                raise MachineryError("C35 adapter: post-key send produced %d writes" % (len(ts.writes) - before))
            kinds.append(p[0])
            obs.append(o)
        if s.currentEncryptions.outCipType != algs(plan)[0] or s.currentEncryptions.outMACType != algs(plan)[1]:
            raise MachineryError("C35 adapter: sender not keyed as planned")
        bs = s.currentEncryptions.encBlockSize
        ms = len(s.currentEncryptions.makeMAC(0, b""))
    finally:
        randbytes.secureRandom = old
    banners = [b[4:].encode("latin-1") if b.startswith("raw:") else BANNERS[b] for b in plan["banners"]]
    pieces = banners + ts.writes
    kinds = ["banner"] * len(banners) + kinds
    obs = [None] * len(banners) + obs
    enc_from += len(banners)
    items, sent_obs, end = [], [], 0
    for k, o, piece in zip(kinds, obs, pieces):
        end += len(piece)
        if o is not None:
            sent_obs.append(o)
            items.append({"k": k, "end": end, "id": len(sent_obs)})
        else:
            items.append({"k": k, "end": end, "id": 0})
    if len(set(sent_obs)) != len(sent_obs):
        raise MachineryError("C35 adapter: payloads not distinct")
    return dict(wire=b"".join(pieces), items=items, sent_obs=sent_obs, sender=s, st=ts, bs=bs, ms=ms, enc_from=enc_from)


def resolve_tamper(plan, w):
    """plan['tamper'] = [ordinal among MAC-protected packets, region, fraction*1000, xor] -> cfg fields + wire"""
    t = plan.get("tamper")
    if not t or plan["mac"] == "none":
        return w["wire"], 0, "none", 0
    cands = list(range(w["enc_from"], len(w["items"])))
    if not cands:
        return w["wire"], 0, "none", 0
    j = cands[t[0] % len(cands)]
    st = w["items"][j - 1]["end"]
    en = w["items"][j]["end"]
    bs, ms = w["bs"], w["ms"]
    reg = t[1]
    if reg == "first":
        lo, hi = st, st + bs
    elif reg == "mac":
        lo, hi = en - ms, en
    else:
        lo, hi = st + bs, en - ms
    if hi <= lo:
        reg, lo, hi = "first", st, st + bs
    off = lo + (t[2] * (hi - lo)) // 1000
    wire = bytearray(w["wire"])
    wire[off] ^= (t[3] % 255) + 1
    return bytes(wire), j + 1, reg, off


def run_case(plan, cuts, w=None):
    """Feed a fresh real receiver; returns the trace."""
    from twisted.python import randbytes
    transport, Keyed, Client, Service = make_classes()
    if w is None:
        w = build_wire(plan)
    wire, tj, treg, tpos = resolve_tamper(plan, w)
    cfg = dict(mac=plan["mac"] != "none", items=w["items"], tj=tj, treg=treg, tpos=tpos)
    index = {o: i + 1 for i, o in enumerate(w["sent_obs"])}
    old = randbytes.secureRandom
    randbytes.secureRandom = DetRandom(plan["seed"] + 1)
    ev = []
    try:
        r = Client()
        widen(r, plan)
        force_dirs(r, plan, False)
        tr = WT()
        r.makeConnection(tr)
        r.setService(Service(r.seen))
        d = Keyed()                                # the peer's decoder of whatever the receiver writes
        restrict(d, plan)
        force_dirs(d, plan, True)
        d.makeConnection(WT())
        fed = [0, 0]                               # writes of tr already given to d, entries of r.seen already logged

        def observe(e, k):
            code = 0
            exc = None
            new = tr.writes[fed[0]:]
            fed[0] = len(tr.writes)
            for x in new:
                try:
                    d.dataReceived(x)
                except Exception as ex:            # undecodable output of the receiver
                    exc = ex
            if d.errors:
                code = d.errors[-1]
                del d.errors[:]
            if exc is not None and code == 0:
                code = 98
            ids = [index.get(o, 0) for o in r.seen[fed[1]:]]
            fed[1] = len(r.seen)
            ev.append({"e": e, "k": k, "dl": ids, "disc": bool(tr.disconnecting), "code": code})

        pos = 0
        bounds = sorted(set(c for c in cuts if 0 < c < len(wire))) + [len(wire)]
        for b in bounds:
            if tr.disconnecting:                   # a real transport stops reading after loseConnection()
                break
            chunk = wire[pos:b]
            pos = b
            try:
                r.dataReceived(chunk)
            except Exception as ex:
                r.seen.append(("EXC", type(ex).__name__))
                observe("deliver", len(chunk))
                ev[-1]["code"] = 99
                break
            observe("deliver", len(chunk))
        if tj and treg == "first" and not tr.disconnecting and pos == len(wire) and ev[-1]["code"] != 99:
            # the sender keeps sending: > 1 MiB (the largest packet the receiver accepts) of valid packets
            s, ts = w["sender"], w["st"]
            import random
            fr = random.Random(plan["seed"] + 2)
            n0 = len(ts.writes)
            sent = 0
            while sent < 1048576 + 70000 and not tr.disconnecting:
                s.sendIgnore(fr.getrandbits(8 * 60000).to_bytes(60000, "big"))
                x = ts.writes[-1]
                sent += len(x)
                try:
                    r.dataReceived(x)
                except Exception as ex:
                    r.seen.append(("EXC", type(ex).__name__))
                    break
            del ts.writes[n0:]                     # note: the sender `w` cannot be reused after a flood
            w["flooded"] = True
            observe("flood", 0)
        ev.append({"e": "end", "k": 0, "dl": [index.get(o, 0) for o in r.seen], "disc": bool(tr.disconnecting), "code": 0})
    finally:
        randbytes.secureRandom = old
    return {"cfg": cfg, "plan": plan, "cuts": [c for c in cuts], "ev": ev}


# --------------------------------------------------------------------------- generation

PAYKINDS = ["rand", "rand", "rand", "zero", "text", "sshlike"]


def gen_packets(rng, n, kinds, sizes, seed0, nums):
    out = []
    for i in range(n):
        k = rng.choice(kinds)
        size = rng.choice(sizes)(rng)
        if k == "dbg":
            size = max(size, 24)          # room for the distinguishing tag
        out.append([k, nums.pop(), rng.choice(PAYKINDS), size, seed0 + i])
    return out


SIZES = [lambda r: 0, lambda r: 1, lambda r: r.randint(0, 47), lambda r: r.randint(0, 47), lambda r: r.choice([3, 11, 27, 7, 15, 23]),
         lambda r: r.randint(20, 300), lambda r: r.randint(20, 300), lambda r: r.randint(300, 3000), lambda r: r.randint(3000, 40000)]
SMALL = SIZES[:7]


def gen_plan(rng, cipher, mac, comp, seed, tamper_p=0.35, big=True):
    nums = list(range(50, 256))           # message numbers without repetition: (num, payload) pairs are distinct
    rng.shuffle(nums)
    nb = rng.choice([0, 0, 0, 1, 1, 2, 3])
    banners = [rng.choice(sorted(BANNERS)) for _ in range(nb)]
    pre_mode = rng.choice(["none", "none", "allowed", "queued"])
    pre = []
    if pre_mode == "allowed":
        pre = gen_packets(rng, rng.randint(1, 3), ["dbg", "ign", "dbg"], SMALL, seed * 100, nums)
    elif pre_mode == "queued":
        pre = gen_packets(rng, rng.randint(1, 3), ["svc"], SMALL, seed * 100, nums)
    sizes = SIZES if big and rng.random() < 0.3 else SMALL + [SIZES[7]]
    post = gen_packets(rng, rng.randint(1, 6), ["svc", "svc", "svc", "dbg", "ign"], sizes, seed * 100 + 10, nums)
    tamper = None
    if mac != "none" and rng.random() < tamper_p:
        tamper = [rng.randint(0, 50), rng.choice(["first", "first", "rest", "rest", "mac"]), rng.randint(0, 999), rng.randint(0, 254)]
    return dict(cipher=cipher, mac=mac, comp=comp, banners=banners, pre=pre, post=post, tamper=tamper, seed=seed)


def gen_cuts(rng, w, total):
    items = w["items"]
    ends = [it["end"] for it in items]
    mode = rng.choice(["whole", "items", "biased", "biased", "biased", "window", "fixed", "random"])
    if mode == "whole":
        return []
    if mode == "items":
        return ends[:-1]
    if mode == "fixed":
        s = rng.choice([1, 3, 7, 8, 16, 64, 1000])
        s = max(s, -(-total // 60))
        return list(range(s, total, s))
    if mode == "window":
        c = rng.choice(ends)
        lo = max(1, c - rng.randint(0, 30))
        return list(range(lo, min(total, lo + 40)))
    if mode == "random":
        return sorted(rng.randint(1, max(1, total - 1)) for _ in range(rng.randint(1, 10)))
    cand = []
    for i, e in enumerate(ends):
        st = ends[i - 1] if i else 0
        cand += [e, e - 1, e + 1, st + w["bs"], st + 4, st + 5, e - w["ms"], e - 2]
    cand = [c for c in cand if 0 < c < total]
    n = rng.randint(1, 12)
    return sorted(set(rng.choice(cand) if rng.random() < 0.8 else rng.randint(1, total - 1) for _ in range(n)))


def configs():
    from twisted.conch.ssh import transport
    T = transport.SSHTransportBase
    offered = [(c.decode(), m.decode(), z.decode()) for c in T.supportedCiphers for m in T.supportedMACs for z in T.supportedCompressions]
    extra = [("none", "none", "none"), ("none", "hmac-sha1", "zlib"), ("aes128-ctr", "none", "none"), ("none", "none", "zlib")]
    return offered, extra


def mutate(t, rng):
    """Corrupt one logged field / drop one event (binding self-test)."""
    ev = t["ev"]
    r = rng.random()
    dls = [i for i, e in enumerate(ev) if e["dl"] and e["e"] == "deliver"]
    if t["cfg"]["tj"]:
        # after a disconnect the rest of the wire is never delivered, so byte counts of chunks in which no
        # item completes are not pinned down by the spec: corrupt deliveries / the disconnect flag only
        r = r * 0.5 if dls else 0.8
    if r < 0.3 and dls:
        i = rng.choice(dls)
        ev[i]["dl"][0] += 1                       # another payload delivered
    elif r < 0.5 and dls:
        i = rng.choice(dls)
        ev[i]["dl"] = ev[i]["dl"][1:]             # a payload lost
    elif r < 0.7 and len(ev) > 2:
        i = rng.randrange(len(ev) - 1)
        if ev[i]["k"] == 0:
            return None
        del ev[i]                                 # an event dropped (bytes never delivered)
    elif r < 0.85:
        i = rng.randrange(len(ev))
        ev[i]["disc"] = not ev[i]["disc"]
    else:
        i = rng.randrange(len(ev) - 1)
        ev[i]["k"] += 1
    return t


def fingerprint(trace, rej):
    """Names the failing step: which observable deviated, and in which phase of the wire the chunk lies
    (identification phase = the receiver has not yet been given the complete version line)."""
    ev = trace["ev"]
    cfg = trace["cfg"]
    if rej.reached >= len(ev):
        return "end-of-trace"
    e = ev[rej.reached]
    before = sum(x["k"] for x in ev[:rej.reached])
    after = before + e["k"]
    vend = [it["end"] for it in cfg["items"] if it["k"] == "version"][0]
    bends = [it["end"] for it in cfg["items"] if it["k"] == "banner"]
    kex_end = [it["end"] for it in cfg["items"] if it["k"] == "hs"][0]
    clear_ssh = [p for p in trace["plan"]["pre"] if p[0] != "svc" and p[2] == "sshlike"]
    if e["e"] == "end":
        return "end/incomplete-or-extra-delivery"
    if before < vend:
        if after < vend:
            phase = "ident/version-line-incomplete" + ("/after-complete-banner-line" if bends and after >= bends[0] else "")
        else:
            phase = "ident/version-line-completed-in-chunk" + ("/buffer>4096" if after > 4096 else "")
    else:
        phase = "packets"
        pos = 0
        for x in ev[:rej.reached]:
            end = pos + x["k"]
            if bends and bends[0] <= end < vend:
                # an earlier chunk ended inside the identification phase with a complete banner line buffered
                phase = "packets/after-chunk-ending-between-banner-line-and-version-line-end"
                break
            if pos < vend <= end and clear_ssh and end > kex_end:
                # the chunk completing the version line also carried clear-text payload lines starting with "SSH-"
                phase = "packets/after-version-chunk-carrying-cleartext-SSH--lines"
                break
            pos = end
    if e["code"] == 99:
        return "exception-in-dataReceived/%s" % phase
    if before < vend and e["disc"]:
        return "disconnect/code=%d/%s" % (e["code"], phase)
    if cfg["tj"] == 0 or after <= cfg["tpos"]:
        if e["disc"]:
            return "spurious-disconnect/code=%d/%s" % (e["code"], phase)
        return "delivery-mismatch/%s" % phase
    if not e["disc"]:
        return "tamper-%s/no-disconnect/%s/%s" % (cfg["treg"], e["e"], phase)
    return "tamper-%s/delivery-mismatch/%s/%s" % (cfg["treg"], e["e"], phase)


CONCRETE = {"X": b"xxxxxxxx", "S": b"SSH-", "N": b"\n"}


def impl_layer(ctx, cfg3):
    """Impl layer for the identification phase (specs/SshIdent.tla): the scan of dataReceived as coded, model-checked
    by TLC against the reference for every small wire and every segmentation.  Counterexamples are statements about
    the model only: each is concretised, replayed on the real SSHTransportBase and judged by the SshPackets trace spec."""
    import re
    from harness.core import parse_tla_value, MachineryError
    r = ctx.mc("SshIdent", "SshIdentFixed.cfg", coverage=False, label="identification scan of proposed_fixes/C35-ident-line-scan.diff")
    if not r.ok:
        raise MachineryError("SshIdent: the repaired scan violates the reference: " + r.error)
    r = ctx.mc("SshIdent", "SshIdent.cfg", args=["-continue"], must_pass=False, coverage=False, workers=1, label="identification scan as coded")
    if "Error: Invariant" not in r.out:        # (with -continue TLC's summary line is not a verdict)
        if not r.ok:
            raise MachineryError("SshIdent: TLC failed: " + r.error)
        ctx.log("SshIdent: the scan as coded satisfies the reference (no counterexample)")
        return []
    cex = set()
    for sect in re.split(r"Error: Invariant \w+ is violated", r.out)[1:]:
        states = re.findall(r"^State \d+:.*?(?=^State \d+:|\Z|^Error|^\d+ states generated)", sect, re.S | re.M)
        if not states:
            continue
        last = states[-1]
        w = re.search(r"/\\ wire = (<<.*?>>)", last, re.S)
        h = re.search(r"/\\ hist = (<<.*?>>)", last, re.S)
        if w and h:
            cex.add((tuple(parse_tla_value(w.group(1))), tuple(parse_tla_value(h.group(1)))))
    if not cex:
        raise MachineryError("SshIdent: cannot read the TLC counterexamples: " + r.error)
    ctx.extra["ident_model_counterexamples"] = len(cex)
    chosen = sorted(cex, key=lambda c: (len(c[1]), len(c[0]), c))[:ctx.pick(40, 400)]
    out = []
    c, m, z = cfg3
    for n, (wire, hist) in enumerate(chosen):
        wire = list(wire)
        v = max(i for i in range(len(wire) - 2) if wire[i:i + 3] == ["S", "V", "N"] and (i == 0 or wire[i - 1] == "N"))
        lines, cur = [], b""
        for sym in wire[:v]:
            cur += CONCRETE[sym]
            if sym == "N":
                lines.append("raw:" + cur.decode("latin-1"))
                cur = b""
        plan = dict(cipher=c, mac=m, comp=z, banners=lines, pre=[], tamper=None, seed=990000 + n,
                    post=[["svc", 90, "rand", 40, 99000000 + 2 * n], ["svc", 91, "text", 70, 99000001 + 2 * n]])
        w = build_wire(plan)
        items = w["items"]
        vi = [i for i, it in enumerate(items) if it["k"] == "version"][0]
        vstart = items[vi - 1]["end"] if vi else 0
        size = {}
        offs, o = [], 0
        for i, sym in enumerate(wire):
            if i < v:
                o += len(CONCRETE[sym])
            elif i == v:
                o = vstart + 4
            elif i == v + 1:
                o = items[vi]["end"] - 1
            elif i == v + 2:
                o = items[vi]["end"]
            elif sym == "P1":
                o = items[vi + 1]["end"]
            else:
                o = items[-1]["end"]
            offs.append(o)
        cuts, k = [], 0
        for hk in hist:
            k += hk
            cuts.append(offs[k - 1])
        t = run_case(plan, cuts, w)
        t["impl_cex"] = True
        out.append(t)
    ctx.log("SshIdent: %d distinct TLC counterexamples of the scan as coded, %d replayed on the real transport" % (len(cex), len(out)))
    return out



def report(ctx, traces, rej):
    for x in rej[:40]:
        t = traces[x.idx]
        e = t["ev"][x.reached] if x.reached < len(t["ev"]) else None
        ctx.violation(fingerprint(t, x),
                      "real SSHTransportBase execution not explained by SshPackets.tla at event %d: %s (cipher=%s mac=%s comp=%s banners=%s tamper=%s/%s)"
                      % (x.reached, e, t["plan"]["cipher"] + ("<-" + t["plan"]["cipher_in"] if "cipher_in" in t["plan"] else ""), t["plan"]["mac"], t["plan"]["comp"], t["plan"]["banners"], t["cfg"]["tj"], t["cfg"]["treg"]),
                      dict(plan=t["plan"], cuts=t["cuts"], rejected_at=x.reached))


def run(ctx):
    from harness.core import MachineryError
    import warnings
    warnings.simplefilter("ignore")
    r = ctx.mc("SshPacketsMC", ctx.pick("SshPacketsMC.cfg", "SshPacketsMC.thorough.cfg"))
    if not r.ok:
        raise MachineryError("SshPackets spec violates its own invariants: " + r.error)
    ctx.require_actions("SshPacketsMC", ["Deliver", "Flood", "End"])

    offered, extra = configs()
    impl_traces = impl_layer(ctx, offered[0])
    ctx.extra["configurations"] = len(offered)
    ctx.extra["extra_configurations_none"] = len(extra)
    per = ctx.pick(20, 600)
    traces = list(impl_traces)
    seed = ctx.seed * 1000003
    for (c, m, z) in offered + extra:
        for i in range(per if (c, m, z) in offered else per // 2 + 1):
            seed += 1
            plan = gen_plan(ctx.rng, c, m, z, seed)
            w = build_wire(plan)
            cuts = gen_cuts(ctx.rng, w, len(w["wire"]))
            traces.append(run_case(plan, cuts, w))
    # ordered pairs (cipher out, cipher in) x MACs: the two directions of a connection are negotiated separately
    names = sorted(set(c for c, m, z in offered)) + ["none"]
    macs = sorted(set(m for c, m, z in offered))
    pairs = [(a, b) for a in names for b in names if a != b]
    nasym = 0
    for (a, b) in pairs:
        for mo in (macs if not ctx.quick else [ctx.rng.choice(macs)]):
            for i in range(ctx.pick(5, 12)):
                seed += 1
                plan = gen_plan(ctx.rng, a, mo, ctx.rng.choice(["none", "zlib"]), seed, big=False)
                plan["cipher_in"] = b
                plan["mac_in"] = ctx.rng.choice(macs + ["none"])
                w = build_wire(plan)
                traces.append(run_case(plan, gen_cuts(ctx.rng, w, len(w["wire"])), w))
                nasym += 1
    ctx.extra["asymmetric_direction_pairs"] = len(pairs)
    ctx.extra["asymmetric_traces"] = nasym
    ctx.log("recorded %d random executions over %d configurations + %d ordered cipher pairs" % (len(traces), len(offered) + len(extra), len(pairs)))
    # every single split point of one wire per chosen configuration (with banner lines)
    sweep_cfgs = ctx.pick([offered[0], offered[-1]], offered[::6])
    nsweep = 0
    for (c, m, z) in sweep_cfgs:
        seed += 1
        plan = gen_plan(ctx.rng, c, m, z, seed, tamper_p=0.0, big=False)
        plan["banners"] = ["plain", "midssh"]
        plan["post"] = plan["post"][:3]
        w = build_wire(plan)
        total = len(w["wire"])
        step = -(-total // ctx.pick(500, 3000))
        for p in range(1, total, step):
            traces.append(run_case(plan, [p], w))
            nsweep += 1
    ctx.extra["single_split_sweep_traces"] = nsweep
    ctx.log("recorded %d single-split executions" % nsweep)
    ctx.note_traces([{"cfg": t["cfg"], "ev": t["ev"], "plan": t["plan"], "cuts": t["cuts"][:50]} for t in traces])
    lean = [{"cfg": t["cfg"], "ev": t["ev"]} for t in traces]
    rej = ctx.validate("SshPacketsTrace", lean, shard_size=ctx.pick(1500, 4000))
    report(ctx, traces, rej)
    bad = {x.idx for x in rej}
    # TLC counterexamples of the Impl model which the real code does not reproduce = the model drifted from the code
    ctx.impl_drift = sum(1 for i in range(len(impl_traces)) if i not in bad)
    ctx.extra["impl_counterexamples_replayed"] = len(impl_traces)
    ctx.extra["impl_counterexamples_reproduced_on_real_code"] = len(impl_traces) - ctx.impl_drift
    good = [t for i, t in enumerate(lean) if i not in bad]
    ctx.extra["tampered_traces"] = sum(1 for t in traces if t["cfg"]["tj"])
    ctx.extra["flooded_traces"] = sum(1 for t in traces if any(e["e"] == "flood" for e in t["ev"]))
    ctx.extra["banner_traces"] = sum(1 for t in traces if t["plan"]["banners"])
    if not ctx.violations:      # (with violations pending the verdict is already exit 1)
        ctx.selftest_rejects("SshPacketsTrace", good[:400:2], mutate, n=24)


def replay(ctx, obj):
    import warnings
    warnings.simplefilter("ignore")
    t = run_case(obj["plan"], obj["cuts"])
    ctx.note_trace({"cfg": t["cfg"], "ev": t["ev"]})
    rej = ctx.validate("SshPacketsTrace", [{"cfg": t["cfg"], "ev": t["ev"]}])
    report(ctx, [t], rej)
    print(json.dumps(t["cfg"]))
    for e in t["ev"]:
        print(e)
