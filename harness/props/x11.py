"""X11 (extension, not a listed property) -- defer.DeferredFilesystemLock.deferUntilLocked on task.Clock.
Spec: specs/DeferredFsLock.tla.  Reported under coverage.extra_modules of the nearest property (C50).

The REAL DeferredFilesystemLock polls a real lock file under ctx.work; a second, plain FilesystemLock object on the
same path plays "somebody else holds it".  Only the clock is fake (task.Clock).  One event per public call; every
event logs what a caller can see: return/exception of the call, state and number of results of the most recent
Deferred, number of delayed calls on the clock (timer leak), the public `locked` flag, existence of the lock file,
failures reported through the log system."""
import itertools
import os

META = dict(
    id="X11", extension=True, nearest="C50",
    specs=["DeferredFsLock.tla", "DeferredFsLockMC.tla", "DeferredFsLockTrace.tla"],
    technique="TLA+ spec of DeferredFilesystemLock.deferUntilLocked (poll/timeout/cancel state machine) + TLC trace "
              "validation of the real object on task.Clock with a real lock file and a second FilesystemLock as the other holder",
    level_text="extension module: grows the specification beyond the listed properties",
    level_note="not a listed property; alarms are reported as EXTRA-ALARM, never as VIOLATION.  Single process: the "
               "other holder is a second FilesystemLock object (same pid), so stale-lock breaking (C50) is not exercised; "
               "the retry interval is the class default (1 s); OSError from the filesystem is not injected",
    design_ref="4 (extensions)",
    rule="history of deferUntilLocked(timeout)/advance/cancel/other-acquire/other-release/unlock; exhaustive over a 9-op "
         "alphabet up to a length bound from three start prefixes, plus seeded random histories; distinct by event sequence",
)
NONE = -1
_LOGGING_STARTED = False
_SEQ = [0]


def run_history(cfg, ops, workdir):
    """Drive the real object.  ops: ("call", tmo|-1) ("adv", d) ("cancel",) ("oacq",) ("orel",) ("unlock",).
    Ops that make no sense for a caller (cancel without a Deferred, release/unlock of a lock one does not hold) are
    skipped and counted."""
    from twisted.internet import defer, task
    from twisted.python import lockfile
    from twisted.python.failure import Failure
    from twisted.logger import globalLogPublisher, globalLogBeginner
    global _LOGGING_STARTED
    if not _LOGGING_STARTED:
        # until logging "begins" twisted prints critical events to stderr; they are observed below instead
        _LOGGING_STARTED = True
        globalLogBeginner.beginLoggingTo([lambda event: None], redirectStandardIO=False, discardBuffer=True)

    unit = 1.0 / cfg["iv"]          # the retry interval (class default, 1 s) is cfg.iv time units; dyadic, exact
    os.makedirs(workdir, exist_ok=True)
    _SEQ[0] += 1
    name = os.path.join(workdir, "lock-%d-%d" % (os.getpid(), _SEQ[0]))
    clock = task.Clock()
    me = defer.DeferredFilesystemLock(name, scheduler=clock)
    other = lockfile.FilesystemLock(name)
    logged = []

    def obs(event):
        f = event.get("log_failure")
        if f is not None:
            logged.append(f.type.__name__)
    globalLogPublisher.addObserver(obs)

    cur = None          # (Deferred, results) of the most recent Deferred that was not born failed with AlreadyTrying...
    ev = []
    skipped = 0

    def res_now():
        if cur is None:
            return "none"
        r = cur[1]
        if not r:
            return "pending"
        x = r[0]
        if isinstance(x, Failure):
            if x.check(defer.TimeoutError):
                return "timeout"
            if x.check(defer.CancelledError):
                return "cancelled"
            return "err:" + x.type.__name__
        return "ok" if x is None else "ok:" + type(x).__name__

    try:
        for op in ops:
            del logged[:]
            if op[0] not in ("call", "adv", "cancel", "oacq", "orel", "unlock"):
                raise ValueError(op)
            e = {"e": op[0], "ret": "", "exc": ""}
            try:
                if op[0] == "call":
                    e["tmo"] = op[1]
                    try:
                        d = me.deferUntilLocked(None if op[1] == NONE else op[1] * unit)
                    except Exception:
                        e["ret"] = "raise"
                        raise
                    r = []
                    d.addBoth(r.append)
                    if r and isinstance(r[0], Failure) and r[0].check(defer.AlreadyTryingToLockError):
                        e["ret"] = "already"
                    else:
                        cur = (d, r)
                        e["ret"] = "new"
                elif op[0] == "adv":
                    e["d"] = op[1]
                    clock.advance(op[1] * unit)
                elif op[0] == "cancel":
                    if cur is None:
                        skipped += 1
                        continue
                    cur[0].cancel()
                elif op[0] == "oacq":
                    e["ret"] = "T" if other.lock() else "F"
                elif op[0] == "orel":
                    if not other.locked:
                        skipped += 1
                        continue
                    other.unlock()
                elif op[0] == "unlock":
                    if not me.locked:
                        skipped += 1
                        continue
                    me.unlock()
            except Exception as x:
                e["exc"] = type(x).__name__
            e["logged"] = len(logged)
            e["res"] = res_now()
            e["nf"] = len(cur[1]) if cur else 0
            e["calls"] = len(clock.getDelayedCalls())
            e["locked"] = bool(me.locked)
            e["exists"] = os.path.lexists(name)
            ev.append(e)
    finally:
        globalLogPublisher.removeObserver(obs)
        for c in clock.getDelayedCalls():
            c.cancel()
        try:
            if os.path.lexists(name):
                lockfile.rmlink(name)
        except OSError:
            pass
    return {"cfg": cfg, "ops": [list(o) for o in ops], "ev": ev, "skipped": skipped}


ALPHABET = [("call", NONE), ("call", 0), ("call", 1), ("adv", 1), ("adv", 2), ("cancel",), ("oacq",), ("orel",), ("unlock",)]
# start prefixes for the exhaustive part: fresh object; waiting behind the other holder; just timed out (iv = 1)
PREFIXES = [[], [("oacq",), ("call", 2)], [("oacq",), ("call", 2), ("adv", 2)]]


def exhaustive_histories(maxlens):
    for pre, maxlen in zip(PREFIXES, maxlens):
        for n in range(1, maxlen + 1):
            for tail in itertools.product(ALPHABET, repeat=n):
                yield pre + list(tail)


def random_ops(rng):
    ops = []
    for _ in range(rng.randint(4, 26)):
        r = rng.random()
        if r < 0.26:
            ops.append(("call", rng.choice([NONE, NONE, 0, 1, 2, 3, 4, 5, 7])))
        elif r < 0.56:
            ops.append(("adv", rng.choice([0, 1, 1, 1, 2, 2, 3, 5])))
        elif r < 0.66:
            ops.append(("cancel",))
        elif r < 0.78:
            ops.append(("oacq",))
        elif r < 0.90:
            ops.append(("orel",))
        else:
            ops.append(("unlock",))
    return ops


def _report(ctx, traces, rej):
    for x in rej[:10]:
        t = traces[x.idx]
        e = t["ev"][x.reached] if x.reached < len(t["ev"]) else None
        prev = t["ev"][x.reached - 1] if 0 < x.reached <= len(t["ev"]) else None
        ctx.violation("dfslock/%s/%s" % ((e or {}).get("e"), (e or {}).get("res")),
                      "DeferredFilesystemLock execution not explained by DeferredFsLock.tla at event %d: %s (previous: %s)"
                      % (x.reached, e, prev), dict(cfg=t["cfg"], ops=t["ops"]))


def run(ctx):
    ctx.mc("DeferredFsLockMC", ctx.pick("DeferredFsLockMC.cfg", "DeferredFsLockMC.thorough.cfg"))
    ctx.require_actions("DeferredFsLockMC", [
        "CallAlready", "CallOk", "CallRaise", "CallWait",
        "AdvIdle", "AdvRetry", "AdvAcquire", "AdvWedge", "AdvTimeout", "AdvLastChance",
        "CancelNoop", "CancelErr", "CancelAcquire", "CancelWedged",
        "OtherAcqOk", "OtherAcqBusy", "OtherRel", "Unlock"])
    neg = ctx.mc("DeferredFsLockMC", "DeferredFsLockMC.neg.cfg", must_pass=False, coverage=False, label="negative control")
    if neg.ok:
        from harness.core import MachineryError
        raise MachineryError("negative control: TLC did not refute NegProp; step properties are not being evaluated")
    work = os.path.join(ctx.work, "x11-locks")
    traces = []
    # (a) exhaustive-short: every history over ALPHABET up to the length bound after each start prefix in which every
    #     op was applicable (histories with a skipped op duplicate a shorter one)
    maxlens = ctx.pick((3, 4, 4), (5, 5, 5))
    tried = 0
    for ops in exhaustive_histories(maxlens):
        tried += 1
        t = run_history({"iv": 1}, ops, work)
        if t["skipped"] == 0:
            traces.append(t)
    n_exh = len(traces)
    # (b) seeded random, longer, finer time grids (iv = 2, 4: timeouts and advances that are not multiples of the interval)
    for _ in range(ctx.pick(1500, 20000)):
        cfg = {"iv": ctx.rng.choice([1, 2, 2, 4])}
        t = run_history(cfg, random_ops(ctx.rng), work)
        if t["ev"]:
            traces.append(t)
    ctx.extra["exhaustive_histories_tried"] = tried
    ctx.extra["exhaustive_histories_kept"] = n_exh
    ctx.extra["random_histories"] = len(traces) - n_exh
    kinds = {}
    for t in traces:
        for e in t["ev"]:
            k = "%s/%s/%s/%s" % (e["e"], e["ret"], e["exc"], e["res"])
            kinds[k] = kinds.get(k, 0) + 1
    ctx.extra["outcome_kinds_seen"] = len(kinds)
    ctx.note_traces(traces)
    rej = ctx.validate("DeferredFsLockTrace", traces, shard_size=4000)
    _report(ctx, traces, rej)

    def mutate(t, rng):
        if not t["ev"]:
            return None
        i = rng.randrange(len(t["ev"]))
        e = t["ev"][i]
        f = rng.choice(["calls", "locked", "exists", "res", "nf", "logged"])
        if f in ("calls", "logged"):
            e[f] += 1
        elif f == "nf":
            e[f] = 1 - min(e[f], 1)
        elif f == "res":
            e[f] = "pending" if e[f] != "pending" else "ok"
        else:
            e[f] = not e[f]
        return t
    bad = {x.idx for x in rej}
    good = [t for i, t in enumerate(traces) if i not in bad]
    ctx.selftest_rejects("DeferredFsLockTrace", good[n_exh // 2:][:300] + good[-100:], mutate, n=24)


def replay(ctx, obj):
    t = run_history(obj["cfg"], [tuple(o) for o in obj["ops"]], os.path.join(ctx.work, "x11-locks"))
    for e in t["ev"]:
        print(e)
    for x in ctx.validate("DeferredFsLockTrace", [t]):
        ctx.violation("dfslock/replay", "rejected at %d" % x.reached, dict(cfg=t["cfg"], ops=t["ops"]))
