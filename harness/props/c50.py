"""C50 -- FilesystemLock is mutually exclusive even when breaking stale locks.

Spec:     specs/FsLock.tla   (file system + property layer `AbsEvent` + the lock()/unlock() protocol as coded)
          FsLockMC           exhaustive TLC runs of the protocol (safety per configuration class, liveness)
          FsLockTrace        batched validation of real executions (mode "abs" = verdict, "impl" = model fidelity)
Binding:  the real twisted.python.lockfile.FilesystemLock.lock()/unlock(), one "process" per script, run either as
          one thread per process (ThreadRun: TLC counterexample replays, --replay, samples) or by re-execution with
          recorded call results (ReRun: mass exploration); the two runners are cross-checked in every run.  The
          module-level symlink/readlink/kill/rmlink and os.getpid of lockfile are replaced by stubs over an
          in-memory link; every stub call (and every call of lock()/unlock()) waits for the scheduler, so the
          harness chooses the interleaving.  Logged: every file-system call with its result, every
          lock()/unlock() call and return.  TLC decides.
"""
import errno
import threading

META = dict(
    id="C50",
    specs=["FsLock.tla", "FsLockMC.tla", "FsLockTrace.tla", "FsLockSim.tla"],
    technique="TLA+ model of the symlink/readlink/kill/rmlink protocol checked exhaustively by TLC (2-3 processes, with/without stale link, holders may die; liveness under fairness); TLC counterexamples replayed on the real lock()/unlock() through scheduler-gated file-system stubs; every interleaving of the real code for small scripts (state-hashed DFS) and random long ones validated by TLC against the property layer",
    level_text="TLC explores every interleaving of the file-system calls of the lock protocol for 2-3 processes and checks mutual exclusion, releasability and (under fairness) take-over of a stale lock; a counterexample is reported only after it has been reproduced on the real FilesystemLock. Every recorded execution of the real lock()/unlock() under harness-chosen interleavings is validated by TLC against the property layer (file-system semantics + at most one holder + unlock of a holder succeeds + a stale lock somebody tried to lock is taken over).",
    level_note="Trusted: TLC; the in-memory link (atomic symlink-create / readlink / remove, kill(pid,0) by liveness table) as a model of POSIX; one thread per process with os.getpid patched in lockfile only. A process holds the lock from the return of lock() with True until it calls unlock() (or dies). Pid reuse and the Windows emulation are out of scope. Interleavings of 3 processes beyond the enumerated scripts are sampled.",
    design_ref="2.9 C50",
    rule="execution = scripts (lock/unlock/die per process) + interleaving of their file-system calls; distinct = hash of (cfg, events); non-trivial = at least two different event kinds",
)

NAME = "/verif-c50/lock"
DEAD = 9
PARENT = 8
MAX_STEPS = 300


class _Abort(BaseException):
    pass


class Base:
    """One execution of n "processes" running `scripts` (lock/unlock/die) on real FilesystemLock objects over an
    in-memory link.  Every file-system call and every lock()/unlock()/die is a scheduling point (`point`)."""

    def __init__(self, n, stale, scripts, fork=None):
        self.n = n
        self.link = DEAD if stale else None
        self.alive = set(range(1, n + 1))
        # fork-after-construct: ctor[p-1] = pid that is current while process p's FilesystemLock object is
        # constructed (p itself, or PARENT = the process it was forked from, which may be alive or dead)
        self.fork = fork or {}
        self.ctor = list(self.fork.get("ctor") or range(1, n + 1))
        if self.fork.get("parent"):
            self.alive.add(PARENT)
        self.scripts = scripts
        self.ev = []
        self.hist = {p: [] for p in range(1, n + 1)}
        self.req = {}
        self.done = set()
        self.errors = []

    def log(self, e, p, res="", v=0, x=""):
        d = {"e": e, "p": p, "res": res, "v": v}
        if x:
            d["x"] = x
        self.ev.append(d)
        self.hist[p].append((e, res, v))

    # ---- the in-memory file system; each returns ("ret", value) or ("raise", errno)
    def _path(self, p, filename):
        if filename != NAME:
            self.log("badpath", p, str(filename)[:40], 0)

    def fs_symlink(self, p, value, filename):
        self._path(p, filename)
        try:
            v = int(value)
        except (TypeError, ValueError):
            v = 99
        if self.link is not None:
            self.log("symlink", p, "EEXIST", v)
            return ("raise", errno.EEXIST)
        self.link = v
        self.log("symlink", p, "ok", v)
        return ("ret", None)

    def fs_readlink(self, p, filename):
        self._path(p, filename)
        if self.link is None:
            self.log("readlink", p, "ENOENT", 0)
            return ("raise", errno.ENOENT)
        self.log("readlink", p, "ok", self.link)
        return ("ret", str(self.link))

    def fs_kill(self, p, pid, sig):
        if sig != 0:
            self.log("badsig", p, str(sig), 0)
        if pid in self.alive:
            self.log("kill", p, "ok", pid)
            return ("ret", None)
        self.log("kill", p, "ESRCH", pid)
        return ("raise", errno.ESRCH)

    def fs_rmlink(self, p, filename):
        self._path(p, filename)
        if self.link is None:
            self.log("rmlink", p, "ENOENT", 0)
            return ("raise", errno.ENOENT)
        v, self.link = self.link, None
        self.log("rmlink", p, "ok", v)
        return ("ret", None)

    def ev_call(self, p, what):
        if what == "die":
            self.alive.discard(p)
        self.log(what, p)
        return ("ret", None)

    # ---- stubs installed in twisted.python.lockfile
    def _out(self, out):
        if out[0] == "raise":
            raise OSError(out[1], "stub")
        return out[1]

    def symlink(self, value, filename):
        return self._out(self.point("symlink", lambda p: self.fs_symlink(p, value, filename)))

    def readlink(self, filename):
        return self._out(self.point("readlink", lambda p: self.fs_readlink(p, filename)))

    def kill(self, pid, sig):
        return self._out(self.point("kill", lambda p: self.fs_kill(p, pid, sig)))

    def rmlink(self, filename):
        return self._out(self.point("rmlink", lambda p: self.fs_rmlink(p, filename)))

    def body(self, p):
        """The script of process p.  Runs the real lock()/unlock()."""
        from twisted.python import lockfile
        self.set_pid_override(self.ctor[p - 1])
        try:
            lk = lockfile.FilesystemLock(NAME)
        finally:
            self.set_pid_override(None)
        held = False
        for op in self.scripts[p - 1]:
            if op == "lock":
                if held:
                    continue
                self.point("lock_call", lambda q: self.ev_call(q, "lock_call"))
                r, res, x = None, "EXC", ""
                try:
                    r = lk.lock()
                    res = "true" if r is True else "false" if r is False else "OTHER"
                except _Abort:
                    raise
                except BaseException as e:
                    x = type(e).__name__
                self.retlog("lock_ret", p, res, 0, x)
                held = r is True
                if res not in ("true", "false"):
                    break
            elif op == "unlock":
                if not held:
                    continue
                self.point("unlock_call", lambda q: self.ev_call(q, "unlock_call"))
                res, x = "ok", ""
                try:
                    lk.unlock()
                except _Abort:
                    raise
                except BaseException as e:
                    res, x = "EXC", type(e).__name__
                self.retlog("unlock_ret", p, res, 0, x)
                held = False
                if res != "ok":
                    break
            elif op == "die":
                if not held:
                    continue
                self.point("die", lambda q: self.ev_call(q, "die"))
                break

    def enabled(self):
        return [p for p in range(1, self.n + 1) if p not in self.done]

    def key(self):
        return (self.link, tuple(sorted(self.alive)), tuple(tuple(self.hist[p]) for p in range(1, self.n + 1)))


class ThreadRun(Base):
    """One thread per process; a thread blocks at every scheduling point until the scheduler grants it."""

    def __init__(self, n, stale, scripts, fork=None):
        Base.__init__(self, n, stale, scripts, fork)
        self.go = {p: threading.Semaphore(0) for p in range(1, n + 1)}
        self.back = threading.Semaphore(0)
        self.aborting = False
        self.tl = threading.local()
        self.threads = {}

    def point(self, what, fn):
        p = self.tl.p
        self.req[p] = what
        self.back.release()
        self.go[p].acquire()
        if self.aborting:
            raise _Abort()
        return fn(p)

    def retlog(self, *a):
        self.log(*a)

    def set_pid_override(self, pid):
        self.tl.override = pid

    def getpid(self):
        return getattr(self.tl, "override", None) or getattr(self.tl, "p", 0)

    def _thread(self, p):
        self.tl.p = p
        try:
            self.body(p)
        except _Abort:
            pass
        except BaseException as e:  # harness bug
            self.errors.append(repr(e))
        finally:
            self.req[p] = None
            self.done.add(p)
            self.back.release()

    def start(self):
        for p in range(1, self.n + 1):
            t = threading.Thread(target=self._thread, args=(p,), daemon=True)
            self.threads[p] = t
            t.start()
            self.back.acquire()

    def step(self, p):
        self.go[p].release()
        self.back.acquire()

    def abort(self):
        self.aborting = True
        for p in self.enabled():
            self.go[p].release()
            self.back.acquire()

    def finish(self):
        for t in self.threads.values():
            t.join()


class ReRun(Base):
    """No threads: a process is re-executed from the start of its script for every step, with the recorded
    outcomes of its earlier scheduling points fed back (a process is an OS process: its only interaction with
    the others is through the file-system calls), the next point is performed on the shared link, and the
    execution is cut at the point after it.  Much cheaper than a thread hand-off per step."""

    def __init__(self, n, stale, scripts, fork=None):
        Base.__init__(self, n, stale, scripts, fork)
        self.override = None
        self.outs = {p: [] for p in range(1, n + 1)}     # (what, outcome) of every point performed by p
        self.cur = 0

    def set_pid_override(self, pid):
        self.override = pid

    def getpid(self):
        return self.override or self.cur

    def point(self, what, fn):
        p = self.cur
        i = self.cursor
        self.cursor += 1
        outs = self.outs[p]
        if i < len(outs):
            if outs[i][0] != what:
                self.errors.append("process %d is not a function of its file-system results: %s then %s" % (p, outs[i][0], what))
                raise _Abort()
            return outs[i][1]
        if i == len(outs) and self.grant:
            self.grant = False
            self.live = True
            out = fn(p)
            outs.append((what, out))
            return out
        self.req[p] = what
        raise _Abort()

    def retlog(self, *a):
        if self.live:
            self.log(*a)

    def _advance(self, p, grant):
        self.cur, self.cursor, self.grant, self.live = p, 0, grant, False
        try:
            self.body(p)
            self.req[p] = None
            self.done.add(p)
        except _Abort:
            pass
        finally:
            self.cur = 0

    def start(self):
        for p in range(1, self.n + 1):
            self._advance(p, False)

    def step(self, p):
        self._advance(p, True)

    def abort(self):
        pass

    def finish(self):
        pass


class patched:
    """Route lockfile's file-system calls of the current process thread to the current Run."""
    current = None

    def __enter__(self):
        import os
        from twisted.python import lockfile
        self.lf = lockfile
        self.saved = {k: getattr(lockfile, k) for k in ("symlink", "readlink", "kill", "rmlink", "os")}
        cls = patched

        class OsShim:
            def __getattr__(s, name):
                return getattr(os, name)

            def getpid(s):
                return cls.current.getpid()

        lockfile.symlink = lambda value, filename: cls.current.symlink(value, filename)
        lockfile.readlink = lambda filename: cls.current.readlink(filename)
        lockfile.kill = lambda pid, sig: cls.current.kill(pid, sig)
        lockfile.rmlink = lambda filename: cls.current.rmlink(filename)
        lockfile.os = OsShim()
        return self

    def __exit__(self, *a):
        for k, v in self.saved.items():
            setattr(self.lf, k, v)
        patched.current = None


def mkcfg(n, stale, scripts, mode="abs", fork=None):
    return {"n": n, "stale": bool(stale), "mortal": True, "parent": bool((fork or {}).get("parent")), "mode": mode}


def execute(n, stale, scripts, choose, prefix=(), runner=None, fork=None):
    """Run one execution.  `prefix` is followed first; then `choose(run, enabled)` picks the next process
    (None = stop and abandon the run).  Returns (trace, completed, path)."""
    run = (runner or ReRun)(n, stale, scripts, fork)
    patched.current = run
    run.start()
    path = []
    completed = False
    try:
        for p in prefix:
            if p in run.done:
                raise RuntimeError("prefix names finished process")
            run.step(p)
            path.append(p)
        while True:
            en = run.enabled()
            if not en:
                completed = True
                break
            if len(path) >= MAX_STEPS:      # a lock() that keeps retrying under this schedule: cut the run
                break
            p = choose(run, en)
            if p is None:
                break
            run.step(p)
            path.append(p)
    finally:
        if not completed:
            run.abort()
        run.finish()
    if run.errors:
        from harness.core import MachineryError
        raise MachineryError("C50 adapter thread failed: %s" % run.errors)
    ev = run.ev
    if completed:
        ev = ev + [{"e": "end", "p": 0, "res": "", "v": 0}]
    return {"cfg": mkcfg(n, stale, scripts, fork=fork), "scripts": [list(s) for s in scripts], "fork": {"ctor": list(run.ctor), "parent": bool((fork or {}).get("parent"))},
            "path": path, "ev": ev}, completed, path


def explore(n, stale, scripts, max_runs=None, fork=None):
    """State-hashed depth-first enumeration of all interleavings of the real code for the given scripts.
    Every reachable state (link, liveness, per-process observable history) is visited and every enabled
    step is taken from it once.  Returns (traces, number of states, complete?)."""
    seen = set()
    traces = []
    stack = [[]]
    complete = True
    while stack:
        if max_runs is not None and len(traces) >= max_runs:
            complete = False
            break
        prefix = stack.pop()
        state = {"path": list(prefix), "first": True}

        def choose(run, en):
            k = run.key()
            if k in seen:
                return None
            seen.add(k)
            here = list(state["path"])
            for q in en[1:]:
                stack.append(here + [q])
            state["path"].append(en[0])
            return en[0]

        t, completed, path = execute(n, stale, scripts, choose, prefix, fork=fork)
        traces.append(t)
    return traces, len(seen), complete


SCRIPT_MENU = [("lock", "unlock"), ("lock", "unlock", "lock", "unlock"), ("lock", "die"), ("lock",),
               ("lock", "unlock", "lock", "die"), ("lock", "unlock", "lock", "unlock", "lock", "unlock")]


def random_run(rng, runner=None):
    n = rng.choice([2, 3, 3])
    stale = rng.random() < 0.6
    scripts = [rng.choice(SCRIPT_MENU) for _ in range(n)]
    fork = None
    if rng.random() < 0.4:     # some lock objects were constructed before a fork, in a parent that is alive or dead
        fork = {"ctor": [PARENT if rng.random() < 0.6 else p for p in range(1, n + 1)], "parent": rng.random() < 0.5}
    # bursty random scheduler: keeps running one process for a while with some probability
    st = {"cur": None}

    def choose(run, en):
        if st["cur"] in en and rng.random() < 0.5:
            return st["cur"]
        st["cur"] = rng.choice(en)
        return st["cur"]

    return execute(n, stale, scripts, choose, runner=runner, fork=fork)[0]


def follow(path):
    it = iter(path)

    def choose(run, en):
        p = next(it, None)
        return p if p in en else None
    return choose


# ----------------------------------------------------------------------------- TLC counterexample -> real code

def parse_cex(r):
    """Counterexample of FsLockMC -> (cfg, [(p, e)...]) from the `last` and `cfg` variables of each state."""
    import re
    from harness.core import parse_tla_value
    sched = []
    cfg = None
    for blk in r.cex:
        m = re.search(r"/\\ last = (\[.*?\])\s*$", blk, re.M)
        c = re.search(r"/\\ cfg = (\[.*?\])\s*$", blk, re.M)
        if not m or not c:
            continue
        last = parse_tla_value(m.group(1))
        cfg = parse_tla_value(c.group(1))
        if last["e"] != "init":
            sched.append((last["p"], last["e"]))
    return cfg, sched


def replay_schedule(n, stale, sched, runner=None):
    """Drive the real code (one thread per process) along a schedule of (p, event) produced by TLC.
    Returns (trace, followed?)."""
    scripts = [[] for _ in range(n)]
    for p, e in sched:
        if e in ("lock_call", "unlock_call", "die"):
            scripts[p - 1].append({"lock_call": "lock", "unlock_call": "unlock", "die": "die"}[e])
    todo = [(p, e) for p, e in sched if e not in ("lock_ret", "unlock_ret")]
    st = {"i": 0, "ok": True}

    def choose(run, en):
        if st["i"] < len(todo):
            p, e = todo[st["i"]]
            if p not in en or run.req.get(p) != e:
                st["ok"] = False          # the real code does not issue the call the model predicted
                return None
            st["i"] += 1
            return p
        return en[0]                      # let everybody finish the call they are in

    t, completed, path = execute(n, stale, scripts, choose, runner=runner or ThreadRun)
    return t, st["ok"] and st["i"] == len(todo)


def predicted_ok(t, hist):
    """Does the real execution show, per process, exactly the events the specification predicted (as a prefix),
    and the file-system calls in the predicted global order?"""
    def proj(evs, p):
        return [(e["e"], e["res"], e["v"]) for e in evs if e["p"] == p and e["e"] != "end"]
    for p in range(1, t["cfg"]["n"] + 1):
        want = proj(hist, p)
        if proj(t["ev"], p)[:len(want)] != want:
            return False
    calls = lambda evs: [(e["p"], e["e"], e["res"], e["v"]) for e in evs if e["e"] in ("symlink", "readlink", "kill", "rmlink", "die")]
    want = calls(hist)
    return calls(t["ev"])[:len(want)] == want


# ----------------------------------------------------------------------------- classification of a rejection

def fingerprint(t, reached):
    """Symptom at the rejected event + root cause = the first removal, before it, of a link carrying the pid
    of a live process other than the remover (classification only; the verdict is TLC's)."""
    ev = t["ev"]
    if reached >= len(ev):
        return "trace-incomplete"
    e = ev[reached]
    alive = set(range(1, t["cfg"]["n"] + 1)) | ({PARENT} if t["cfg"].get("parent") else set())
    holding = set()
    lastread = {}
    incall = {}
    cause = None
    link = DEAD if t["cfg"]["stale"] else 0
    for x in ev[:reached + 1]:
        p = x["p"]
        if x["e"] == "symlink" and x["res"] == "ok":
            link = x["v"]
        elif x["e"] == "rmlink" and x["res"] == "ok":
            link = 0
        if x["e"] == "die":
            alive.discard(p)
            holding.discard(p)
        elif x["e"] in ("lock_call", "unlock_call"):
            incall[p] = x["e"][:-5]
            holding.discard(p)
        elif x["e"] == "lock_ret" and x["res"] == "true":
            holding.add(p)
        elif x["e"] == "readlink" and x["res"] == "ok":
            lastread[p] = x["v"]
        elif x["e"] == "rmlink" and x["res"] == "ok" and x["v"] != p and x["v"] in alive and cause is None:
            r = lastread.get(p)
            if r == x["v"]:
                cause = "%s():rmlink-removed-link-of-the-live-pid-it-read" % incall.get(p)
            elif r is not None and r not in alive:
                cause = "%s():rmlink-after-reading-dead-pid-removed-link-since-recreated-by-live-process" % incall.get(p)
            else:
                cause = "%s():rmlink-removed-foreign-link" % incall.get(p)
    if e["e"] == "lock_ret" and e["res"] == "true" and len(holding) > 1:
        sym = "two-holders"
    elif e["e"] == "unlock_ret" and e["res"] != "ok":
        sym = "holder-unlock-fails:" + e.get("x", "")
    elif e["e"] == "unlock_ret" and link == e["p"]:
        sym = "unlock-returned-but-link-still-names-the-releaser"
    elif e["e"] == "end":
        sym = "stale-lock-not-taken-over"
    else:
        sym = "unexplained:%s/%s" % (e["e"], e["res"])
    return "%s/%s" % (sym, cause or "no-foreign-removal")


def describe(t, reached):
    ev = t["ev"]
    e = ev[reached] if reached < len(ev) else None
    return "FilesystemLock n=%d stale=%s scripts=%s%s: event %d %s rejected by FsLock.tla (history: %s)" % (
        t["cfg"]["n"], t["cfg"]["stale"], t["scripts"],
        (" lock objects constructed under pids %s (parent %d %s)" % (t["fork"]["ctor"], PARENT, "alive" if t["fork"].get("parent") else "dead"))
        if PARENT in (t.get("fork") or {}).get("ctor", []) else "",
        reached, e,
        " ".join("%d:%s%s" % (x["p"], x["e"], ("=" + x["res"]) if x["res"] else "") for x in ev[:reached + 1]))


def report(ctx, t, reached, origin):
    ctx.violation(fingerprint(t, reached), origin + ": " + describe(t, reached),
                  dict(n=t["cfg"]["n"], stale=t["cfg"]["stale"], scripts=t["scripts"], fork=t.get("fork") or None, path=t["path"], rejected_at=reached))


def mutate(t, rng):
    """Corrupt one logged field so that the trace is certainly not an execution of the specification."""
    evs = t["ev"]
    holding = set()
    cands = []
    for i, e in enumerate(evs):
        if e["e"] in ("symlink", "readlink", "kill", "rmlink"):
            cands.append((i, "res"))
            if e["e"] == "readlink" and e["res"] == "ok":
                cands.append((i, "v"))
        elif e["e"] == "lock_ret":
            if e["res"] == "false" and holding - {e["p"]}:
                cands.append((i, "second"))
            if e["res"] == "true":
                holding.add(e["p"])
        elif e["e"] in ("unlock_call", "die"):
            holding.discard(e["p"])
        elif e["e"] == "unlock_ret" and e["res"] == "ok":
            cands.append((i, "unlockfail"))
    if not cands:
        return None
    i, how = rng.choice(cands)
    e = evs[i]
    if how == "res":
        flip = {"ok": {"symlink": "EEXIST", "readlink": "ENOENT", "kill": "ESRCH", "rmlink": "ENOENT"}[e["e"]],
                "EEXIST": "ok", "ENOENT": "ok", "ESRCH": "ok"}
        e["res"] = flip[e["res"]]
    elif how == "v":
        e["v"] += 1
    elif how == "second":
        e["res"] = "true"
    else:
        e["res"] = "EXC"
    return t


# ----------------------------------------------------------------------------- run

def _selftest(ctx, module, good, mutate_fn, n):
    """Binding self-test on accepted traces; when violations leave too few accepted traces, it is skipped (never masks them)."""
    from harness.core import MachineryError
    try:
        if not good:
            raise MachineryError("selftest: no accepted trace to corrupt")
        ctx.selftest_rejects(module, good, mutate_fn, n=n)
    except MachineryError as e:
        if ctx.violations and "no " in str(e):
            ctx.log("selftest skipped (%s)" % e)
        else:
            raise


def run(ctx):
    import json
    from harness.core import MachineryError
    acts = ["LockCall", "Symlink", "Readlink", "Kill", "Rmlink", "LockRet", "UnlockCall", "URead", "URm", "UnlockRet"]

    # (1) design: no stale lock possible -> the protocol must be safe (exhaustive)
    r = ctx.mc("FsLockMC", ctx.pick("FsLockMC.safe.cfg", "FsLockMC.safe.thorough.cfg"), label="no stale lock possible")
    if not r.ok:
        raise MachineryError("FsLock protocol unsafe without any stale lock: " + r.error)
    ctx.require_actions("FsLockMC", [a for a in acts if a not in ("Rmlink",)])

    with patched():
        # (2) design: stale locks possible; a counterexample is replayed on the real code (threads)
        cex_runs = []
        for cfgname, label in ((ctx.pick("FsLockMC.mx.cfg", "FsLockMC.mx.thorough.cfg"), "MutualExclusion"),
                               (ctx.pick("FsLockMC.rel.cfg", "FsLockMC.rel.thorough.cfg"), "CanRelease")):
            r = ctx.mc("FsLockMC", cfgname, label=label + " with stale locks")
            if r.ok:
                continue
            if r.kind != "invariant":
                raise MachineryError("unexpected TLC result on %s: %s" % (cfgname, r.error))
            c, sched = parse_cex(r)
            if not sched:
                raise MachineryError("cannot parse TLC counterexample of %s" % cfgname)
            t, followed = replay_schedule(c["n"], c["stale"], sched)
            ctx.log("TLC counterexample to %s (%d steps, n=%d stale=%s) replayed on the real code: schedule %s" % (
                label, len(sched), c["n"], c["stale"], "followed" if followed else "NOT followed"))
            cex_runs.append((label, t, followed))
        ctx.require_actions("FsLockMC", acts + ["Die"])
        # liveness of the design
        r = ctx.mc("FsLockMC", ctx.pick("FsLockMC.live.cfg", "FsLockMC.live.thorough.cfg"), coverage=False, label="stale lock eventually acquired (WF)")
        if not r.ok:
            if r.kind != "property":
                raise MachineryError("unexpected TLC result on liveness: " + r.error)
            ctx.extra["design_liveness_counterexample"] = r.error[:500]
            ctx.log("TLC: liveness StaleAcquired violated on the design: " + r.error[:200])

        # (3) real code: all interleavings of small scripts, random long runs
        traces = []
        exh = []
        LU = ("lock", "unlock")
        small = [(2, False, [LU, LU]), (2, True, [LU, LU]),
                 (2, False, [("lock", "die"), LU]), (2, True, [LU + LU, LU]),
                 (2, False, [LU + LU, LU + LU]), (2, True, [("lock", "die"), LU + LU])]
        big = [(3, False, [LU, LU, LU]), (3, True, [LU, LU, LU]),
               (3, False, [("lock", "die"), LU, LU])]
        if not ctx.quick:
            small += [(2, True, [LU + LU, LU + LU]), (2, True, [LU * 3, ("lock", "die")])]
            big += [(3, True, [("lock", "die"), LU, LU]), (3, True, [LU + LU, LU, LU])]
        all_complete = True
        FA = {"ctor": [PARENT, PARENT], "parent": True}      # both forked from a live parent that built the lock object
        FD = {"ctor": [PARENT, 2], "parent": False}          # process 1's object was built by a parent that has died
        small += [(2, False, [LU, LU], FA), (2, False, [LU + LU, LU], FD), (2, True, [LU, LU], FD)]
        for item in small + big:
            n, stale, scripts = item[:3]
            fork = item[3] if len(item) > 3 else None
            cap = None if n == 2 else ctx.pick(1200, 15000)
            ts, nstates, complete = explore(n, stale, scripts, max_runs=cap, fork=fork)
            if n == 2:
                all_complete = all_complete and complete      # `exhaustive` refers to the 2-process script sets
            exh.append(dict(n=n, stale=stale, scripts=[list(s) for s in scripts], fork=fork, runs=len(ts), states=nstates, complete=complete))
            ctx.log("explored n=%d stale=%s scripts=%s fork=%s: %d runs, %d states, complete=%s" % (n, stale, scripts, fork, len(ts), nstates, complete))
            traces += ts
        ctx.extra["exhaustive_interleavings"] = exh
        ctx.exhaustive = all_complete
        for _ in range(ctx.pick(1200, 20000)):
            traces.append(random_run(ctx.rng))
        # spec -> code: behaviours generated by TLC from the protocol model are imposed on the real code
        behs = ctx.simulate("FsLockSim", "FsLockSim.cfg", num=ctx.pick(150, 2500), depth=28)
        notrepro = 0
        for b in behs:
            sched = [(h["p"], h["e"]) for h in b["hist"]]
            t, followed = replay_schedule(b["cfg"]["n"], b["cfg"]["stale"], sched, runner=ReRun)
            if not (followed and predicted_ok(t, b["hist"])):
                notrepro += 1
            traces.append(t)
        ctx.extra["spec_behaviours_replayed"] = len(behs)
        ctx.extra["spec_behaviours_not_reproduced"] = notrepro
        ctx.impl_drift += notrepro
        ctx.log("spec->code: %d TLC-generated behaviours imposed on the real code, %d not reproduced" % (len(behs), notrepro))
        # genuinely threaded executions: random ones, and re-runs of recorded paths (the two runners must agree)
        nthr = ctx.pick(40, 600)
        for _ in range(nthr):
            traces.append(random_run(ctx.rng, runner=ThreadRun))
        disagree = 0
        sample = [traces[i] for i in sorted(ctx.rng.sample(range(len(traces) - nthr), min(nthr, len(traces) - nthr)))]
        for t in sample:
            u = execute(t["cfg"]["n"], t["cfg"]["stale"], [tuple(x) for x in t["scripts"]], follow(t["path"]), runner=ThreadRun, fork=t.get("fork") or None)[0]
            if u["ev"] != t["ev"]:
                disagree += 1
        ctx.extra["thread_vs_reexecution_runner"] = dict(compared=len(sample), different=disagree)
        if disagree:
            raise MachineryError("thread runner and re-execution runner disagree on %d of %d paths" % (disagree, len(sample)))

    # dedupe
    uniq = {}
    for t in traces:
        uniq.setdefault(json.dumps([t["cfg"], t["ev"]], sort_keys=True), t)
    traces = list(uniq.values())
    ctx.note_traces(traces)
    ctx.log("recorded %d distinct real executions (%d runs)" % (len(traces), len(uniq)))

    # one batch for TLC: [real executions, property layer] + [TLC counterexample replays, property layer]
    #                    + [real executions, protocol-model fidelity]
    nA = len(traces)
    cex_traces = [t for _, t, _ in cex_runs]
    impl = []
    for t in traces[:ctx.pick(1500, 20000)]:
        u = dict(t)
        u["cfg"] = dict(t["cfg"], mode="impl")
        impl.append(u)
    batch = traces + cex_traces + impl
    rej = ctx.validate("FsLockTrace", batch, shard_size=4000, count=False)
    rejA = [x for x in rej if x.idx < nA]
    rejC = {x.idx - nA: x for x in rej if nA <= x.idx < nA + len(cex_traces)}
    rejI = [x for x in rej if x.idx >= nA + len(cex_traces)]
    ctx.traces_ok += nA - len(rejA)

    # verdicts: executions of the real code that the property layer cannot explain
    for x in rejA:
        report(ctx, traces[x.idx], x.reached, "real lock()/unlock() execution")
    ctx.extra["real_executions_rejected"] = len(rejA)

    # TLC counterexamples: reported only if the real code reproduces the bad state (TLC rejects the real trace)
    for i, (label, t, followed) in enumerate(cex_runs):
        if i in rejC:
            report(ctx, t, rejC[i].reached, "TLC counterexample to %s reproduced on the real code" % label)
            ctx.extra.setdefault("design_cex_reproduced", []).append(label)
        else:
            # the protocol model does not describe this code (e.g. the code was repaired): fidelity problem, not a finding
            ctx.impl_drift += 1
            ctx.extra.setdefault("design_cex_not_reproduced", []).append(dict(invariant=label, followed=followed))
            ctx.log("NOTE: TLC counterexample to %s does NOT reproduce on the real code (the protocol model does not describe this code)" % label)

    # model fidelity: the real code issues exactly the calls of the protocol model
    ctx.impl_drift += len(rejI)
    ctx.extra["protocol_model_fidelity"] = dict(checked=len(impl), not_following_protocol_model=len(rejI))
    if rejI:
        x = rejI[0]
        ctx.log("NOTE: %d of %d real executions do not follow the protocol model, e.g. at event %d: %s" % (
            len(rejI), len(impl), x.reached, batch[x.idx]["ev"][:x.reached + 1][-4:]))

    bad = {x.idx for x in rejA}
    good = [t for i, t in enumerate(traces) if i not in bad and len(t["ev"]) > 6]
    _selftest(ctx, "FsLockTrace", good[-300:], mutate, n=24)


def replay(ctx, obj):
    with patched():
        t = execute(obj["n"], obj["stale"], [tuple(s) for s in obj["scripts"]], follow(obj["path"]), runner=ThreadRun, fork=obj.get("fork") or None)[0]
    ctx.note_trace(t)
    for e in t["ev"]:
        print(e)
    rej = ctx.validate("FsLockTrace", [t])
    for x in rej:
        report(ctx, t, x.reached, "replayed execution")
