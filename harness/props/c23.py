"""C23 -- HTTP client completes every request exactly once with the exact body.

Spec:     specs/HttpClient.tla (Abs layer over the reference parser of specs/HttpMsgSyntax.tla),
          HttpClientMC (ideal client, every segmentation and loss position, exhaustive),
          HttpClientTrace (trace validation).
Binding:  real twisted.web._newclient.HTTP11ClientProtocol on a StringTransport: a request is written,
          the response stream is delivered in segments, the connection is lost at some octet
          position; response.deliverBody is called in the Deferred's callback, later, or never.
          One event per environment step with the callbacks observed during it.  TLC decides.
"""
import copy

META = dict(
    id="C23",
    specs=["HttpMsgSyntax.tla", "HttpClient.tla", "HttpClientMC.tla", "HttpClientTrace.tla"],
    technique="TLA+ Abs spec of the client's observable contract over a reference analysis of the response stream (RFC 9112 framing, interim responses); TLC exhaustive over item-built streams x every segmentation x loss at every octet x deliverBody timing, with accepted-ideal / rejected-buggy oracle checks; TLC trace validation of real HTTP11ClientProtocol executions (every truncation point of every generated stream, one-piece / octet-wise tail / random segmentation)",
    level_text="TLC checks on the specification, for every stream built from the listed items, every segmentation, connection loss at every octet position and every deliverBody timing, that the request Deferred fires exactly once (response when the head completes, else failure), consumer data is always a prefix of and finally equal to the body octets received, and consumer connectionLost is called exactly once with the reason class the framing and truncation determine; every recorded execution of the real HTTP11ClientProtocol is validated by TLC as a behaviour of that specification, with the invariants evaluated at every step.",
    level_note="Trusted: TLC, the adapter's recording of callback arguments and failure classes. Responses are well-formed (the reference analysis must accept the complete stream); the request is fully written before the response arrives (state WAITING); no octets follow the end of the message. The spec allows ResponseDone to be reported with any event after the last body octet (the property does not fix the moment). Streams/segmentations beyond the enumerated ones are sampled.",
    design_ref="2.7 C23",
    rule="execution = response stream x request method x deliverBody timing x segmentation x loss position; distinct = hash of (cfg, events); non-trivial = at least two different event kinds",
)


def O(k, code=0, b=(), r=""):
    return {"k": k, "code": code, "b": list(b), "r": r}


def run_scn(scn):
    from twisted.web._newclient import HTTP11ClientProtocol, Request
    from twisted.web.http_headers import Headers
    from twisted.internet.testing import StringTransport
    from twisted.internet.protocol import Protocol
    from twisted.internet.error import ConnectionDone, ConnectionLost
    from twisted.python.failure import Failure

    obs = []

    class Consumer(Protocol):
        def dataReceived(self, data):
            obs.append(O("data", b=data))

        def connectionLost(self, reason):
            obs.append(O("lost", r=reason.type.__name__))

    consumer = Consumer()
    holder = []

    def on_resp(resp):
        obs.append(O("resp", code=resp.code))
        holder.append(resp)
        if scn["dbody"] == "now":
            resp.deliverBody(consumer)

    def on_fail(f):
        obs.append(O("fail", r=f.type.__name__))

    proto = HTTP11ClientProtocol()
    tr = StringTransport()
    proto.makeConnection(tr)

    def issue():
        req = Request(b"HEAD" if scn["head"] else b"GET", b"/x", Headers({b"host": [b"h"]}), None, persistent=scn.get("persistent", False))
        proto.request(req).addCallbacks(on_resp, on_fail)

    first = scn.get("first")
    if first is None:
        issue()
    else:
        # The request under observation is a FOLLOW-UP: it is issued, re-entrantly, from the connectionLost
        # callback of the body consumer of an earlier, persistent request on the same protocol (what
        # readBody(...).addCallback(agent.request) does with a persistent pool).  The earlier exchange is
        # only driven here (it is validated by the ordinary executions); recording starts with the follow-up.
        issued = []

        class FirstConsumer(Protocol):
            def connectionLost(self, reason):
                if not issued:
                    issued.append(reason.type.__name__)
                    issue()

        c1 = FirstConsumer()
        h1 = []

        def first_resp(resp):
            h1.append(resp)
            if first["dbody"] == "now":
                resp.deliverBody(c1)

        proto.request(Request(b"HEAD" if first["head"] else b"GET", b"/first", Headers({b"host": [b"h"]}), None, persistent=True)).addCallbacks(first_resp, lambda f: None)
        pos1 = 0
        fs = bytes(first["stream"])
        for k in first["cuts"]:
            proto.dataReceived(fs[pos1:pos1 + k])
            pos1 += k
        if first["dbody"] == "later" and h1:
            h1[0].deliverBody(c1)
        if not issued:
            from harness.core import MachineryError
            raise MachineryError("chained scenario: the first exchange did not end with the consumer's connectionLost: %r" % fs)
    ev = [{"e": "start"}] if not obs else [{"e": "start:callbacks-before-any-response", "obs": list(obs)}]

    def take():
        o = list(obs)
        del obs[:]
        return o

    stream = bytes(scn["stream"])
    pos = 0
    steps = list(scn["cuts"]) + ["lost"]
    later_at = scn.get("later_at", 10 ** 9)       # deliverBody (dbody == "later") after this many steps, once the response is there
    done_later = False

    def maybe_later(i):
        nonlocal done_later
        if scn["dbody"] == "later" and not done_later and holder and i >= later_at:
            done_later = True
            try:
                holder[0].deliverBody(consumer)
                ev.append({"e": "deliverBody", "obs": take()})
            except BaseException as e:
                ev.append({"e": "deliverBody:EXC:" + type(e).__name__, "obs": take()})

    for i, st in enumerate(steps):
        maybe_later(i)
        if st == "lost":
            try:
                proto.connectionLost(Failure(ConnectionDone() if scn.get("clean", True) else ConnectionLost()))
                ev.append({"e": "connLost", "obs": take()})
            except BaseException as e:
                ev.append({"e": "connLost:EXC:" + type(e).__name__, "obs": take()})
        else:
            try:
                proto.dataReceived(stream[pos:pos + st])
                ev.append({"e": "deliver", "n": st, "obs": take()})
            except BaseException as e:
                ev.append({"e": "deliver:EXC:" + type(e).__name__, "n": st, "obs": take()})
            pos += st
    maybe_later(10 ** 9 + 1)
    return {"cfg": {"stream": list(scn["stream"]), "head": bool(scn["head"]), "dbody": scn["dbody"]}, "ev": ev}


# --------------------------------------------------------------------------- response streams

def gen_stream(rng, head, force=None):
    """A well-formed response stream built from items; returns (octets, description, length of the head part).
    force = (framing, interim count) pins the framing so that every kind occurs in every run."""
    parts = []
    desc = []
    # interim responses carry arbitrary headers, including the connection-control ones (the reference skips a
    # 1xx response whatever it carries); with a pinned framing every interim response has at least one of them
    ctl = [b"Content-Length: 0", b"Content-Length: %d" % rng.choice([1, 5, 7, 1234]), b"Transfer-Encoding: chunked",
           b"Connection: close", b"content-length:3", b"Keep-Alive: timeout=5"]
    for k in range(rng.choice([0, 0, 0, 1, 1, 2]) if force is None else force[1]):
        code = rng.choice([100, 102, 103, 199])
        parts.append(b"HTTP/1.1 %d %s\r\n" % (code, rng.choice([b"Continue", b"", b"Early Hints"])))
        ih = [h for h in [b"Link: </s.css>", b"X-I: 1"] if rng.random() < 0.4] + [h for h in ctl if rng.random() < 0.25]
        if force is not None and not any(h in ctl[:4] for h in ih):
            ih.append(ctl[(k + len(force[0])) % 4])
        rng.shuffle(ih)
        for h in ih:
            parts.append(h + b"\r\n")
        parts.append(b"\r\n")
        desc.append("1xx" + ("+ctl" if any(h in ctl for h in ih) else ""))
    code = rng.choice([200, 200, 200, 201, 404, 500, 204, 304, 299])
    ver = rng.choice([b"HTTP/1.1", b"HTTP/1.1", b"HTTP/1.0"])
    if force is not None:
        code = rng.choice([204, 304]) if force[0] == "nobody" and not head else rng.choice([200, 404])
        ver = b"HTTP/1.1"
    parts.append(ver + b" %d " % code + rng.choice([b"OK", b"", b"Not Found", b"a b\tc", b"\xe9t\xe9"]) + b"\r\n")
    hdrs = []
    for _ in range(rng.choice([0, 1, 2])):
        hdrs.append(rng.choice([b"X-A: b", b"Server:  t ", b"Set-Cookie: a=b; Path=/", b"content-type:text/plain", b"X-E:", b"Connection: close", b"Date: x"]))
    body = bytes(rng.choice([13, 10, 48, 49, 97, 59, 0, 255, rng.randrange(256)])
                 for _ in range(rng.choice([0, 0, 1, 2, 3, 5, 8, 13, 21, 40]) if force is None else rng.choice([3, 5, 8, 13])))
    nobody = head or code in (204, 304)
    framing = rng.choice(["length", "chunked", "close"]) if ver == b"HTTP/1.1" else rng.choice(["length", "close"])
    if force is not None and not nobody:
        framing = force[0]
        if framing == "empty":               # Content-Length: 0
            framing, body = "length", b""
    tail = b""
    if nobody:
        r = rng.random()
        if r < 0.3:
            hdrs.append(b"Content-Length: %d" % rng.choice([0, 5, 1234]))
        elif r < 0.45 and ver == b"HTTP/1.1":
            hdrs.append(b"Transfer-Encoding: chunked")
        desc.append("%d nobody" % code)
    elif framing == "length":
        hdrs.append(rng.choice([b"Content-Length: %d", b"content-length:%d", b"Content-Length: %d ", b"CONTENT-LENGTH: 0%d"]) % len(body))
        tail = body
        desc.append("%d CL %d" % (code, len(body)))
    elif framing == "chunked":
        hdrs.append(rng.choice([b"Transfer-Encoding: chunked", b"transfer-encoding: Chunked", b"Transfer-Encoding:chunked"]))
        i = 0
        while i < len(body):
            n = rng.choice([1, 1, 2, 3, 7, 16, 40] if force is None else [1, 2, 3])      # pinned streams: several chunks
            c = body[i:i + n]
            i += n
            size = rng.choice([b"%x", b"%X", b"0%x"]) % len(c)
            ext = rng.choice([b"", b"", b"", b";a=b", b";x", b"; q=\"v\""] if force is None else [b"", b";a=b", b";x", b"; q=\"v\"", b";name=value;n2"])
            tail += size + ext + b"\r\n" + c + b"\r\n"
        tail += rng.choice([b"0", b"0", b"00", b"0;e=1"]) + b"\r\n" + rng.choice([b"", b"", b"X-T: v\r\n", b"A: 1\r\nB: 2\r\n"]) + b"\r\n"
        desc.append("%d chunked %d" % (code, len(body)))
    else:
        tail = body
        desc.append("%d close %d" % (code, len(body)))
    rng.shuffle(hdrs)
    for h in hdrs:
        parts.append(h + b"\r\n")
    parts.append(b"\r\n")
    return list(b"".join(parts) + tail), " ".join(desc), len(b"".join(parts))


def cuts_for(rng, p, mode):
    """Segment lengths summing to p."""
    if p == 0:
        return []
    if mode == "one":
        return [p]
    if mode == "tail":       # one piece, then the last octets one by one
        t = min(p, rng.choice([2, 4, 8]))
        return ([p - t] if p > t else []) + [1] * t
    out = []
    left = p
    while left:
        k = min(left, rng.choice([1, 1, 2, 3, 5, 9, 17, 40]))
        out.append(k)
        left -= k
    return out


def scns_for_stream(rng, stream, head, desc, positions, modes):
    out = []
    timing = ["now", "later", "now", "later", "never"]
    n = len(stream)
    # every two-piece segmentation of the complete stream (cut at every listed position), loss after the end
    for c in positions:
        if 0 < c < n:
            out.append({"stream": stream, "head": head, "dbody": timing[c % 5], "cuts": [c, n - c], "desc": desc,
                        "later_at": rng.choice([0, 1, 2, 3]), "clean": c % 2 == 0, "persistent": rng.random() < 0.5})
    for p in positions:
        for mi, mode in enumerate(modes):
            dbody = timing[(p + mi) % 5]
            cuts = cuts_for(rng, p, mode)
            out.append({"stream": stream, "head": head, "dbody": dbody, "cuts": cuts, "desc": desc,
                        "later_at": rng.choice([0, 1, 2, len(cuts), len(cuts) + 1, 10 ** 9]), "clean": rng.random() < 0.5,
                        "persistent": rng.random() < 0.5})
    return out


def chain_scns(rng, nmax):
    """Follow-up requests issued re-entrantly from the first consumer's connectionLost: first exchanges of every
    self-delimiting kind (deliverBody in the callback or after the whole response), second responses of every
    framing kind incl. body-less ones, loss at sampled positions, one-piece and random segmentation."""
    out = []
    firsts = []
    for kind in [("length", 0), ("chunked", 1), ("nobody", 0), ("empty", 0)]:
        while True:
            st, desc, hl = gen_stream(rng, False, kind)
            if b"onnection: close" not in bytes(st):
                break
        firsts.append((st, desc))
    seconds = []
    for head, kind in [(False, ("length", 0)), (False, ("chunked", 0)), (False, ("close", 0)), (False, ("nobody", 0)), (False, ("empty", 0)),
                       (True, ("nobody", 0)), (False, ("nobody", 1)), (False, ("empty", 2))]:
        st, desc, hl = gen_stream(rng, head, kind)
        seconds.append((st, desc, hl, head))
    i = 0
    for fst, fdesc in firsts:
        for fdb in ("now", "later"):
            for st, desc, hl, head in seconds:
                n = len(st)
                for p in sorted({hl - 1, hl, n - 1, n} | {rng.randint(0, n)}):
                    if not 0 <= p <= n:
                        continue
                    i += 1
                    nf = len(fst)
                    fc = [nf] if i % 3 else cuts_for(rng, nf, "random")
                    cuts = cuts_for(rng, p, "one" if i % 2 else "random")
                    out.append({"stream": st, "head": head, "dbody": ["now", "later", "now", "never"][i % 4], "cuts": cuts,
                                "desc": desc, "later_at": rng.choice([0, 1, len(cuts) + 1]), "clean": i % 2 == 0, "persistent": i % 5 != 0,
                                "first": {"stream": fst, "head": False, "dbody": fdb, "cuts": fc, "desc": fdesc}})
    rng.shuffle(out)
    return out[:nmax]


def describe(scn):
    pre = ""
    if scn.get("first"):
        f = scn["first"]
        pre = "FOLLOW-UP request issued from the connectionLost of the consumer of a first persistent GET (%s, deliverBody %s, segments %s, stream %r): " % (
            f.get("desc", ""), f["dbody"], f["cuts"], bytes(f["stream"]))
    return pre + "%s %s, deliverBody %s%s, segments %s then connection %s; stream %r" % (
        "HEAD" if scn["head"] else "GET", scn.get("desc", ""), scn["dbody"],
        (" after step %d" % scn["later_at"]) if scn["dbody"] == "later" else "", scn["cuts"],
        "closed" if scn.get("clean", True) else "lost", bytes(scn["stream"]))


def fingerprint(scn, trace, rej):
    """Names the failing step: framing / request kind / deliverBody timing / event kind / what was observed."""
    e = trace["ev"][rej.reached] if rej.reached < len(trace["ev"]) else {"e": "end", "obs": []}
    kinds = "+".join(o["k"] + (":" + o["r"] if o["k"] in ("lost", "fail") else "") for o in e.get("obs", []))
    d = scn.get("desc", "").split()
    fr = (d[-2] if len(d) >= 2 and d[-1].isdigit() else "nobody") if d else "?"
    total = sum(scn["cuts"])
    where = "complete" if total == len(scn["stream"]) else "truncated"
    return "%s%s/%s/%s/%s/%s/[%s]" % ("follow-up:" if scn.get("first") else "", "HEAD" if scn["head"] else "GET", fr, scn["dbody"], where, e["e"], kinds)


def mutate(t, rng):
    ev = t["ev"]
    cand = [e for e in ev if e.get("obs")]
    r = rng.random()
    if r < 0.25 and cand:
        e = rng.choice(cand)
        e["obs"].append(dict(e["obs"][-1]))                   # a callback reported twice
        if e["obs"][-1]["k"] == "data" and not e["obs"][-1]["b"]:
            return None
    elif r < 0.5 and cand:
        e = rng.choice(cand)
        o = e["obs"].pop(rng.randrange(len(e["obs"])))        # a callback dropped
        if o["k"] == "data" and not o["b"]:
            return None
        if o["k"] == "lost" and o["r"] == "ResponseDone" and e["e"] != "connLost" and ev[-1] is not e:
            return None                                       # (late ResponseDone is allowed only if it comes later; it does not)
    elif r < 0.7:
        ds = [o for e in ev for o in e.get("obs", []) if o["k"] == "data" and o["b"]]
        if not ds:
            return None
        rng.choice(ds)["b"][0] ^= 1                           # a body octet altered
    elif r < 0.85:
        ls = [o for e in ev for o in e.get("obs", []) if o["k"] == "lost"]
        if not ls:
            return None
        o = rng.choice(ls)
        o["r"] = {"ResponseDone": "PotentialDataLoss", "PotentialDataLoss": "ResponseDone"}.get(o["r"], "ResponseDone")
    else:
        rs = [o for e in ev for o in e.get("obs", []) if o["k"] == "resp"]
        if not rs:
            return None
        rs[0]["code"] += 1                                    # another status than the one sent
    return t


def run(ctx):
    from harness.core import MachineryError
    from harness.adapters import c20_http as H
    r = ctx.mc("HttpClientMC", ctx.pick("HttpClientMC.cfg", "HttpClientMC.thorough.cfg"), coverage=False)
    if not r.ok:
        raise MachineryError("HttpClient spec inconsistent: " + r.error + "\n" + "\n".join(r.prints[-3:]))
    H.actions_from_prints(ctx, "HttpClientMC", r)
    ctx.require_actions("HttpClientMC", ["DoStart", "DoDeliver", "DoDeliverBody", "DoConnLost"])

    scns = []
    forced = [("length", 0), ("chunked", 0), ("close", 0), ("nobody", 0), ("length", 1), ("chunked", 2), ("close", 1), ("nobody", 2), ("length", 2)]
    nstreams = ctx.pick(15, 150)
    for si in range(nstreams):
        force = forced[si] if si < len(forced) else None
        head = (ctx.rng.random() < 0.2) if force is None else False
        if si == nstreams - 1:
            head, force = True, ("nobody", 0)
        stream, desc, hl = gen_stream(ctx.rng, head, force)
        n = len(stream)
        if ctx.quick and n > 60:
            # sampled positions, always with the ones around the end of the head and of the message
            positions = sorted(set(ctx.rng.sample(range(n + 1), 40)) | {q for q in (0, hl - 2, hl - 1, hl, hl + 1, n - 2, n - 1, n) if 0 <= q <= n})
        else:
            positions = range(n + 1)
        scns += scns_for_stream(ctx.rng, stream, head, desc, positions, ["one", "tail", "random"])
    chained = chain_scns(ctx.rng, ctx.pick(240, 4000))
    scns += chained
    ctx.extra["follow_up_request_executions"] = len(chained)
    ctx.exhaustive = False
    ctx.extra["streams"] = nstreams
    ctx.extra["rule_positions"] = "connection loss at every octet position of every generated stream (quick: 40 sampled positions plus those around the end of the head and of the message for streams longer than 60 octets), each with one-piece, octet-wise-tail and random segmentation, plus every two-piece segmentation of the complete stream"
    traces = [run_scn(s) for s in scns]
    ctx.note_traces(traces)
    ctx.log("recorded %d real executions over %d streams" % (len(traces), nstreams))
    rej = ctx.validate("HttpClientTrace", traces, shard_size=ctx.pick(700, 3000))
    for x in rej:
        if x.reached == 0:
            raise MachineryError("generator produced a response stream the reference analysis rejects: %r" % bytes(scns[x.idx]["stream"]))
    seen = set()
    for x in rej:
        fp = fingerprint(scns[x.idx], traces[x.idx], x)
        if fp in seen and len(seen) > 40:
            continue
        seen.add(fp)
        e = traces[x.idx]["ev"][x.reached] if x.reached < len(traces[x.idx]["ev"]) else None
        ctx.violation(fp, "real HTTP11ClientProtocol execution not explained by HttpClient.tla at event %d (%s): %s" % (x.reached, e, describe(scns[x.idx])),
                      dict(scns[x.idx], rejected_at=x.reached))
    ridx = {x.idx for x in rej}
    good = [t for i, t in enumerate(traces) if i not in ridx]
    ctx.selftest_rejects("HttpClientTrace", good[-400:], mutate, n=24)


def replay(ctx, obj):
    t = run_scn(obj)
    ctx.note_trace(t)
    for x in ctx.validate("HttpClientTrace", [t]):
        ctx.violation(fingerprint(obj, t, x), "replayed execution rejected at event %d: %s" % (x.reached, describe(obj)), obj)
    print(describe(obj))
    for e in t["ev"]:
        print(e)
