"""C47 -- PROXY protocol headers are parsed regardless of segmentation.

Spec:     specs/ProxyHdr.tla (relation between the consumed prefix of an abstract stream and what the
          wrapped protocol may have seen; a buffering wrapper design checked against it), ProxyHdrMC
          (exhaustive TLC, every segmentation), ProxyHdrTrace (trace validation).
Binding:  a real HAProxyWrappingFactory wrapping a recording protocol, connected to a StringTransport.
          The generator picks a header kind (v1 TCP4/TCP6/UNKNOWN, v2 PROXY/LOCAL x INET/INET6/UNIX/
          UNSPEC, with TLVs) or a mutation (bad signature/word/version/command/family, short length,
          missing fields, over-long line, no header at all), concretises it to bytes, appends payload
          and cuts the stream.  Logged per dataReceived: bytes the wrapped protocol received, whether
          a close was requested (loseConnection / exception), getPeer()/getHost() as the wrapped
          protocol sees them, and the same for a fresh connection given the whole prefix in one piece.
          The harness stops delivering after a close request, as a TCP transport does.  TLC decides.
"""
import ipaddress
import struct

META = dict(
    id="C47",
    specs=["ProxyHdr.tla", "ProxyHdrMC.tla", "ProxyHdrTrace.tla"],
    technique="TLA+ spec of the PROXY-header relation (valid: addresses + exactly the payload, never closed; invalid: nothing "
              "delivered, closed between the first bad byte and the end of the offending header) with a buffering wrapper design, "
              "checked exhaustively by TLC over 22 header kinds with real lengths and every segmentation + TLC trace validation "
              "of real HAProxyWrappingFactory connections (every single split of every kind, random multi-splits)",
    level_text="TLC checks for every header kind and every segmentation that a buffering wrapper design delivers exactly the payload "
               "with the header's addresses for valid headers and closes without delivering anything for invalid ones; every "
               "recorded connection through the real HAProxyWrappingFactory is validated by TLC against that relation, as is the "
               "one-piece run of every prefix reached.",
    level_note="Trusted: TLC, the adapter's logging, and the generator's concretisation of an abstract header (kind, length, first "
               "bad byte, decision point) to bytes -- header validity is defined by the generator following the PROXY protocol "
               "specification v1/v2, not re-parsed by the spec. Address text is normalised with ipaddress before comparison. "
               "Nothing is delivered after a close request (TCP semantics). TLV contents are opaque.",
    design_ref="2.6 C47",
    rule="case = header kind (or mutation) with random field values x payload x segmentation; distinct = hash of (cfg, events); "
         "non-trivial = stream cut into at least two deliveries or an invalid stream",
)

SIG = b"\r\n\r\n\x00\r\nQUIT\n"
RPEER = ("TCP", "10.0.0.2", 4321)
RHOST = ("TCP", "10.0.0.1", 1234)


def addr_list(a):
    """IAddress -> [type, host, port] strings (host normalised)."""
    from twisted.internet import address

    if isinstance(a, address.UNIXAddress):
        n = a.name
        return ["UNIX", n.decode("latin-1") if isinstance(n, bytes) else str(n), ""]
    h = a.host
    try:
        h = ipaddress.ip_address(h).compressed
    except ValueError:
        pass
    return [str(a.type), h, str(a.port)]


def norm(t, h, p):
    try:
        h = ipaddress.ip_address(h).compressed
    except ValueError:
        pass
    return [t, h, str(p)]


# --------------------------------------------------------------------------- generator: abstract header -> bytes

def rand_ip4(rng):
    return rng.choice(["1.2.3.4", "255.255.255.255", "0.0.0.0", "127.0.0.1",
                       "%d.%d.%d.%d" % tuple(rng.randrange(256) for _ in range(4))])


def rand_ip6(rng):
    a = ipaddress.IPv6Address(rng.getrandbits(128))
    return rng.choice(["::1", "::", "ffff:ffff:ffff:ffff:ffff:ffff:ffff:ffff", a.compressed, a.exploded, "2001:db8::8:800:200c:417a"])


def rand_port(rng):
    return rng.choice([0, 1, 80, 8080, 65535, rng.randrange(65536)])


def junk(rng, n):
    return bytes(rng.choice(b"abcXYZ0189 .:-_/") for _ in range(n))


def tlvs(rng):
    out = b""
    for _ in range(rng.choice([0, 0, 1, 2])):
        v = bytes(rng.randrange(256) for _ in range(rng.choice([0, 1, 3, 9])))
        out += bytes([rng.choice([1, 2, 3, 4, 0x20, 0x30, 0xE0])]) + struct.pack("!H", len(v)) + v
    return out


def v2(vercmd, fam, block, declared=None, sig=SIG):
    return sig + bytes([vercmd, fam]) + struct.pack("!H", len(block) if declared is None else declared) + block


def v2_block(rng, fam):
    """address block + expected addresses for a specified family/protocol"""
    t = "TCP" if fam & 0x0F == 1 else "UDP"
    if fam >> 4 == 1:
        s, d, sp, dp = rand_ip4(rng), rand_ip4(rng), rand_port(rng), rand_port(rng)
        blk = ipaddress.IPv4Address(s).packed + ipaddress.IPv4Address(d).packed + struct.pack("!2H", sp, dp)
        return blk, norm(t, s, sp), norm(t, d, dp)
    if fam >> 4 == 2:
        s, d, sp, dp = rand_ip6(rng), rand_ip6(rng), rand_port(rng), rand_port(rng)
        blk = ipaddress.IPv6Address(s).packed + ipaddress.IPv6Address(d).packed + struct.pack("!2H", sp, dp)
        return blk, norm(t, s, sp), norm(t, d, dp)
    s = b"/" + junk(rng, rng.choice([1, 7, 40, 107])).replace(b" ", b"_")
    d = b"/" + junk(rng, rng.choice([1, 7, 40, 107])).replace(b" ", b"_")
    blk = s.ljust(108, b"\0") + d.ljust(108, b"\0")
    return blk, ["UNIX", s.decode("latin-1"), ""], ["UNIX", d.decode("latin-1"), ""]


VALID_KINDS = ["v1/TCP4", "v1/TCP4-max", "v1/TCP6", "v1/TCP6-max", "v1/UNKNOWN-bare", "v1/UNKNOWN-junk", "v1/UNKNOWN-107",
               "v2/LOCAL", "v2/LOCAL-block", "v2/INET-STREAM", "v2/INET-DGRAM", "v2/INET6-STREAM", "v2/INET6-DGRAM",
               "v2/UNIX-STREAM", "v2/UNIX-DGRAM", "v2/UNSPEC", "v2/INET-STREAM-tlv", "v2/INET6-STREAM-tlv", "v2/UNIX-STREAM-tlv",
               "v2/LOCAL-tlv"]
INVALID_KINDS = ["none/garbage", "v1/badword", "v1/badsep", "v1/badproto", "v1/missing", "v1/overlong",
                 "v2/sig", "v2/version", "v2/command", "v2/family", "v2/proto", "v2/shortlen"]
NA = ["", "", ""]


def first_diff(a, b):
    for i, (x, y) in enumerate(zip(a, b)):
        if x != y:
            return i + 1
    return min(len(a), len(b)) + 1


def build(kind, rng):
    """-> (stream prefix bytes that is the header / offending block, cfg fields)"""
    valid = kind in VALID_KINDS
    ver = 1 if kind.startswith("v1") else 2 if kind.startswith("v2") else 0
    src = dst = NA
    hasaddr = False
    bad = dec = 0
    if kind in ("v1/TCP4", "v1/TCP4-max"):
        if kind.endswith("max"):
            s = d = "255.255.255.255"
            sp = dp = 65535
        else:
            s, d, sp, dp = rand_ip4(rng), rand_ip4(rng), rand_port(rng), rand_port(rng)
        hdr = ("PROXY TCP4 %s %s %d %d\r\n" % (s, d, sp, dp)).encode()
        hasaddr, src, dst = True, norm("TCP", s, sp), norm("TCP", d, dp)
    elif kind in ("v1/TCP6", "v1/TCP6-max"):
        if kind.endswith("max"):
            s = d = "ffff:ffff:ffff:ffff:ffff:ffff:ffff:ffff"
            sp = dp = 65535
        else:
            s, d, sp, dp = rand_ip6(rng), rand_ip6(rng), rand_port(rng), rand_port(rng)
        hdr = ("PROXY TCP6 %s %s %d %d\r\n" % (s, d, sp, dp)).encode()
        hasaddr, src, dst = True, norm("TCP", s, sp), norm("TCP", d, dp)
    elif kind == "v1/UNKNOWN-bare":
        hdr = b"PROXY UNKNOWN\r\n"
    elif kind == "v1/UNKNOWN-junk":
        hdr = b"PROXY UNKNOWN " + junk(rng, rng.randint(0, 60)) + b"\r\n"
    elif kind == "v1/UNKNOWN-107":
        hdr = b"PROXY UNKNOWN ffff:ffff:ffff:ffff:ffff:ffff:ffff:ffff ffff:ffff:ffff:ffff:ffff:ffff:ffff:ffff 65535 65535\r\n"
        assert len(hdr) == 107
    elif kind in ("v2/LOCAL", "v2/LOCAL-tlv"):
        hdr = v2(0x20, 0x00, tlvs(rng) if kind.endswith("tlv") else b"")
    elif kind == "v2/LOCAL-block":
        blk, _, _ = v2_block(rng, 0x11)
        hdr = v2(0x20, 0x11, blk)            # LOCAL: the receiver must ignore the address block
    elif kind == "v2/UNSPEC":
        hdr = v2(0x21, 0x00, bytes(rng.randrange(256) for _ in range(rng.choice([0, 5, 12]))))
    elif kind.startswith("v2/") and valid:
        fam = {"INET": 0x10, "INET6": 0x20, "UNIX": 0x30}[kind.split("/")[1].split("-")[0]] | (2 if "DGRAM" in kind else 1)
        blk, src, dst = v2_block(rng, fam)
        hasaddr = True
        hdr = v2(0x21, fam, blk + (tlvs(rng) if kind.endswith("tlv") else b""))
    # ----- mutations
    elif kind == "none/garbage":
        first = rng.choice([b for b in range(256) if b not in (0x50, 0x0D)])
        hdr = bytes([first]) + rng.choice([b"ET / HTTP/1.1\r\nHost: x\r\n\r\n", junk(rng, 30), bytes(rng.randrange(256) for _ in range(30))])
        bad, dec = 1, 16
    elif kind == "v1/badword":
        good = b"PROXY TCP4 1.2.3.4 5.6.7.8 11 22\r\n"
        i = rng.randrange(5)
        c = rng.choice([b for b in b"pROXYZ " if b != good[i]])
        hdr = good[:i] + bytes([c]) + good[i + 1:]
        bad, dec = i + 1, len(hdr)
    elif kind == "v1/badsep":
        hdr = b"PROXY" + rng.choice([b"X", b"\t", b"-"]) + b"TCP4 1.2.3.4 5.6.7.8 11 22\r\n"
        bad, dec = 6, len(hdr)
    elif kind == "v1/badproto":
        w = rng.choice([b"TCP5", b"UDP4", b"tcp4", b"TCP", b"UNKNOWNX", b"TCP44"])
        hdr = b"PROXY " + w + b" 1.2.3.4 5.6.7.8 11 22\r\n"
        allowed = [b"TCP4 ", b"TCP6 ", b"UNKNOWN ", b"UNKNOWN\r"]
        bad = 6 + max(first_diff(w + b" ", a) for a in allowed)
        dec = len(hdr)
    elif kind == "v1/missing":
        fields = [rng.choice([b"TCP4", b"TCP6"]), b"1.2.3.4", b"5.6.7.8", b"11", b"22"]
        n = rng.randint(1, 4)
        hdr = b"PROXY " + b" ".join(fields[:n]) + b"\r\n"
        bad, dec = len(hdr) - 1, len(hdr)          # the CR where another field had to follow
    elif kind == "v1/overlong":
        body = b"PROXY UNKNOWN " + junk(rng, rng.randint(110, 140))
        hdr = body + b"\r\n"
        bad, dec = 106, 108                        # no CR at 106 => no CRLF within 107
    elif kind == "v2/sig":
        i = rng.randrange(12)
        c = rng.choice([b for b in (0, 0x0A, 0x0D, 0x51, 0x50, 0xFF) if b != SIG[i] and not (i == 0 and b == 0x50)])
        blk, _, _ = v2_block(rng, 0x11)
        hdr = v2(0x21, 0x11, blk, sig=SIG[:i] + bytes([c]) + SIG[i + 1:])
        bad, dec = i + 1, 16
    elif kind == "v2/version":
        blk, _, _ = v2_block(rng, 0x11)
        hdr = v2(rng.choice([0x11, 0x31, 0x01, 0xF1]), 0x11, blk)
        bad, dec = 13, 16
    elif kind == "v2/command":
        blk, _, _ = v2_block(rng, 0x11)
        hdr = v2(0x20 | rng.randint(2, 15), 0x11, blk)
        bad, dec = 13, len(hdr)
    elif kind == "v2/family":
        blk, _, _ = v2_block(rng, 0x11)
        hdr = v2(0x21, (rng.randint(4, 15) << 4) | 1, blk)
        bad, dec = 14, len(hdr)
    elif kind == "v2/proto":
        blk, _, _ = v2_block(rng, 0x11)
        hdr = v2(0x21, 0x10 | rng.randint(3, 15), blk)
        bad, dec = 14, len(hdr)
    elif kind == "v2/shortlen":
        fam = rng.choice([0x11, 0x21, 0x31, 0x12])
        blk, _, _ = v2_block(rng, fam)
        n = rng.randrange(len(blk))
        hdr = v2(0x21, fam, blk[:n])
        bad, dec = 16, len(hdr)
    else:
        raise ValueError(kind)
    return hdr, dict(valid=valid, ver=ver, hasaddr=hasaddr, src=src, dst=dst, bad=bad, dec=dec)


def make_stream(kind, rng):
    hdr, c = build(kind, rng)
    n = rng.choice([0, 1, 3, 8, 20])
    payload = bytes((rng.randrange(256)) for _ in range(n))
    if rng.random() < 0.3 and n:
        payload = rng.choice([b"PROXY ", b"\r\n", SIG])[:n].ljust(n, b"x")   # payload that looks like a header
    cfg = dict(c)
    cfg.update(kind=kind, rpeer=norm(*RPEER), rhost=norm(*RHOST))
    if c["valid"]:
        cfg.update(hlen=len(hdr), payload=list(payload), total=len(hdr) + len(payload))
    else:
        cfg.update(hlen=0, payload=[], total=len(hdr) + len(payload))
    return hdr + payload, cfg


# --------------------------------------------------------------------------- real objects

def connect():
    from twisted.internet import address
    from twisted.internet.protocol import Factory, Protocol
    from twisted.internet.testing import StringTransport
    from twisted.protocols.haproxy._wrapper import HAProxyWrappingFactory

    got = []

    class App(Protocol):
        def dataReceived(self, data):
            got.extend(data)

    f = HAProxyWrappingFactory(Factory.forProtocol(App))
    p = f.buildProtocol(address.IPv4Address(*RPEER))
    tr = StringTransport(hostAddress=address.IPv4Address(*RHOST), peerAddress=address.IPv4Address(*RPEER))
    p.makeConnection(tr)
    return p, tr, got


def deliver(p, tr, got, data):
    n0 = len(got)
    close = "no"
    try:
        p.dataReceived(data)
    except Exception:
        close = "exc"
    if close == "no" and tr.disconnecting:
        close = "lose"
    app = p.wrappedProtocol
    try:
        peer, host = addr_list(app.transport.getPeer()), addr_list(app.transport.getHost())
    except Exception as e:
        peer = host = ["EXC", type(e).__name__, ""]
    return dict(app=list(got[n0:]), close=close, peer=peer, host=host)


def run_case(stream, cfg, cuts):
    ev = []
    p, tr, got = connect()
    consumed = 0
    for k in list(cuts) + [len(stream)]:
        k = min(k, len(stream) - consumed)
        if k <= 0:
            continue
        o = deliver(p, tr, got, stream[consumed:consumed + k])
        consumed += k
        p1, tr1, got1 = connect()
        one = deliver(p1, tr1, got1, stream[:consumed])
        e = {"e": "deliver", "k": k}
        e.update(o)
        e["one"] = one
        ev.append(e)
        if o["close"] != "no":
            break          # a TCP transport delivers nothing after loseConnection / the reactor drops the connection
    return {"cfg": cfg, "stream": list(stream), "cuts": list(cuts), "ev": ev}


# --------------------------------------------------------------------------- verdict plumbing

def fingerprint(t, rej):
    cfg = t["cfg"]
    ev = t["ev"][rej.reached] if rej.reached < len(t["ev"]) else None
    if ev is None:
        return "end-of-trace"
    before = sum(e["k"] for e in t["ev"][:rej.reached])
    after = before + ev["k"]
    who = "split"
    # which run misbehaved: the split run (this delivery) or the one-piece run of the same prefix
    def wrong(o, m, n):
        if cfg["valid"]:
            exp = cfg["payload"][max(m, cfg["hlen"]) - cfg["hlen"]:max(n - cfg["hlen"], 0)] if n > cfg["hlen"] else []
            if o["close"] != "no":
                return "closes-valid-stream"
            if o["app"] != exp:
                return "wrong-bytes-to-application"
            if n >= cfg["hlen"]:
                ep, eh = (cfg["src"], cfg["dst"]) if cfg["hasaddr"] else (cfg["rpeer"], cfg["rhost"])
                if o["peer"] != ep or o["host"] != eh:
                    return "wrong-addresses"
            return None
        if o["app"]:
            return "invalid-stream-bytes-reach-application"
        if o["close"] != "no" and n < cfg["bad"]:
            return "closes-before-invalid-byte"
        if o["close"] == "no" and n >= cfg["dec"]:
            return "invalid-stream-not-closed"
        return None
    w = wrong(ev, before, after)
    if w is None:
        w1 = wrong(ev["one"], 0, after)
        who = "onepiece"
        w = w1 or "other"
    need = 16 if cfg["ver"] == 2 else 8
    n_first = after if who == "onepiece" else (after if before == 0 else need)
    if n_first < need and w in ("closes-valid-stream", "closes-before-invalid-byte"):
        # one root cause for every header kind: the very first delivery is shorter than the wrapper's fixed minimum
        return "HAProxyProtocolWrapper.dataReceived/%s/first-delivery<%d/%s" % (cfg["kind"].split("/")[0], need, w)
    if w in ("invalid-stream-bytes-reach-application", "invalid-stream-not-closed"):
        return "HAProxyProtocolWrapper.dataReceived/%s/invalid-stream-accepted" % cfg["kind"]
    return "HAProxyProtocolWrapper.dataReceived/%s/%s" % (cfg["kind"], w)


def report(ctx, traces, rej):
    for x in rej:
        t = traces[x.idx]
        ev = t["ev"][x.reached] if x.reached < len(t["ev"]) else None
        ctx.violation(fingerprint(t, x),
                      "real HAProxy wrapper run not explained by ProxyHdr.tla at delivery %d (kind %s, stream %r, cuts %r): %s" % (
                          x.reached, t["cfg"]["kind"], bytes(t["stream"])[:120], t["cuts"][:6], str(ev)[:500]),
                      dict(stream=t["stream"], cfg=t["cfg"], cuts=t["cuts"], rejected_at=x.reached))


def mutate(t, rng):
    evs = t["ev"]
    if not evs:
        return None
    cfg = t["cfg"]
    i = rng.randrange(len(evs))
    e = evs[i]
    after = sum(x["k"] for x in evs[:i + 1])
    r = rng.random()
    if r < 0.3 and e["app"]:
        e["app"][0] = (e["app"][0] + 1) % 256     # a different byte reached the application
    elif r < 0.5:
        e["app"] = e["app"] + [7]                 # an extra byte reached the application
    elif r < 0.65 and cfg["valid"] and e["close"] == "no":
        e["close"] = "lose"                       # a valid stream got closed
    elif r < 0.8 and not cfg["valid"] and e["close"] != "no" and after >= cfg["dec"]:
        e["close"] = "no"                         # an invalid stream was not closed in time
    elif cfg["valid"] and cfg["hasaddr"] and after >= cfg["hlen"]:
        e["peer"] = [e["peer"][0], e["peer"][1], e["peer"][2] + "0"]   # wrong source port seen
    elif e["one"]["app"]:
        e["one"]["app"] = e["one"]["app"][:-1]    # the one-piece run lost a byte
    else:
        return None
    return t


def nontrivial(t):
    return len(t["ev"]) >= 2 or not t["cfg"]["valid"]


def run(ctx):
    from harness.core import MachineryError

    r = ctx.mc("ProxyHdrMC", "ProxyHdrMC.cfg")
    if not r.ok:
        raise MachineryError("ProxyHdr spec violates its own invariants: " + r.error)
    ctx.require_actions("ProxyHdrMC", ["DeliverValidPartial", "DeliverValidLast", "DeliverInvalidOpen",
                                       "DeliverInvalidEarly", "DeliverInvalidClose"])

    rng = ctx.rng
    traces = []
    kinds = VALID_KINDS + INVALID_KINDS
    reps = ctx.pick(1, 6)
    for kind in kinds:
        for _ in range(reps):
            stream, cfg = make_stream(kind, rng)
            region = min(len(stream) - 1, (cfg["hlen"] if cfg["valid"] else cfg["dec"]) + 3)
            for c in range(1, region + 1):       # every single split point of the header region
                traces.append(run_case(stream, cfg, [c]))
            traces.append(run_case(stream, cfg, []))
            traces.append(run_case(stream, cfg, [1] * len(stream)))
    ctx.exhaustive = False   # every single split of every kind is enumerated, field values and multi-splits are sampled
    ctx.extra["exhaustive_note"] = "every single split point of the header region of every kind (field values sampled); multi-splits sampled"
    for _ in range(ctx.pick(1500, 60000)):
        kind = rng.choice(kinds)
        stream, cfg = make_stream(kind, rng)
        ncut = rng.choice([1, 2, 2, 3, 5])
        big = rng.random() < 0.5      # keep the first delivery large so later cuts get exercised too
        cuts = []
        if big:
            cuts.append(rng.randint(16, max(16, min(len(stream), 40))))
        for _ in range(ncut):
            cuts.append(rng.choice([1, 2, 3, 5, 8, 13, 21, 50, 100]))
        traces.append(run_case(stream, cfg, cuts))
    for t in traces:
        ctx.note_trace(t, nontrivial=nontrivial(t))
    ctx.log("recorded %d real connections" % len(traces))
    rej = ctx.validate("ProxyHdrTrace", traces, shard_size=ctx.pick(1500, 5000))
    report(ctx, traces, rej)
    ctx.extra["rejected_executions"] = len(rej)
    bad = {x.idx for x in rej}
    good = [t for i, t in enumerate(traces) if i not in bad]
    ctx.selftest_rejects("ProxyHdrTrace", good[-400:], mutate, n=20)


def replay(ctx, obj):
    t = run_case(bytes(obj["stream"]), obj["cfg"], obj["cuts"])
    ctx.note_trace(t, nontrivial=True)
    rej = ctx.validate("ProxyHdrTrace", [t])
    report(ctx, [t], rej)
    for e in t["ev"]:
        print(e)
