"""C47 -- PROXY protocol headers are parsed regardless of segmentation.

Spec:     specs/ProxyHdr.tla (relation between the consumed prefix of an abstract stream and what the
          wrapped protocol may have seen; a buffering wrapper design checked against it), ProxyHdrMC
          (exhaustive TLC, every segmentation), ProxyHdrTrace (trace validation).
Binding:  a real HAProxyWrappingFactory wrapping a recording protocol, connected to a StringTransport.
          The generator picks a header kind (v1 TCP4/TCP6/UNKNOWN, v2 PROXY/LOCAL x INET/INET6/UNIX/
          UNSPEC, with TLVs) or a mutation (bad signature/word/version/command/family, short length,
          missing fields, over-long line, no header at all), concretises it to bytes, appends payload
          and cuts the stream.  Logged per dataReceived: bytes the wrapped protocol received, whether
          a close was requested (loseConnection / exception), getPeer()/getHost() as the wrapped
          protocol sees them, and the same for a fresh connection given the whole prefix in one piece.
          The harness stops delivering after a close request, as a TCP transport does.  TLC decides.
"""
import ipaddress
import re
import struct

META = dict(
    id="C47",
    specs=["ProxyHdr.tla", "ProxyHdrMC.tla", "ProxyHdrTrace.tla"],
    technique="TLA+ spec of the PROXY-header relation (valid: addresses + exactly the payload, never closed; invalid: nothing "
              "delivered, closed between the first bad byte and the end of the offending header) with a buffering wrapper design, "
              "whose validity classification (PROXY spec v1/v2) is part of the spec, checked exhaustively by TLC over header descriptors ranging over the v2 nibbles, lengths and v1 token classes with every segmentation + TLC trace validation "
              "of real HAProxyWrappingFactory connections (every single split of every kind, random multi-splits)",
    level_text="TLC checks for every header kind and every segmentation that a buffering wrapper design delivers exactly the payload "
               "with the header's addresses for valid headers and closes without delivering anything for invalid ones; every "
               "recorded connection through the real HAProxyWrappingFactory is validated by TLC against that relation, as is the "
               "one-piece run of every prefix reached.",
    level_note="Trusted: TLC, the adapter's logging, and the adapter's lexer that reads the header fields off the real bytes (v2 nibbles "
               "and length; v1 tokens, with Python's ipaddress deciding whether a token is a well-formed address literal and decoding the "
               "expected addresses). Validity, header length and decision points are derived by the spec from those fields following the "
               "PROXY protocol specification. Nothing is delivered after a close request (TCP semantics); an exception escaping "
               "dataReceived counts as closing. TLV contents are opaque.",
    design_ref="2.6 C47",
    rule="case = header kind (or mutation) with random field values x payload x segmentation; distinct = hash of (cfg, events); "
         "non-trivial = stream cut into at least two deliveries or an invalid stream",
)

SIG = b"\r\n\r\n\x00\r\nQUIT\n"
RPEER = ("TCP", "10.0.0.2", 4321)
RHOST = ("TCP", "10.0.0.1", 1234)


def addr_list(a):
    """IAddress -> [type, host, port] strings (host normalised)."""
    from twisted.internet import address

    if isinstance(a, address.UNIXAddress):
        n = a.name
        return ["UNIX", n.decode("latin-1") if isinstance(n, bytes) else str(n), ""]
    h = a.host
    try:
        h = ipaddress.ip_address(h).compressed
    except ValueError:
        pass
    return [str(a.type), h, str(a.port)]


def norm(t, h, p):
    try:
        h = ipaddress.ip_address(h).compressed
    except ValueError:
        pass
    return [t, h, str(p)]


# --------------------------------------------------------------------------- generator: abstract header -> bytes

def rand_ip4(rng):
    return rng.choice(["1.2.3.4", "255.255.255.255", "0.0.0.0", "127.0.0.1",
                       "%d.%d.%d.%d" % tuple(rng.randrange(256) for _ in range(4))])


def rand_ip6(rng):
    a = ipaddress.IPv6Address(rng.getrandbits(128))
    return rng.choice(["::1", "::", "ffff:ffff:ffff:ffff:ffff:ffff:ffff:ffff", a.compressed, a.exploded, "2001:db8::8:800:200c:417a"])


def rand_port(rng):
    return rng.choice([0, 1, 80, 8080, 65535, rng.randrange(65536)])


def junk(rng, n):
    return bytes(rng.choice(b"abcXYZ0189 .:-_/") for _ in range(n))


def tlvs(rng):
    out = b""
    for _ in range(rng.choice([0, 0, 1, 2])):
        v = bytes(rng.randrange(256) for _ in range(rng.choice([0, 1, 3, 9])))
        out += bytes([rng.choice([1, 2, 3, 4, 0x20, 0x30, 0xE0])]) + struct.pack("!H", len(v)) + v
    return out


def v2(vercmd, fam, block, declared=None, sig=SIG):
    return sig + bytes([vercmd, fam]) + struct.pack("!H", len(block) if declared is None else declared) + block


def v2_block(rng, fam):
    """address block + expected addresses for a specified family/protocol"""
    t = "TCP" if fam & 0x0F == 1 else "UDP"
    if fam >> 4 == 1:
        s, d, sp, dp = rand_ip4(rng), rand_ip4(rng), rand_port(rng), rand_port(rng)
        blk = ipaddress.IPv4Address(s).packed + ipaddress.IPv4Address(d).packed + struct.pack("!2H", sp, dp)
        return blk, norm(t, s, sp), norm(t, d, dp)
    if fam >> 4 == 2:
        s, d, sp, dp = rand_ip6(rng), rand_ip6(rng), rand_port(rng), rand_port(rng)
        blk = ipaddress.IPv6Address(s).packed + ipaddress.IPv6Address(d).packed + struct.pack("!2H", sp, dp)
        return blk, norm(t, s, sp), norm(t, d, dp)
    s = b"/" + junk(rng, rng.choice([1, 7, 40, 107])).replace(b" ", b"_")
    d = b"/" + junk(rng, rng.choice([1, 7, 40, 107])).replace(b" ", b"_")
    blk = s.ljust(108, b"\0") + d.ljust(108, b"\0")
    return blk, ["UNIX", s.decode("latin-1"), ""], ["UNIX", d.decode("latin-1"), ""]


VALID_KINDS = ["v1/TCP4", "v1/TCP4-max", "v1/TCP6", "v1/TCP6-max", "v1/UNKNOWN-bare", "v1/UNKNOWN-junk", "v1/UNKNOWN-107",
               "v2/LOCAL", "v2/LOCAL-block", "v2/INET-STREAM", "v2/INET-DGRAM", "v2/INET6-STREAM", "v2/INET6-DGRAM",
               "v2/UNIX-STREAM", "v2/UNIX-DGRAM", "v2/UNSPEC", "v2/INET-STREAM-tlv", "v2/INET6-STREAM-tlv", "v2/UNIX-STREAM-tlv",
               "v2/LOCAL-tlv"]
INVALID_KINDS = ["none/garbage", "v1/badword", "v1/badsep", "v1/badproto", "v1/missing", "v1/overlong",
                 "v2/sig", "v2/version", "v2/command", "v2/family", "v2/proto", "v2/shortlen"]
NA = ["", "", ""]


def first_diff(a, b):
    for i, (x, y) in enumerate(zip(a, b)):
        if x != y:
            return i + 1
    return min(len(a), len(b)) + 1


def build(kind, rng):
    """-> (stream prefix bytes that is the header / offending block, cfg fields)"""
    valid = kind in VALID_KINDS
    ver = 1 if kind.startswith("v1") else 2 if kind.startswith("v2") else 0
    src = dst = NA
    hasaddr = False
    bad = dec = 0
    if kind in ("v1/TCP4", "v1/TCP4-max"):
        if kind.endswith("max"):
            s = d = "255.255.255.255"
            sp = dp = 65535
        else:
            s, d, sp, dp = rand_ip4(rng), rand_ip4(rng), rand_port(rng), rand_port(rng)
        hdr = ("PROXY TCP4 %s %s %d %d\r\n" % (s, d, sp, dp)).encode()
        hasaddr, src, dst = True, norm("TCP", s, sp), norm("TCP", d, dp)
    elif kind in ("v1/TCP6", "v1/TCP6-max"):
        if kind.endswith("max"):
            s = d = "ffff:ffff:ffff:ffff:ffff:ffff:ffff:ffff"
            sp = dp = 65535
        else:
            s, d, sp, dp = rand_ip6(rng), rand_ip6(rng), rand_port(rng), rand_port(rng)
        hdr = ("PROXY TCP6 %s %s %d %d\r\n" % (s, d, sp, dp)).encode()
        hasaddr, src, dst = True, norm("TCP", s, sp), norm("TCP", d, dp)
    elif kind == "v1/UNKNOWN-bare":
        hdr = b"PROXY UNKNOWN\r\n"
    elif kind == "v1/UNKNOWN-junk":
        hdr = b"PROXY UNKNOWN " + junk(rng, rng.randint(0, 60)) + b"\r\n"
    elif kind == "v1/UNKNOWN-107":
        hdr = b"PROXY UNKNOWN ffff:ffff:ffff:ffff:ffff:ffff:ffff:ffff ffff:ffff:ffff:ffff:ffff:ffff:ffff:ffff 65535 65535\r\n"
        assert len(hdr) == 107
    elif kind in ("v2/LOCAL", "v2/LOCAL-tlv"):
        hdr = v2(0x20, 0x00, tlvs(rng) if kind.endswith("tlv") else b"")
    elif kind == "v2/LOCAL-block":
        blk, _, _ = v2_block(rng, 0x11)
        hdr = v2(0x20, 0x11, blk)            # LOCAL: the receiver must ignore the address block
    elif kind == "v2/UNSPEC":
        hdr = v2(0x21, 0x00, bytes(rng.randrange(256) for _ in range(rng.choice([0, 5, 12]))))
    elif kind.startswith("v2/") and valid:
        fam = {"INET": 0x10, "INET6": 0x20, "UNIX": 0x30}[kind.split("/")[1].split("-")[0]] | (2 if "DGRAM" in kind else 1)
        blk, src, dst = v2_block(rng, fam)
        hasaddr = True
        hdr = v2(0x21, fam, blk + (tlvs(rng) if kind.endswith("tlv") else b""))
    # ----- mutations
    elif kind == "none/garbage":
        first = rng.choice([b for b in range(256) if b not in (0x50, 0x0D)])
        hdr = bytes([first]) + rng.choice([b"ET / HTTP/1.1\r\nHost: x\r\n\r\n", junk(rng, 30), bytes(rng.randrange(256) for _ in range(30))])
        bad, dec = 1, 16
    elif kind == "v1/badword":
        good = b"PROXY TCP4 1.2.3.4 5.6.7.8 11 22\r\n"
        i = rng.randrange(5)
        c = rng.choice([b for b in b"pROXYZ " if b != good[i]])
        hdr = good[:i] + bytes([c]) + good[i + 1:]
        bad, dec = i + 1, len(hdr)
    elif kind == "v1/badsep":
        hdr = b"PROXY" + rng.choice([b"X", b"\t", b"-"]) + b"TCP4 1.2.3.4 5.6.7.8 11 22\r\n"
        bad, dec = 6, len(hdr)
    elif kind == "v1/badproto":
        w = rng.choice([b"TCP5", b"UDP4", b"tcp4", b"TCP", b"UNKNOWNX", b"TCP44"])
        hdr = b"PROXY " + w + b" 1.2.3.4 5.6.7.8 11 22\r\n"
        allowed = [b"TCP4 ", b"TCP6 ", b"UNKNOWN ", b"UNKNOWN\r"]
        bad = 6 + max(first_diff(w + b" ", a) for a in allowed)
        dec = len(hdr)
    elif kind == "v1/missing":
        fields = [rng.choice([b"TCP4", b"TCP6"]), b"1.2.3.4", b"5.6.7.8", b"11", b"22"]
        n = rng.randint(1, 4)
        hdr = b"PROXY " + b" ".join(fields[:n]) + b"\r\n"
        bad, dec = len(hdr) - 1, len(hdr)          # the CR where another field had to follow
    elif kind == "v1/overlong":
        body = b"PROXY UNKNOWN " + junk(rng, rng.randint(110, 140))
        hdr = body + b"\r\n"
        bad, dec = 106, 108                        # no CR at 106 => no CRLF within 107
    elif kind == "v2/sig":
        i = rng.randrange(12)
        c = rng.choice([b for b in (0, 0x0A, 0x0D, 0x51, 0x50, 0xFF) if b != SIG[i] and not (i == 0 and b == 0x50)])
        blk, _, _ = v2_block(rng, 0x11)
        hdr = v2(0x21, 0x11, blk, sig=SIG[:i] + bytes([c]) + SIG[i + 1:])
        bad, dec = i + 1, 16
    elif kind == "v2/version":
        blk, _, _ = v2_block(rng, 0x11)
        hdr = v2(rng.choice([0x11, 0x31, 0x01, 0xF1]), 0x11, blk)
        bad, dec = 13, 16
    elif kind == "v2/command":
        blk, _, _ = v2_block(rng, 0x11)
        hdr = v2(0x20 | rng.randint(2, 15), 0x11, blk)
        bad, dec = 13, len(hdr)
    elif kind == "v2/family":
        blk, _, _ = v2_block(rng, 0x11)
        hdr = v2(0x21, (rng.randint(4, 15) << 4) | 1, blk)
        bad, dec = 14, len(hdr)
    elif kind == "v2/proto":
        blk, _, _ = v2_block(rng, 0x11)
        hdr = v2(0x21, 0x10 | rng.randint(3, 15), blk)
        bad, dec = 14, len(hdr)
    elif kind == "v2/shortlen":
        fam = rng.choice([0x11, 0x21, 0x31, 0x12])
        blk, _, _ = v2_block(rng, fam)
        n = rng.randrange(len(blk))
        hdr = v2(0x21, fam, blk[:n])
        bad, dec = 16, len(hdr)
    else:
        raise ValueError(kind)
    return hdr, dict(valid=valid, ver=ver, hasaddr=hasaddr, src=src, dst=dst, bad=bad, dec=dec)


def make_stream(kind, rng):
    """A stream of one of the named kinds (bytes only; its abstract description is lexed from the bytes)."""
    hdr, _ = build(kind, rng)
    return finish(hdr, kind, rng)


def finish(hdr, kind, rng):
    n = rng.choice([0, 1, 3, 8, 20])
    payload = bytes((rng.randrange(256)) for _ in range(n))
    if rng.random() < 0.3 and n:
        payload = rng.choice([b"PROXY ", b"\r\n", SIG])[:n].ljust(n, b"x")   # payload that looks like a header
    stream = hdr + payload
    if stream[:1] == b"P" and b"\r\n" not in stream and len(stream) < 108:
        stream = stream.ljust(120, b"y")      # a v1 stream without CRLF must be long enough to be decidable
    if stream[:1] == SIG[:1] and len(stream) < 16:
        stream = stream.ljust(16, b"\0")
    return stream, describe(stream, kind)


# --------------------------------------------------------------------------- lexer: bytes -> abstract header fields

IP4_RE = re.compile(rb"^(0|[1-9][0-9]{0,2})(\.(0|[1-9][0-9]{0,2})){3}$")
IP6_RE = re.compile(rb"^[0-9a-fA-F:]{2,39}$")
PORT_RE = re.compile(rb"^(0|[1-9][0-9]{0,4})$")


def tok_class(tok):
    if tok in (b"TCP4", b"TCP6", b"UNKNOWN"):
        return tok.decode()
    if tok == b"":
        return "empty"
    if PORT_RE.match(tok) and int(tok) <= 65535:
        return "port"
    if IP4_RE.match(tok):
        try:
            ipaddress.IPv4Address(tok.decode())
            return "ip4"
        except ValueError:
            return "junk"
    if IP6_RE.match(tok):
        try:
            ipaddress.IPv6Address(tok.decode())
            return "ip6"
        except ValueError:
            return "junk"
    return "junk"


def describe(stream, kind=""):
    """Lex the would-be header: which fields stand where (not whether the header is valid: the spec decides that)."""
    v2 = dict(sigbad=0, vn=0, cn=0, fn=0, pn=0, len=0)
    v1 = dict(w=0, line=0, toks=[])
    src = dst = NA
    if stream[:1] == SIG[:1]:
        ver = 2
        v2["sigbad"] = next((i + 1 for i in range(12) if stream[i:i + 1] != SIG[i:i + 1]), 0)
        b13, b14 = stream[12], stream[13]
        ln = struct.unpack("!H", stream[14:16])[0]
        v2.update(vn=b13 >> 4, cn=b13 & 15, fn=b14 >> 4, pn=b14 & 15, len=ln)
        hend = 16 + ln
        blk = stream[16:hend]
        t = {1: "TCP", 2: "UDP"}.get(b14 & 15)
        if t and b14 >> 4 == 1 and len(blk) >= 12:
            sp, dp = struct.unpack("!2H", blk[8:12])
            src, dst = norm(t, str(ipaddress.IPv4Address(blk[0:4])), sp), norm(t, str(ipaddress.IPv4Address(blk[4:8])), dp)
        elif t and b14 >> 4 == 2 and len(blk) >= 36:
            sp, dp = struct.unpack("!2H", blk[32:36])
            src, dst = norm(t, str(ipaddress.IPv6Address(blk[0:16])), sp), norm(t, str(ipaddress.IPv6Address(blk[16:32])), dp)
        elif t and b14 >> 4 == 3 and len(blk) >= 216:
            src = ["UNIX", blk[0:108].rstrip(b"\0").decode("latin-1"), ""]
            dst = ["UNIX", blk[108:216].rstrip(b"\0").decode("latin-1"), ""]
    elif stream[:1] == b"P":
        ver = 1
        v1["w"] = next((i + 1 for i in range(6) if stream[i:i + 1] != b"PROXY "[i:i + 1]), 0)
        idx = stream.find(b"\r\n")
        v1["line"] = idx + 2 if idx >= 0 else 0
        body = stream[6:idx] if idx >= 0 else stream[6:]
        pos = 7
        toks = []
        for tok in body.split(b" "):
            toks.append((tok, pos))
            pos += len(tok) + 1
        v1["toks"] = [{"cls": tok_class(t), "pos": p} for t, p in toks[:8]]
        if len(toks) >= 5 and toks[0][0] in (b"TCP4", b"TCP6"):
            cl = [tok_class(t) for t, _ in toks[:5]]
            if cl[1] in ("ip4", "ip6") and cl[2] in ("ip4", "ip6") and cl[3] == cl[4] == "port":
                src = norm("TCP", toks[1][0].decode(), int(toks[3][0]))
                dst = norm("TCP", toks[2][0].decode(), int(toks[4][0]))
        hend = v1["line"] or len(stream)
    else:
        ver = 0
        hend = len(stream)
    return dict(kind=kind, ver=ver, v2=v2, v1=v1, src=src, dst=dst, rpeer=norm(*RPEER), rhost=norm(*RHOST),
                rest=list(stream[hend:]), total=len(stream))


def classify(cfg):
    """Python mirror of ProxyHdr.tla's classification -- used ONLY to name fingerprints and to aim the binding
    self-test's corruptions; the verdict is TLC's."""
    v2, v1 = cfg["v2"], cfg["v1"]
    alen = {1: 12, 2: 36, 3: 216}
    if cfg["ver"] == 2:
        spec = v2["fn"] in (1, 2, 3) and v2["pn"] in (1, 2)
        if v2["sigbad"]:
            bad, why = v2["sigbad"], "signature"
        elif v2["vn"] != 2:
            bad, why = 13, "version"
        elif v2["cn"] not in (0, 1):
            bad, why = 13, "command"
        elif v2["cn"] == 0:
            bad, why = 0, "LOCAL"
        elif v2["fn"] > 3:
            bad, why = 14, "family"
        elif v2["pn"] > 2:
            bad, why = 14, "protocol"
        elif spec and v2["len"] < alen[v2["fn"]]:
            bad, why = 16, "short-length"
        else:
            bad, why = 0, ("PROXY-addresses" if spec else "PROXY-unspec")
        dec = 16 if (v2["sigbad"] or v2["vn"] != 2) else 16 + v2["len"]
        return dict(valid=bad == 0, bad=bad, dec=dec, hlen=16 + v2["len"], hasaddr=v2["cn"] == 1 and spec, why=why)
    if cfg["ver"] == 1:
        toks = v1["toks"]
        nt = len(toks)
        over = v1["line"] == 0 or v1["line"] > 107
        why = ""
        if nt == 0:
            j = 1
            why = "missing-field"
        elif toks[0]["cls"] == "UNKNOWN":
            j = 0
            why = "UNKNOWN"
        elif toks[0]["cls"] not in ("TCP4", "TCP6"):
            j = 1
            why = "protocol-word"
        else:
            a = "ip4" if toks[0]["cls"] == "TCP4" else "ip6"
            want = [toks[0]["cls"], a, a, "port", "port"]
            mism = [i for i in range(1, 5) if i >= nt or toks[i]["cls"] != want[i]]
            if mism:
                j = min(mism[0] + 1, nt + 1)
                why = "missing-field" if mism[0] >= nt else ("address-field" if mism[0] in (1, 2) else "port-field")
            elif nt > 5:
                j, why = 6, "extra-field"
            else:
                j, why = 0, toks[0]["cls"]
        tb = 0 if j == 0 else (toks[j - 1]["pos"] if j <= nt else (v1["line"] - 1 if v1["line"] else 106))
        if v1["w"]:
            bad, why = v1["w"], "PROXY-word"
        elif over:
            if tb and tb <= 106:
                bad = tb
            else:
                bad, why = 106, "overlong"
        else:
            bad = tb
        return dict(valid=bad == 0, bad=bad, dec=108 if over else v1["line"], hlen=v1["line"],
                    hasaddr=nt >= 1 and toks[0]["cls"] in ("TCP4", "TCP6"), why=why)
    return dict(valid=False, bad=1, dec=16, hlen=0, hasaddr=False, why="no-header")


# --------------------------------------------------------------------------- systematic generators (bytes)

def v2_stream(rng, b13, b14, lenmode="exact", sig=SIG):
    fam = b14 >> 4
    size = {1: 12, 2: 36, 3: 216}.get(fam, 0)
    if fam in (1, 2, 3):
        blk, _, _ = v2_block(rng, (fam << 4) | 1)
    else:
        blk = bytes(rng.randrange(256) for _ in range(rng.choice([0, 5, 12])))
    if lenmode == "tlv":
        blk += tlvs(rng) or b"\x04\x00\x01\x00"
    elif lenmode == "short" and size:
        blk = blk[:rng.choice([0, size - 1, rng.randrange(size)])]
    elif lenmode == "zero":
        blk = b""
    return sig + bytes([b13, b14]) + struct.pack("!H", len(blk)) + blk


IP4_OK = ["1.2.3.4", "0.0.0.0", "255.255.255.255", "127.0.0.1", "10.20.30.40"]
IP6_OK = ["::1", "::", "2001:db8::8:800:200c:417a", "ffff:ffff:ffff:ffff:ffff:ffff:ffff:ffff", "1:2:3:4:5:6:7:8", "fe80::1"]
ADDR_BAD = ["256.1.1.1", "1.2.3", "1.2.3.4.5", "01.2.3.4", "1.2.3.4x", "1.2.3.", "::g", ":::", "1::2::3", "12345::", "1:2:3:4:5:6:7:8:9",
            "abc", "", "-1.2.3.4", "1,2,3,4"]
PORT_OK = ["0", "1", "80", "8080", "65535"]
PORT_BAD = ["65536", "99999", "100000", "-1", "+80", "0x50", "", "8 0"]
WORDS_BAD = ["tcp4", "TCP5", "TCP", "UDP4", "UNKNOWNX", "TCP44", "", "unknown", "TCP4\t"]


def v1_line(fields):
    return ("PROXY " + " ".join(fields) + "\r\n").encode("latin-1")


def v1_systematic(rng):
    """(label, header bytes): every protocol word x address family, every field replaced by every malformed form,
    cross-family addresses, missing / extra / empty fields."""
    out = []
    ok = {"TCP4": IP4_OK, "TCP6": IP6_OK}
    for p in ("TCP4", "TCP6"):
        other = IP6_OK if p == "TCP4" else IP4_OK
        for a in ok[p]:
            out.append(("v1/%s" % p, v1_line([p, a, rng.choice(ok[p]), rng.choice(PORT_OK), rng.choice(PORT_OK)])))
        for q in PORT_OK:
            out.append(("v1/%s" % p, v1_line([p, rng.choice(ok[p]), rng.choice(ok[p]), q, rng.choice(PORT_OK)])))
        base = lambda: [p, rng.choice(ok[p]), rng.choice(ok[p]), rng.choice(PORT_OK), rng.choice(PORT_OK)]
        for i in (1, 2):
            for badv in ADDR_BAD + other[:3] + PORT_OK[:2]:
                f = base()
                f[i] = badv
                out.append(("v1/%s-bad-address" % p, v1_line(f)))
        for i in (3, 4):
            for badv in PORT_BAD + ok[p][:1]:
                f = base()
                f[i] = badv
                out.append(("v1/%s-bad-port" % p, v1_line(f)))
        for n in range(1, 5):
            out.append(("v1/%s-missing" % p, v1_line(base()[:n])))
        out.append(("v1/%s-extra" % p, v1_line(base() + [rng.choice(["x", "1", "", "TLV"])])))
        out.append(("v1/%s-trailing-space" % p, v1_line(base() + [""])))
    for w in WORDS_BAD:
        out.append(("v1/bad-protocol-word", v1_line([w, "1.2.3.4", "5.6.7.8", "1", "2"])))
    for extra in ([], ["anything", "goes  here"], ["1.2.3.4", "5.6.7.8", "1", "2"], [""]):
        out.append(("v1/UNKNOWN", v1_line(["UNKNOWN"] + extra)))
    return out


def v2_systematic(rng):
    out = []
    for b14 in range(256):                         # every family/protocol byte, under PROXY and under LOCAL
        out.append(("v2/PROXY-b14", v2_stream(rng, 0x21, b14)))
        if b14 % 3 == 0:
            out.append(("v2/LOCAL-b14", v2_stream(rng, 0x20, b14, rng.choice(["exact", "zero", "tlv"]))))
    for b13 in range(256):                         # every version/command byte
        out.append(("v2/b13", v2_stream(rng, b13, rng.choice([0x11, 0x21, 0x00, 0x31]))))
    for fam in (1, 2, 3):                          # declared length below / at / above the address block
        for pn in (0, 1, 2):
            for mode in ("short", "short", "zero", "exact", "tlv"):
                out.append(("v2/length", v2_stream(rng, 0x21, (fam << 4) | pn, mode)))
    for i in range(12):
        for c in (0, 0x0A, 0x0D, 0x51, 0xFF):
            if c != SIG[i]:
                out.append(("v2/signature", v2_stream(rng, 0x21, 0x11, sig=SIG[:i] + bytes([c]) + SIG[i + 1:])))
    return out


# --------------------------------------------------------------------------- real objects

def connect():
    from twisted.internet import address
    from twisted.internet.protocol import Factory, Protocol
    from twisted.internet.testing import StringTransport
    from twisted.protocols.haproxy._wrapper import HAProxyWrappingFactory

    class Got(list):
        pass

    got = Got()
    got.seen = []      # [peer, host] as read by the wrapped protocol INSIDE each of its callbacks
    got.lost = []

    class App(Protocol):
        def _addrs(self):
            try:
                return [addr_list(self.transport.getPeer()), addr_list(self.transport.getHost())]
            except Exception as e:
                return [["EXC", type(e).__name__, ""], ["EXC", type(e).__name__, ""]]

        def dataReceived(self, data):
            got.seen.append(self._addrs())
            got.extend(data)

        def connectionLost(self, reason):
            got.lost.append(self._addrs())

    f = HAProxyWrappingFactory(Factory.forProtocol(App))
    p = f.buildProtocol(address.IPv4Address(*RPEER))
    tr = StringTransport(hostAddress=address.IPv4Address(*RHOST), peerAddress=address.IPv4Address(*RPEER))
    p.makeConnection(tr)
    return p, tr, got


def deliver(p, tr, got, data):
    n0 = len(got)
    s0 = len(got.seen)
    close = "no"
    try:
        p.dataReceived(data)
    except Exception:
        close = "exc"
    if close == "no" and tr.disconnecting:
        close = "lose"
    app = p.wrappedProtocol
    try:
        peer, host = addr_list(app.transport.getPeer()), addr_list(app.transport.getHost())
    except Exception as e:
        peer = host = ["EXC", type(e).__name__, ""]
    return dict(app=list(got[n0:]), close=close, peer=peer, host=host, seen=[list(x) for x in got.seen[s0:]])


def run_case(stream, cfg, cuts):
    ev = []
    p, tr, got = connect()
    consumed = 0
    for k in list(cuts) + [len(stream)]:
        k = min(k, len(stream) - consumed)
        if k <= 0:
            continue
        o = deliver(p, tr, got, stream[consumed:consumed + k])
        consumed += k
        p1, tr1, got1 = connect()
        one = deliver(p1, tr1, got1, stream[:consumed])
        e = {"e": "deliver", "k": k}
        e.update(o)
        e["one"] = one
        ev.append(e)
        if o["close"] != "no":
            break          # a TCP transport delivers nothing after loseConnection / the reactor drops the connection
    # the connection goes away: what the wrapped protocol reads in its connectionLost
    from twisted.internet import error
    from twisted.python.failure import Failure
    try:
        p.connectionLost(Failure(error.ConnectionDone()))
    except Exception:
        got.lost.append([["EXC", "connectionLost", ""], ["EXC", "connectionLost", ""]])
    if got.lost:
        ev.append({"e": "lost", "peer": got.lost[0][0], "host": got.lost[0][1]})
    return {"cfg": cfg, "stream": list(stream), "cuts": list(cuts), "ev": ev}


# --------------------------------------------------------------------------- verdict plumbing

def fingerprint(t, rej):
    cfg = t["cfg"]
    c = classify(cfg)
    ev = t["ev"][rej.reached] if rej.reached < len(t["ev"]) else None
    if ev is None:
        return "end-of-trace"
    before = sum(e.get("k", 0) for e in t["ev"][:rej.reached])
    if ev["e"] == "lost":
        return "HAProxyProtocolWrapper/v%d/%s/wrong-addresses-in-connectionLost" % (cfg["ver"], c["why"])
    after = before + ev["k"]

    def wrong(o, m, n):
        if c["valid"]:
            exp = cfg["rest"][max(m, c["hlen"]) - c["hlen"]:max(n - c["hlen"], 0)] if n > c["hlen"] else []
            if o["close"] != "no":
                return "closes-valid-stream"
            if o["app"] != exp:
                return "wrong-bytes-to-application"
            if n >= c["hlen"]:
                ep, eh = (cfg["src"], cfg["dst"]) if c["hasaddr"] else (cfg["rpeer"], cfg["rhost"])
                if o["peer"] != ep or o["host"] != eh:
                    return "wrong-addresses"
                if any(x != [ep, eh] for x in o.get("seen", [])):
                    return "wrong-addresses-inside-dataReceived"
            return None
        if o["app"] or (o["close"] == "no" and n >= c["dec"]):
            return "invalid-stream-accepted"
        if o["close"] != "no" and n < c["bad"]:
            return "closes-before-invalid-byte"
        return None
    # which run misbehaved: the split run (this delivery) or the one-piece run of the same prefix
    w = wrong(ev, before, after) or wrong(ev["one"], 0, after) or "other"
    return "HAProxyProtocolWrapper.dataReceived/v%d/%s/%s" % (cfg["ver"], c["why"], w)


def report(ctx, traces, rej):
    for x in rej:
        t = traces[x.idx]
        ev = t["ev"][x.reached] if x.reached < len(t["ev"]) else None
        ctx.violation(fingerprint(t, x),
                      "real HAProxy wrapper run not explained by ProxyHdr.tla at delivery %d (kind %s, stream %r, cuts %r): %s" % (
                          x.reached, t["cfg"]["kind"], bytes(t["stream"])[:120], t["cuts"][:6], str(ev)[:500]),
                      dict(stream=t["stream"], cfg=t["cfg"], cuts=t["cuts"], rejected_at=x.reached))


def mutate(t, rng):
    evs = [e for e in t["ev"] if e["e"] == "deliver"]
    if not evs:
        return None
    cfg = t["cfg"]
    c = classify(cfg)
    i = rng.randrange(len(evs))
    e = evs[i]
    after = sum(x["k"] for x in evs[:i + 1])
    r = rng.random()
    if r < 0.3 and e["app"]:
        e["app"][0] = (e["app"][0] + 1) % 256     # a different byte reached the application
    elif r < 0.5:
        e["app"] = e["app"] + [7]                 # an extra byte reached the application
    elif r < 0.65 and c["valid"] and e["close"] == "no":
        e["close"] = "lose"                       # a valid stream got closed
    elif r < 0.8 and not c["valid"] and e["close"] != "no" and after >= c["dec"]:
        e["close"] = "no"                         # an invalid stream was not closed in time
    elif c["valid"] and c["hasaddr"] and after >= c["hlen"] and e["seen"] and r < 0.9:
        e["seen"][0] = [e["seen"][0][1], e["seen"][0][0]]                # peer/host swapped as read inside dataReceived
    elif c["valid"] and c["hasaddr"] and after >= c["hlen"]:
        e["peer"] = [e["peer"][0], e["peer"][1], e["peer"][2] + "0"]   # wrong source port seen
    elif e["one"]["app"]:
        e["one"]["app"] = e["one"]["app"][:-1]    # the one-piece run lost a byte
    else:
        return None
    return t


def nontrivial(t):
    return len([e for e in t["ev"] if e["e"] == "deliver"]) >= 2 or not classify(t["cfg"])["valid"]


def run(ctx):
    from harness.core import MachineryError

    r = ctx.mc("ProxyHdrMC", ctx.pick("ProxyHdrMC.cfg", "ProxyHdrMC.thorough.cfg"))
    if not r.ok:
        raise MachineryError("ProxyHdr spec violates its own invariants: " + r.error)
    ctx.require_actions("ProxyHdrMC", ["DeliverValidPartial", "DeliverValidLast", "DeliverInvalidOpen",
                                       "DeliverInvalidEarly", "DeliverInvalidClose"])

    rng = ctx.rng
    traces = []
    kinds = VALID_KINDS + INVALID_KINDS

    def cuts_for(stream, cfg):
        c = classify(cfg)
        return min(len(stream) - 1, (c["hlen"] if c["valid"] else c["dec"]) + 3)

    reps = ctx.pick(1, 4)
    for kind in kinds:
        for _ in range(reps):
            stream, cfg = make_stream(kind, rng)
            for c in range(1, cuts_for(stream, cfg) + 1):       # every single split point of the header region
                traces.append(run_case(stream, cfg, [c]))
            traces.append(run_case(stream, cfg, []))
            traces.append(run_case(stream, cfg, [1] * len(stream)))
    # systematic field coverage: every value of the v2 version/command and family/protocol bytes, declared lengths
    # around every address-block size, every signature byte damaged; v1: every protocol word, every field replaced by
    # every malformed form, cross-family, missing/extra/empty fields.  The spec classifies each of them.
    nsys = 0
    for rep in range(ctx.pick(1, 3)):
        for label, hdr in v2_systematic(rng) + v1_systematic(rng):
            stream, cfg = finish(hdr, label, rng)
            nsys += 1
            region = cuts_for(stream, cfg)
            plans = [[], [rng.randint(1, region)], [rng.randint(1, region), rng.choice([1, 2, 5, 13])]]
            if not ctx.quick:
                plans.append([1] * min(len(stream), 120))
            for cuts in plans:
                traces.append(run_case(stream, cfg, cuts))
    ctx.extra["systematic_headers"] = nsys
    ctx.exhaustive = False   # every single split of every named kind and every value of the enumerated header fields; field contents and multi-splits sampled
    ctx.extra["exhaustive_note"] = ("every single split point of the header region of every named kind; every value of v2 byte 13 and byte 14, "
                                    "every v1 field x every malformed form (one to three splits each); field contents and multi-splits sampled")
    for _ in range(ctx.pick(1000, 40000)):
        r = rng.random()
        if r < 0.5:
            stream, cfg = make_stream(rng.choice(kinds), rng)
        elif r < 0.8:                      # random v2 bytes 13/14 biased to the interesting nibbles, random length mode
            b13 = rng.choice([0x20, 0x21, 0x21, 0x21, 0x22, 0x2F, 0x11, 0x31, rng.randrange(256)])
            b14 = rng.choice([(rng.choice([0, 1, 2, 3, 4, 15]) << 4) | rng.choice([0, 1, 2, 3, 15]), rng.randrange(256)])
            stream, cfg = finish(v2_stream(rng, b13, b14, rng.choice(["exact", "exact", "tlv", "short", "zero"])), "v2/random-fields", rng)
        else:
            label, hdr = rng.choice(v1_systematic(rng))
            stream, cfg = finish(hdr, label, rng)
        cuts = [rng.choice([1, 2, 3, 5, 8, 13, 21, 50, 100]) for _ in range(rng.choice([1, 2, 2, 3, 5]))]
        traces.append(run_case(stream, cfg, cuts))
    for t in traces:
        ctx.note_trace(t, nontrivial=nontrivial(t))
    ctx.log("recorded %d real connections" % len(traces))
    rej = ctx.validate("ProxyHdrTrace", traces, shard_size=ctx.pick(1500, 5000))
    report(ctx, traces, rej)
    ctx.extra["rejected_executions"] = len(rej)
    bad = {x.idx for x in rej}
    good = [t for i, t in enumerate(traces) if i not in bad]
    ctx.selftest_rejects("ProxyHdrTrace", good[-400:], mutate, n=20)


def replay(ctx, obj):
    t = run_case(bytes(obj["stream"]), obj["cfg"], obj["cuts"])
    ctx.note_trace(t, nontrivial=True)
    rej = ctx.validate("ProxyHdrTrace", [t])
    report(ctx, [t], rej)
    for e in t["ev"]:
        print(e)
