"""C48 -- HTTP Digest credentials verify exactly the right responses.

Spec:     specs/Digest.tla (symbolic: Hash / Mac are injective constructors; the property `Decl` and a
          memory-less verification `Alg`; class -> term semantics of every response field),
          DigestMC (exhaustive; invariant Decl = Alg over the whole symbolic response space), DigestTrace.
Binding:  real twisted.cred.credentials.DigestCredentialFactory with the module's clock replaced by a
          controlled one.  A history is getChallenge(address) / clock advance / decode(response) followed
          by checkPassword(p1), checkPassword(p2).  Every response is described abstractly (which
          challenge, from which address, which password, and for every field Genuine / Tampered /
          Malformed class) and concretised to header bytes by the adapter (response hash computed with
          hashlib, independent of twisted).  Logged: decode's outcome (credentials / LoginFailed / other
          exception class) and the two checkPassword results.  TLC decides.
"""
import base64
import hashlib

META = dict(
    id="C48",
    specs=["Digest.tla", "DigestMC.tla", "DigestTrace.tla"],
    technique="symbolic TLA+ model of digest challenge/opaque/nonce/lifetime/address (TLC exhaustive: property = memory-less verification over the whole symbolic response space) + TLC trace validation of real DigestCredentialFactory histories under a controlled clock with byte-level concretisation of every Genuine/Tampered/Malformed field class",
    level_text="TLC checks on the symbolic specification that a response is accepted for a password iff it was computed with that password over an unaltered challenge issued to the requesting address within its lifetime, for every combination of nonce/opaque tampering, address and clock up to the bounds; every decode()/checkPassword() result of the real factory on the concretised responses is validated by TLC against that specification, any exception other than LoginFailed being unexplained.",
    level_note="Trusted: TLC, hashlib, the adapter's header builder. Hash/MAC are treated as injective and unforgeable (no cryptanalysis). A sent realm that differs from the hashed one, a missing qop directive and unrelated extra parameters are left free (either verdict, never another exception). Age exactly equal to the lifetime counts as within it.",
    design_ref="2.8 C48",
    rule="history = issue/tick/respond events on one factory; distinct = hash of (cfg, events); non-trivial = contains a response with at least one non-genuine class or a clock/address change",
)

BASE = 1700000000
# Client addresses.  Address 3 is "no address" (a channel without a peer address): None, "" and b"" are three spellings of
# it, as bytes/str are two spellings of a concrete address; the spelling is a concretisation detail, the identity is the index.
ADDR_SPELLINGS = {1: [b"10.0.0.1", "10.0.0.1"], 2: [b"10.0.0.2", "10.0.0.2"], 3: [None, "", b""]}
ADDRS = {1: b"10.0.0.1", 2: b"10.0.0.2", 3: b""}           # as bytes inside an opaque's key part
ALL_ADDRS = [(a, sp) for a in (1, 2, 3) for sp in range(len(ADDR_SPELLINGS[a]))]
PW = {"p1": b"secret-one", "p2": b"secret-two"}
REALM = b"verif realm"
REST_FIELDS = ["username", "realm", "uri", "response", "nc", "cnonce", "qop", "algorithm", "extra"]
REST_CLASSES = {
    "username": ["T", "missing", "empty"], "realm": ["Tsent", "Thashed"], "uri": ["T", "missing"],
    "response": ["T", "Tcase", "missing", "short"], "nc": ["T", "missing"], "cnonce": ["T", "missing"],
    "qop": ["T", "missing"], "algorithm": ["absent", "T", "Munknown"], "extra": ["nonascii-key", "nonascii-val", "garbage"],
}
NONCE_CLASSES = ["G", "Tsent", "Tboth", "other", "missing"]
OPAQUE_CLASSES = ["G", "other", "Tmac", "TkeyN", "TkeyA", "TkeyT", "forged", "Mjunk", "Mnodash", "Mmanydash", "Mbadpad", "Mfewparts", "Mbadtime", "missing", "empty"]


def allg():
    return {f: "G" for f in REST_FIELDS}


def H(algo, data):
    return (hashlib.md5 if algo == "md5" else hashlib.sha1)(data).hexdigest().encode()


def flip(hexbytes, rng):
    i = rng.randrange(len(hexbytes))
    c = hexbytes[i:i + 1]
    n = b"0123456789abcdef"[(b"0123456789abcdef".index(c.lower()) + 1 + rng.randrange(15)) % 16:][:1] if c.lower() in b"0123456789abcdef" else b"0"
    if n == c:
        n = b"1" if c != b"1" else b"2"
    return hexbytes[:i] + n + hexbytes[i + 1:]


def build_response(r, chals, now, algo, rng):
    """Concretise the abstract response r to the bytes of an Authorization header value (after 'Digest ')."""
    ch = chals[r["ch"] - 1]
    other = chals[r["o"] - 1] if r["o"] else ch
    nonce_true = ch["nonce"]
    alt_nonce = flip(nonce_true, rng)
    ns = {"G": nonce_true, "Tsent": alt_nonce, "Tboth": alt_nonce, "other": other["nonce"], "missing": None}[r["nonce"]]
    nh = {"G": nonce_true, "Tsent": nonce_true, "Tboth": alt_nonce, "other": other["nonce"], "missing": nonce_true}[r["nonce"]]
    from_ip = ADDRS[r["from"]]

    # ---- opaque
    oc = r["opaque"]
    op = ch["opaque"]
    digest, ekey = op.split(b"-", 1)
    key = base64.b64decode(ekey)
    kn, ka, kt = key.split(b",")

    def enc(k):
        return base64.b64encode(k).replace(b"\n", b"")

    def forged(k):
        return hashlib.md5(k + b"attackers-key").hexdigest().encode() + b"-" + enc(k)
    if oc == "G":
        osent = op
    elif oc == "other":
        osent = other["opaque"]
    elif oc == "Tmac":
        osent = (digest.upper() if rng.random() < 0.2 and digest.upper() != digest else flip(digest, rng)) + b"-" + ekey
    elif oc == "TkeyN":
        osent = digest + b"-" + enc(b",".join((alt_nonce, ka, kt)))
    elif oc == "TkeyA":
        osent = digest + b"-" + enc(b",".join((kn, from_ip, kt)))
    elif oc == "TkeyT":
        osent = digest + b"-" + enc(b",".join((kn, ka, b"%d" % (BASE + now,))))
    elif oc == "forged":
        osent = forged(b",".join((ns if ns is not None else b"", from_ip, b"%d" % (BASE + now,))))
    elif oc == "Mjunk":
        i = rng.randrange(1, len(ekey))
        osent = digest + b"-" + ekey[:i] + rng.choice([b"!", b"*", b"~", b"%", b"$"]) + ekey[i:]
    elif oc == "Mnodash":
        osent = digest + ekey
    elif oc == "Mmanydash":
        osent = op + b"-" + rng.choice([b"ab", b"", digest[:4]])
    elif oc == "Mbadpad":
        s = ekey.rstrip(b"=")
        if len(s) % 4 == 0:
            s = s[:-1]
        osent = digest + b"-" + s
    elif oc == "Mfewparts":
        osent = forged(b",".join((kn, ka)))
    elif oc == "Mbadtime":
        osent = forged(b",".join((kn, from_ip, b"12x")))
    elif oc == "empty":
        osent = b""
    elif oc == "missing":
        osent = None
    else:
        raise ValueError(oc)

    # ---- the remaining fields: value sent / value hashed
    rest = r["rest"]
    user_h = b"alice"
    user_s = {"G": user_h, "T": b"mallory", "missing": None, "empty": b""}[rest["username"]]
    realm_h = REALM if rest["realm"] != "Thashed" else b"other realm"
    realm_s = REALM if rest["realm"] == "G" else b"other realm"
    uri_h = b"/protected/index.html"
    uri_s = {"G": uri_h, "T": b"/protected/other.html", "missing": None}[rest["uri"]]
    legacy = r["mode"] == "legacy"
    nc_h, cn_h, qop_h = b"00000001", b"0a4f113b", b"auth"
    nc_s = None if legacy else {"G": nc_h, "T": b"00000002", "missing": None}[rest["nc"]]
    cn_s = None if legacy else {"G": cn_h, "T": b"0a4f113c", "missing": None}[rest["cnonce"]]
    qop_s = None if legacy else {"G": qop_h, "T": b"auth-int", "missing": None}[rest["qop"]]
    algo_h = algo
    other_algo = "sha" if algo == "md5" else "md5"
    algo_s = {"G": algo.upper() if rng.random() < 0.3 else algo, "absent": None, "T": other_algo, "Munknown": "foo"}[rest["algorithm"]]
    if rest["algorithm"] == "absent" and algo != "md5":
        algo_h = algo          # the client still hashed with the challenge's algorithm
    ha1 = H(algo_h, user_h + b":" + realm_h + b":" + PW[r["pw"]])
    ha2 = H(algo_h, b"GET:" + uri_h)
    if legacy:
        resp = H(algo_h, ha1 + b":" + nh + b":" + ha2)
    else:
        resp = H(algo_h, ha1 + b":" + nh + b":" + nc_h + b":" + cn_h + b":" + qop_h + b":" + ha2)
    resp_s = {"G": resp, "T": flip(resp, rng), "Tcase": resp.upper() if resp.upper() != resp else flip(resp, rng), "missing": None, "short": resp[:-1]}[rest["response"]]

    fields = [(b"username", user_s, True), (b"realm", realm_s, True), (b"nonce", ns, True), (b"uri", uri_s, True),
              (b"response", resp_s, True), (b"opaque", osent, True), (b"qop", qop_s, rng.random() < 0.5),
              (b"nc", nc_s, rng.random() < 0.3), (b"cnonce", cn_s, True),
              (b"algorithm", None if algo_s is None else algo_s.encode(), rng.random() < 0.5)]
    fields = [(k, v, q) for k, v, q in fields if v is not None]
    if rng.random() < 0.5:
        rng.shuffle(fields)
    parts = [k + b"=" + (b'"' + v + b'"' if q or v == b"" else v) for k, v, q in fields]
    ex = rest["extra"]
    if ex == "nonascii-key":
        parts.insert(rng.randrange(len(parts) + 1), b"x\xe9y=1")
    elif ex == "nonascii-val":
        parts.insert(rng.randrange(len(parts) + 1), b'comment="caf\xc3\xa9 \xff"')
    elif ex == "garbage":
        parts.insert(rng.randrange(len(parts) + 1), rng.choice([b"garbage", b"=", b'"', b"a=b=c", b",,"]))
    return rng.choice([b", ", b",", b",\r\n  "]).join(parts)


def run_history(cfg, ops, rng):
    """ops: ["issue", a, spelling] | ["tick", d] | ["respond", r, spelling].  Returns the trace."""
    import types

    from twisted.cred import credentials, error

    fac = credentials.DigestCredentialFactory(cfg["algo"].encode(), REALM)
    clock = [0]
    saved_time = credentials.time
    saved_life = credentials.DigestCredentialFactory.CHALLENGE_LIFETIME_SECS
    credentials.time = types.SimpleNamespace(time=lambda: BASE + clock[0] + 0.25)
    credentials.DigestCredentialFactory.CHALLENGE_LIFETIME_SECS = cfg["L"]      # documented class variable
    chals = []
    ev = []
    try:
        for op in ops:
            if op[0] == "issue":
                c = fac.getChallenge(ADDR_SPELLINGS[op[1]][op[2] if len(op) > 2 else 0])
                chals.append(c)
                ev.append(dict(e="issue", a=op[1], n=len(chals)))
            elif op[0] == "tick":
                clock[0] += op[1]
                ev.append(dict(e="tick", d=op[1]))
            else:
                r = op[1]
                hdr = build_response(r, chals, clock[0], cfg["algo"], rng)
                dec, chk = "", ["-", "-"]
                try:
                    creds = fac.decode(hdr, b"GET", ADDR_SPELLINGS[r["from"]][op[2] if len(op) > 2 else 0])
                    dec = "creds" if creds is not None else "None"
                except error.LoginFailed:
                    dec = "LoginFailed"
                except Exception as e:
                    dec = "EXC:" + type(e).__name__
                if dec == "creds":
                    for i, p in enumerate(("p1", "p2")):
                        try:
                            v = creds.checkPassword(PW[p])
                            chk[i] = "T" if v is True else "F" if v is False else "?"
                        except Exception as e:
                            chk[i] = "EXC:" + type(e).__name__
                ev.append(dict(e="respond", r=r, dec=dec, chk=chk, hdr=hdr.decode("latin1")))
    finally:
        credentials.time = saved_time
        credentials.DigestCredentialFactory.CHALLENGE_LIFETIME_SECS = saved_life
    return {"cfg": cfg, "ops": ops, "ev": ev}


def mk(ch, frm, pw="p1", nonce="G", opaque="G", o=0, mode="auth", **rest):
    rs = allg()
    rs.update(rest)
    return dict(ch=ch, o=o or ch, **{"from": frm}, pw=pw, mode=mode, nonce=nonce, opaque=opaque, rest=rs)


def single_mutations():
    """Every response with at most one non-genuine class (the design's 'all single-field mutations')."""
    yield {}
    for c in NONCE_CLASSES[1:]:
        yield dict(nonce=c)
    for c in OPAQUE_CLASSES[1:]:
        yield dict(opaque=c)
    for f in REST_FIELDS:
        for c in REST_CLASSES[f]:
            yield {f: c}


def exhaustive_histories(L):
    """(1) the address matrix: a genuine response to a challenge issued to every address spelling, sent from every address
    spelling (bytes / str for concrete addresses; None / "" / b"" for "no address"), at ages 0, L, L+1;
    (2) every single-class mutation x issued-to in {concrete, none} x from in {same concrete, other concrete, none} x age."""
    for algo in ("md5", "sha"):
        cfg = dict(L=L, algo=algo)
        for ia, isp in ALL_ADDRS:
            for fa, fsp in ALL_ADDRS:
                for age in (0, L, L + 1):
                    for pw in ("p1", "p2"):
                        for mode in ("auth", "legacy"):
                            r = mk(1, fa, pw=pw, o=2, mode=mode)
                            yield cfg, [["issue", ia, isp], ["issue", 2 if ia != 2 else 1, 0], ["tick", age], ["respond", r, fsp]]
        k = 0
        for mut in single_mutations():
            if not mut:
                continue
            for ia in (1, 3):
                for fa in (1, 2, 3):
                    for age in (0, L, L + 1):
                        for mode in ("auth", "legacy"):
                            if mode == "legacy" and any(x in mut for x in ("nc", "cnonce", "qop")):
                                continue
                            k += 1
                            isp, fsp = k % len(ADDR_SPELLINGS[ia]), (k // 3) % len(ADDR_SPELLINGS[fa])
                            r = mk(1, fa, pw="p1" if k % 4 else "p2", o=2, mode=mode, **mut)
                            yield cfg, [["issue", ia, isp], ["issue", 2, k % 2], ["tick", age], ["respond", r, fsp]]


def random_history(rng):
    L = rng.choice([1, 5, 900])
    cfg = dict(L=L, algo=rng.choice(["md5", "sha"]))
    ops = []
    n = 0
    for _ in range(rng.randint(3, 14)):
        x = rng.random()
        if n == 0 or x < 0.2:
            ops.append(["issue"] + list(rng.choice(ALL_ADDRS)))
            n += 1
        elif x < 0.4:
            ops.append(["tick", rng.choice([0, 1, L - 1, L, L + 1, 1, 2])])
        else:
            muts = {}
            k = rng.choice([0, 0, 1, 1, 1, 2, 3])
            nonce = opaque = "G"
            mode = rng.choice(["auth", "auth", "legacy"])
            for _i in range(k):
                w = rng.random()
                if w < 0.25:
                    nonce = rng.choice(NONCE_CLASSES)
                elif w < 0.55:
                    opaque = rng.choice(OPAQUE_CLASSES)
                else:
                    f = rng.choice(REST_FIELDS)
                    if mode == "legacy" and f in ("nc", "cnonce", "qop"):
                        continue
                    muts[f] = rng.choice(REST_CLASSES[f])
            fa, fsp = rng.choice(ALL_ADDRS)
            ops.append(["respond", mk(rng.randint(1, n), fa, pw=rng.choice(["p1", "p2"]), nonce=nonce, opaque=opaque,
                                      o=rng.randint(1, n), mode=mode, **muts), fsp])
    return cfg, ops


def strip(t):
    """What TLC sees: drop the concrete header bytes (kept in the stored trace for the reader)."""
    return {"cfg": t["cfg"], "ev": [{k: v for k, v in e.items() if k != "hdr"} for e in t["ev"]]}


def mutate(t, rng):
    """Corrupt one logged result: a genuine response reported as failed / for the wrong password, or a
    response with a must-reject class reported as accepted."""
    gen = [e for e in t["ev"] if e["e"] == "respond" and e["dec"] == "creds" and "T" in e["chk"] and not classes_of(e["r"])]
    bad = [e for e in t["ev"] if e["e"] == "respond" and "T" not in e["chk"] and
           any(c.split("=")[0] not in ("realm", "qop", "extra") for c in classes_of(e["r"]))]
    x = rng.random()
    if gen and x < 0.4:
        e = rng.choice(gen)
        e["chk"] = [e["chk"][1], e["chk"][0]]
    elif gen and x < 0.7:
        e = rng.choice(gen)
        e["dec"], e["chk"] = "LoginFailed", ["-", "-"]
    elif bad:
        e = rng.choice(bad)
        e["dec"], e["chk"] = "creds", ["T", "F"] if e["r"]["pw"] == "p1" else ["F", "T"]
    elif gen:
        e = rng.choice(gen)
        e["chk"] = ["T", "T"]
    else:
        return None
    return t


def classes_of(r):
    out = []
    if r["opaque"] != "G":
        out.append("opaque=" + r["opaque"])
    if r["nonce"] != "G":
        out.append("nonce=" + r["nonce"])
    for f in REST_FIELDS:
        if r["rest"][f] != "G":
            out.append("%s=%s" % (f, r["rest"][f]))
    return out


def fingerprint(t, reached):
    e = t["ev"][reached] if reached < len(t["ev"]) else {"e": "end"}
    if e["e"] != "respond":
        return e["e"]
    cl = classes_of(e["r"])
    if e["dec"].startswith("EXC:"):
        what = "decode-raises-" + e["dec"][4:]
    elif any(c.startswith("EXC:") for c in e["chk"]):
        what = "checkPassword-raises-" + [c for c in e["chk"] if c.startswith("EXC:")][0][4:]
    elif "T" in e["chk"]:
        what = "accepted"
    else:
        what = "rejected"
    # name the class that explains the outcome when it is recognisable, else all of them
    prio = {"decode-raises-Error": ["opaque=Mbadpad"], "decode-raises-UnicodeDecodeError": ["extra=nonascii-key"],
            "checkPassword-raises-KeyError": ["algorithm=Munknown"],
            "checkPassword-raises-TypeError": ["qop=T", "uri=missing", "extra=garbage"],
            "accepted": ["opaque=Mjunk"]}.get(what, [])
    named = [c for c in prio if c in cl][:1] or ["+".join(cl) or "genuine"]
    return "%s/%s" % (named[0], what)


def _report(ctx, traces, rej):
    for x in rej:
        t = traces[x.idx]
        e = t["ev"][x.reached] if x.reached < len(t["ev"]) else None
        what = "DigestCredentialFactory(%s) history %s: event %d not explained by Digest.tla: %s" % (
            t["cfg"]["algo"], [o if o[0] != "respond" else ["respond", classes_of(o[1]) or "genuine", "from", repr(ADDR_SPELLINGS[o[1]["from"]][o[2] if len(o) > 2 else 0])] for o in t["ops"]][:8], x.reached,
            None if e is None else {k: v for k, v in e.items() if k != "r"})
        ctx.violation(fingerprint(t, x.reached), what, dict(cfg=t["cfg"], ops=t["ops"], rejected_at=x.reached))


def run(ctx):
    from harness.core import MachineryError

    r = ctx.mc("DigestMC", ctx.pick("DigestMC.cfg", "DigestMC.thorough.cfg"))
    if not r.ok:
        raise MachineryError("Digest spec: property and verification disagree: " + r.error)
    ctx.require_actions("DigestMC", ["Issue", "Tick", "Respond"])

    traces = []
    for cfg, ops in exhaustive_histories(ctx.pick(5, 5)):
        traces.append(run_history(cfg, ops, ctx.rng))
    if not ctx.quick:
        for cfg, ops in exhaustive_histories(900):
            traces.append(run_history(cfg, ops, ctx.rng))
    ctx.exhaustive = True
    nex = len(traces)
    nrand = ctx.pick(1500, 40000)
    for _ in range(nrand):
        cfg, ops = random_history(ctx.rng)
        traces.append(run_history(cfg, ops, ctx.rng))
    for t in traces:
        ctx.note_trace(t, nontrivial=any(e["e"] == "respond" and classes_of(e["r"]) for e in t["ev"]) or any(e["e"] == "tick" and e["d"] for e in t["ev"]))
    ctx.log("recorded %d real histories (%d single-mutation, %d random)" % (len(traces), nex, nrand))
    slim = [strip(t) for t in traces]
    rej = ctx.validate("DigestTrace", slim, shard_size=ctx.pick(2500, 8000))
    byfp = {}
    for x in rej:
        fp = fingerprint(traces[x.idx], x.reached)
        byfp[fp] = byfp.get(fp, 0) + 1
    ctx.extra["rejected_by_class"] = byfp
    _report(ctx, traces, rej)
    bad = {x.idx for x in rej}
    good = [slim[i] for i in range(len(slim)) if i not in bad and any(e["e"] == "respond" and e["dec"] == "creds" and "T" in e["chk"] for e in slim[i]["ev"])]
    if good or not ctx.violations:
        ctx.selftest_rejects("DigestTrace", good[::max(1, len(good) // 80)], mutate, n=24)
    else:
        ctx.log("selftest skipped: no accepted run to corrupt (violations reported above)")


def replay(ctx, obj):
    import random
    t = run_history(obj["cfg"], obj["ops"], random.Random(ctx.seed))
    ctx.note_trace(t, nontrivial=True)
    rej = ctx.validate("DigestTrace", [strip(t)])
    _report(ctx, [t], rej)
    for e in t["ev"]:
        print({k: v for k, v in e.items() if k != "r"}, classes_of(e["r"]) if e["e"] == "respond" else "")
