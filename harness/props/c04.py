"""C04 -- DeferredList, gatherResults and race fire once with correctly ordered results.

Spec:     specs/Aggregate.tla (Abs: result of the aggregate as a function of the order in which
          it learnt its inputs' outcomes), AggregateMC (exhaustive TLC), AggregateTrace (validation).
Binding:  real twisted.internet.defer.DeferredList / gatherResults / race over real Deferreds.
          One event per public call (callback/errback/cancel on an input, construction, cancel on
          the aggregate) carrying what user callbacks observed during that call: every input's
          raw outcome and every canceller invocation (in order), the aggregate's result if its
          callback ran, and what callbacks added to the inputs after construction saw.  TLC decides.
"""
import itertools
import json

META = dict(
    id="C04",
    specs=["Aggregate.tla", "AggregateMC.tla", "AggregateImpl.tla", "AggregateTrace.tla", "AggregateSim.tla"],
    technique="TLA+ spec of DeferredList/gatherResults/race (TLC exhaustive over all flag combinations, n<=3/4 inputs, every pre-fired subset, firing order, outcome, canceller kind, cancellation order and cancellation point) + TLC trace validation of real executions (exhaustive small lists, random larger ones, TLC-generated behaviours replayed)",
    level_text="TLC checks on the specification that the aggregate fires exactly once, with (success, result) pairs in input order after all inputs, or at the first success / first failure when asked, that race reports the first success and leaves no other input uncancelled (or all failures in input order), and that cancelling an unfired aggregate cancels every input; every recorded execution of the real DeferredList, gatherResults and race is validated by TLC as a behaviour of that specification with every logged observation matched.",
    level_note="Trusted: TLC, the adapter's logging of callback arguments. Values are abstracted to identities. Inputs fired before construction are fired in index order (otherwise 'first' is ambiguous). The order in which an aggregate cancels inputs within one call is left free. Callbacks added later to race's inputs are not observed (the property does not constrain them). Lists longer than the enumerated size are sampled.",
    design_ref="2.2 C04",
    rule="history = pre-firings (index order), construction of one aggregate over n fresh Deferreds, then callback/errback/cancel on inputs and cancel on the aggregate in any order; distinct = hash of (cfg, events); non-trivial = at least two different call kinds",
)

KINDS = ("dlist", "gather", "race")


def all_cfgs():
    out = []
    for foc, foe, ce in itertools.product((False, True), repeat=3):
        out.append(dict(kind="dlist", foc=foc, foe=foe, ce=ce))
    for ce in (False, True):
        out.append(dict(kind="gather", foc=False, foe=True, ce=ce))
    out.append(dict(kind="race", foc=False, foe=False, ce=False))
    return out


def run_history(cfg, ops):
    """Drive real Deferreds / a real aggregate along ops; return the trace dict.
    cfg: kind, foc, foe, ce, n, ck (canceller kind per input: 0 none, 1 does nothing,
    2 fires a value, 3 fires an error).  Inputs are 1-based in ops and in the trace."""
    from twisted.internet import defer
    from twisted.python.failure import Failure

    n = cfg["n"]

    class Val:
        def __init__(self, k):
            self.k = k

    class Err(Exception):
        def __init__(self, k):
            Exception.__init__(self, k)
            self.k = k

    ins, aggobs, late = [], [], []

    def classify(x):
        if isinstance(x, Failure):
            if x.check(defer.CancelledError):
                return ["cancelled", 0]
            if x.check(Err):
                return ["err", x.value.k]
            return ["exc:" + x.type.__name__, 0]
        if isinstance(x, Val):
            return ["ok", x.k]
        if x is None:
            return ["none", 0]
        return ["other:" + type(x).__name__, 0]

    def mk_canceller(i, k):
        if k == 0:
            return None

        def canceller(d):
            ins.append(["cc", i, "-", 0])
            if k == 2:
                d.callback(Val(10 + i))
            elif k == 3:
                d.errback(Err(10 + i))
        return canceller

    fired = set()

    def pre(x, i):
        fired.add(i)
        ins.append(["in", i] + classify(x))
        return x

    def latecb(x, i):
        late.append([i] + classify(x))
        return x

    def entries(lst, flagged):
        out = []
        for it in lst:
            if flagged:
                if isinstance(it, tuple) and len(it) == 2 and isinstance(it[0], bool):
                    out.append(["T" if it[0] else "F"] + classify(it[1]))
                else:
                    out.append(["?"] + classify(it))
            else:
                out.append(["-"] + classify(it))
        return out

    def rec(t, i=0, o=("-", 0), l=()):
        return {"t": t, "i": i, "o": list(o), "l": [list(x) for x in l]}

    def onagg(x):
        kind = cfg["kind"]
        if isinstance(x, Failure):
            if kind == "dlist" and x.check(defer.FirstError):
                r = rec("firsterr", x.value.index + 1, classify(x.value.subFailure))
            elif kind == "gather":
                # "or with the first failure": the failure itself, however it is wrapped
                f = x.value.subFailure if x.check(defer.FirstError) else x
                r = rec("fail", 0, classify(f))
            elif kind == "race" and x.check(defer.FailureGroup):
                r = rec("group", 0, ("-", 0), entries(x.value.failures, False))
            else:
                r = rec("exc:" + x.type.__name__)
        elif kind == "dlist" and isinstance(x, list):
            r = rec("list", 0, ("-", 0), entries(x, True))
        elif kind == "dlist" and isinstance(x, tuple) and len(x) == 2 and isinstance(x[1], int):
            r = rec("one", x[1] + 1, classify(x[0]))
        elif kind == "gather" and isinstance(x, list):
            r = rec("vals", 0, ("-", 0), entries(x, False))
        elif kind == "race" and isinstance(x, tuple) and len(x) == 2 and isinstance(x[0], int):
            r = rec("race", x[0] + 1, classify(x[1]))
        else:
            r = rec("other:" + type(x).__name__)
        aggobs.append(r)
        return None

    ds = [defer.Deferred(canceller=mk_canceller(i, cfg["ck"][i - 1])) for i in range(1, n + 1)]
    for i, d in enumerate(ds, 1):
        d.addBoth(pre, i)
    agg = None
    ev = []
    done = []
    for op in ops:
        if op[0] == "fire" and op[1] in fired:
            # the input's own callback already reported an outcome (it was cancelled by the aggregate):
            # a second callback()/errback() is C03's subject, not part of these histories
            continue
        done.append(op)
        del ins[:], aggobs[:], late[:]
        e = {"e": op[0], "i": 0, "o": "-"}
        ret = "ok"
        try:
            if op[0] == "fire":
                e["i"], e["o"] = op[1], op[2]
                if op[2] == "ok":
                    ds[op[1] - 1].callback(Val(op[1]))
                else:
                    ds[op[1] - 1].errback(Err(op[1]))
            elif op[0] == "cancelin":
                e["i"] = op[1]
                ds[op[1] - 1].cancel()
            elif op[0] == "construct":
                if cfg["kind"] == "dlist":
                    agg = defer.DeferredList(list(ds), fireOnOneCallback=cfg["foc"], fireOnOneErrback=cfg["foe"],
                                             consumeErrors=cfg["ce"])
                elif cfg["kind"] == "gather":
                    agg = defer.gatherResults(list(ds), consumeErrors=cfg["ce"])
                else:
                    agg = defer.race(list(ds))
                agg.addBoth(onagg)
                if cfg["kind"] != "race":
                    for i, d in enumerate(ds, 1):
                        d.addBoth(latecb, i)
            elif op[0] == "cancelagg":
                agg.cancel()
        except BaseException as ex:   # not an action of the spec
            ret = "EXC:" + type(ex).__name__
        e["ret"] = ret
        e["ins"] = [list(x) for x in ins]
        e["agg"] = [dict(x) for x in aggobs]
        e["late"] = [list(x) for x in late]
        ev.append(e)
    for d in ds:               # after all observation: keep failures from being reported as unhandled
        d.addErrback(lambda f: None)
    return {"cfg": cfg, "ops": [list(o) for o in done], "ev": ev}


# ------------------------------------------------------------------ history generators

def exhaustive(n, with_cancelin=False):
    """Every history for n inputs: each input is fired (ok/err) before construction (in index
    order) or after it (any order); cancel() on the aggregate at any one point after
    construction, or never.  Yields (ops, cancels) where cancels tells whether some input is
    cancelled by somebody (then canceller kinds matter)."""
    for mode in itertools.product(("pre-ok", "pre-err", "post-ok", "post-err"), repeat=n):
        pre = [("fire", i + 1, m[4:]) for i, m in enumerate(mode) if m.startswith("pre")]
        post = [("fire", i + 1, m[5:]) for i, m in enumerate(mode) if m.startswith("post")]
        for perm in itertools.permutations(post):
            base = pre + [("construct",)]
            yield base + list(perm)
            for cut in range(len(perm) + 1):
                yield base + list(perm[:cut]) + [("cancelagg",)] + list(perm[cut:])


def random_history(rng, n):
    """Random history over n inputs (fire() of inputs that have fired meanwhile is skipped at run time)."""
    idx = list(range(1, n + 1))
    npre = rng.choice([0, 0, 1, 2, n // 2, n])
    pre_ids = sorted(rng.sample(idx, min(npre, n)))
    ops = []
    for i in pre_ids:
        r = rng.random()
        ops.append(("cancelin", i) if r < 0.1 else ("fire", i, "ok" if r < 0.6 else "err"))
    ops.append(("construct",))
    rest = [i for i in idx if i not in pre_ids]
    rng.shuffle(rest)
    pok = rng.choice([0.1, 0.5, 0.9])
    body = []
    for i in rest:
        r = rng.random()
        body.append(("cancelin", i) if r < 0.12 else ("fire", i, "ok" if rng.random() < pok else "err"))
    # cancellation of the aggregate injected at a random point (or two), cancel of fired inputs too
    for _ in range(rng.choice([0, 1, 1, 2])):
        body.insert(rng.randint(0, len(body)), ("cancelagg",))
    if rng.random() < 0.3:
        body.insert(rng.randint(0, len(body)), ("cancelin", rng.choice(idx)))
    return ops + body


def ck_variants(rng, n, matters, quick=False):
    if not matters:
        return [[0] * n]
    if quick:
        return [[0] * n, [rng.randint(0, 3) for _ in range(n)]]
    return [[0] * n, [rng.choice([2, 3]) for _ in range(n)], [rng.randint(0, 3) for _ in range(n)]]


def mutate(t, rng):
    """Corrupt one logged field / drop one observation (binding self-test)."""
    evs = t["ev"]
    choices = []
    for k, e in enumerate(evs):
        if e["agg"]:
            choices += [("aggi", k), ("aggdrop", k), ("aggl", k)]
        if e["late"]:
            choices += [("late", k)]
        if e["ins"]:
            choices += [("ins", k), ("insdrop", k)]
    if not choices:
        return None
    what, k = rng.choice(choices)
    e = evs[k]
    if what == "aggi":
        e["agg"][0]["i"] += 1
    elif what == "aggdrop":
        e["agg"] = []
    elif what == "aggl":
        a = e["agg"][0]
        if len(a["l"]) >= 2 and a["l"][0] != a["l"][-1]:
            a["l"][0], a["l"][-1] = a["l"][-1], a["l"][0]
        elif a["l"]:
            a["l"][0][2] += 1
        else:
            a["o"][1] += 1
    elif what == "late":
        x = e["late"][0]
        x[1], x[2] = ("none", 0) if x[1] != "none" else ("err", x[0])
    elif what == "ins":
        x = rng.choice(e["ins"])
        if x[0] == "in":
            x[3] += 1
        else:
            x[1] += 1
    elif what == "insdrop":
        e["ins"].pop(rng.randrange(len(e["ins"])))
    return t


def fingerprint(trace, rej):
    cfg = trace["cfg"]
    e = trace["ev"][rej.reached] if rej.reached < len(trace["ev"]) else {}
    flags = "".join(c for c, f in (("C", cfg["foc"]), ("E", cfg["foe"]), ("X", cfg["ce"])) if f)
    agg = e.get("agg") or []
    return "%s[%s]/%s/agg=%s/ret=%s" % (cfg["kind"], flags, e.get("e"), agg[0]["t"] if agg else "-", e.get("ret"))


def from_behaviour(b):
    """A TLC-generated behaviour -> (cfg with canceller kinds, ops).  The canceller kind the
    specification chose for an input is read off the predicted observations of its cancellation."""
    n = b["cfg"]["n"]
    ck = [0] * n
    ops = []
    for h in b["hist"]:
        ops.append(("fire", h["i"], h["o"]) if h["e"] == "fire" else ("cancelin", h["i"]) if h["e"] == "cancelin" else (h["e"],))
        ins = h["ins"]
        for k, x in enumerate(ins):
            if x[0] == "cc":
                nxt = ins[k + 1]
                ck[x[1] - 1] = {"cancelled": 1, "ok": 2, "err": 3}[nxt[2]]
    return dict(b["cfg"], ck=ck), ops


def norm(e):
    return dict(e, late=sorted(e["late"]))


def run(ctx):
    from harness.core import MachineryError
    r = ctx.mc("AggregateMC", ctx.pick("AggregateMC.cfg", "AggregateMC.thorough.cfg"))
    if not r.ok:
        raise MachineryError("Aggregate spec violates its own invariants: " + r.error)
    ctx.require_actions("AggregateMC", ["FireA", "CancelInputA", "CancelInputNoopA", "ConstructA", "CancelAggA"])
    # Impl layer: the coded algorithms (_cbDeferred bookkeeping, race closures) in lock step with Abs;
    # TLC checks that they compute exactly the result the property demands and never fire twice
    r = ctx.mc("AggregateImpl", ctx.pick("AggregateImpl.cfg", "AggregateImpl.thorough.cfg"))
    if not r.ok:
        raise MachineryError("AggregateImpl does not refine Aggregate (model of the code is wrong or Abs is): " + r.error)
    ctx.require_actions("AggregateImpl", ["IFire", "ICancelInput", "IConstruct", "ICancelAgg"])

    traces = []
    seen = set()
    nmax = ctx.pick(3, 4)
    for n in range(1, nmax + 1):
        for c in all_cfgs():
            for ops in exhaustive(n):
                # canceller kinds matter when the aggregate or race may cancel something
                matters = c["kind"] == "race" or any(o[0] == "cancelagg" for o in ops)
                for ck in ck_variants(ctx.rng, n, matters, ctx.quick or n >= 4):
                    t = run_history(dict(c, n=n, ck=ck), ops)
                    h = json.dumps(t, sort_keys=True)
                    if h not in seen:     # histories that became equal after skipping fire() of cancelled inputs
                        seen.add(h)
                        traces.append(t)
    ctx.exhaustive = True
    ctx.extra["exhaustive_n"] = nmax
    ctx.extra["exhaustive_histories"] = len(traces)
    ctx.log("exhaustive n<=%d: %d real executions" % (nmax, len(traces)))
    # sampled: next size up, then random larger lists with cancellation injected at random points
    cfgs = all_cfgs()
    for k in range(ctx.pick(600, 15000)):
        c = cfgs[k % len(cfgs)]
        n = nmax + 1 if k % 3 == 0 else ctx.rng.randint(2, 12)
        cfg = dict(c, n=n, ck=[ctx.rng.choice([0, 0, 1, 2, 3]) for _ in range(n)])
        traces.append(run_history(cfg, random_history(ctx.rng, n)))
    # spec -> code: behaviours generated by TLC from the specification are stepped through the real
    # aggregates; the real observations must be the predicted ones (and are validated again by TLC below)
    behs = ctx.simulate("AggregateSim", "AggregateSim.cfg", num=ctx.pick(8, 300), depth=9)
    drift = 0
    for b in behs:
        cfg, ops = from_behaviour(b)
        t = run_history(cfg, ops)
        if [norm(e) for e in t["ev"]] != [norm(h) for h in b["hist"]]:
            drift += 1
        traces.append(t)
    ctx.extra["spec_behaviours_replayed"] = len(behs)
    ctx.extra["spec_behaviours_not_reproduced"] = drift
    ctx.impl_drift += drift
    ctx.note_traces(traces)
    ctx.log("recorded %d real executions (%d spec behaviours replayed, %d not reproduced)" % (len(traces), len(behs), drift))
    rej = ctx.validate("AggregateTrace", traces, shard_size=ctx.pick(1500, 6000))
    for x in rej[:20]:
        t = traces[x.idx]
        ev = t["ev"][x.reached] if x.reached < len(t["ev"]) else None
        ctx.violation(fingerprint(t, x), "real %s execution not explained by Aggregate.tla at event %d: cfg=%s ops=%s event=%s" % (
            t["cfg"]["kind"], x.reached, t["cfg"], t["ops"], ev), dict(cfg=t["cfg"], ops=t["ops"], rejected_at=x.reached))
    bad = {x.idx for x in rej}
    good = [t for i, t in enumerate(traces) if i not in bad]
    # vacuity: every result form of the specification was produced by the real code and accepted
    tags = {}
    for t in good:
        for e in t["ev"]:
            for a in e["agg"]:
                tags[a["t"]] = tags.get(a["t"], 0) + 1
    ctx.extra["aggregate_result_forms_accepted"] = tags
    missing = {"list", "one", "firsterr", "vals", "fail", "race", "group"} - set(tags)
    if missing and not rej:
        raise MachineryError("vacuity: result forms never observed: %s" % sorted(missing))
    ctx.selftest_rejects("AggregateTrace", good[-400:], mutate, n=24)


def replay(ctx, obj):
    t = run_history(obj["cfg"], [tuple(o) for o in obj["ops"]])
    ctx.note_trace(t)
    rej = ctx.validate("AggregateTrace", [t])
    for x in rej:
        ctx.violation(fingerprint(t, x), "replayed history rejected at event %d: %s" % (
            x.reached, t["ev"][x.reached] if x.reached < len(t["ev"]) else None),
            dict(cfg=t["cfg"], ops=t["ops"], rejected_at=x.reached))
    for e in t["ev"]:
        print(e)
