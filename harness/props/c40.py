"""C40 -- SMTP transfers message bodies transparently.

Spec:     specs/SmtpData.tla (reference dot-stuffing DataWire, reference server Dec, incremental server
          machine), SmtpDataMC (exhaustive TLC), SmtpDataTrace (trace validation).
Binding:  a real twisted.mail.smtp.SMTPClient talks to a real smtp.SMTP / smtp.ESMTP over two in-memory
          transports shuttled by the harness.  The client reads the body from a file-like object with a
          harness-chosen read size (FileSender.CHUNK_SIZE, or a file that returns short reads); the bytes
          of its data phase are cut at harness-chosen points and handed to the server.  Logged: the data
          phase on the wire; per delivery every IMessage.lineReceived/eomReceived/connectionLost call and
          every reply line the server wrote (in order), any exception, and what a fresh server sees when
          given the whole prefix in one piece; at the end the code passed to the client's sentMail.
          In "server" mode the harness stuffs the body itself (TLC checks that against DataWire) and may
          pipeline a command after the terminator.  TLC decides.
"""
import io
import itertools

META = dict(
    id="C40",
    specs=["SmtpData.tla", "SmtpDataMC.tla", "SmtpDataTrace.tla", "SmtpDataSim.tla"],
    technique="TLA+ byte-class format spec of SMTP DATA transparency (reference dot-stuffing, reference server, incremental "
              "server machine) checked exhaustively by TLC over all short bodies and all wire splits + TLC trace validation of "
              "real SMTPClient <-> SMTP/ESMTP transfers with harness-chosen client read sizes and wire segmentation",
    level_text="TLC checks for every body up to the stated size over {'.', ':', other, LF}, with and without a Received line, and "
               "every wire split, that the server machine's output is the reference decoding of the consumed prefix, equals the "
               "body's lines after the documented header handling, and ends only at the final '.'; every recorded end-to-end "
               "transfer between the real client and server is validated by TLC as a behaviour of that specification.",
    level_note="Trusted: TLC, the adapter's logging of IMessage calls, server reply lines and transport bytes. The command phase "
               "(HELO/MAIL/RCPT/DATA) is shuttled unsegmented and not modelled. Bodies longer than the enumerated size, byte "
               "values inside a class and segmentations are sampled. CR in bodies and unterminated last lines are outside the "
               "property. Lines stay far below LineOnlyReceiver.MAX_LENGTH.",
    design_ref="2.6 C40",
    rule="case = body x client read-size plan x wire segmentation x server class x Received-line on/off (client mode) or "
         "body x pipelined tail x segmentation (server mode); distinct = hash of (cfg, events); non-trivial = at least two event kinds",
)

DOT, CR, LF, COLON = 46, 13, 10, 58
OTHER = [b for b in range(256) if b not in (DOT, CR, LF, COLON)]
OTHER_EDGE = [0, 9, 32, 45, 47, 57, 59, 127, 128, 255]
PREAMBLE = b"HELO client.example\r\nMAIL FROM:<a@example.org>\r\nRCPT TO:<b@example.org>\r\nDATA\r\n"


# --------------------------------------------------------------------------- real objects

class ShortReadFile:
    """A file-like object whose read(n) returns at most the next planned number of bytes."""

    def __init__(self, data, plan, offsets):
        self.data, self.pos, self.plan, self.i, self.offsets = data, 0, plan, 0, offsets

    def read(self, n=-1):
        if self.pos >= len(self.data):
            return b""
        k = self.plan[self.i % len(self.plan)] if self.plan else len(self.data)
        self.i += 1
        if n is not None and n >= 0:
            k = min(k, n)
        self.offsets.append(self.pos)
        out = self.data[self.pos:self.pos + k]
        self.pos += len(out)
        return out


def make_server(cfg, items):
    from zope.interface import implementer
    from twisted.internet import defer, task
    from twisted.internet.testing import StringTransport
    from twisted.mail import smtp
    from twisted.mail.interfaces import IMessageSMTP, IMessageDelivery

    @implementer(IMessageSMTP)
    class Msg:
        def lineReceived(self, line):
            items.append(["l", list(line)])

        def eomReceived(self):
            items.append(["eom", []])
            return defer.succeed(None)

        def connectionLost(self):
            items.append(["lost", []])

    @implementer(IMessageDelivery)
    class Delivery:
        def receivedHeader(self, helo, origin, recipients):
            return bytes(cfg["rcvd"]) if cfg["rcvd"] else None

        def validateFrom(self, helo, origin):
            return origin

        def validateTo(self, user):
            return Msg

    class Tr(StringTransport):
        """Records every complete reply line (final lines only: 'NNN text') in order with the IMessage calls."""
        rec = False
        pend = b""

        def writeSequence(self, data):
            self.write(b"".join(data))

        def write(self, data):
            StringTransport.write(self, data)
            if self.rec:
                self.pend += data
                while b"\r\n" in self.pend:
                    ln, self.pend = self.pend.split(b"\r\n", 1)
                    if ln[3:4] != b"-":
                        items.append(["r", [int(ln[:3])] if ln[:3].isdigit() else [0]])

    srv = (smtp.ESMTP if cfg.get("server") == "ESMTP" else smtp.SMTP)()
    srv.delivery = Delivery()
    srv.noisy = False
    clock = task.Clock()
    srv.callLater = clock.callLater
    tr = Tr()
    srv.makeConnection(tr)
    return srv, tr


def server_in_data_mode(cfg, items):
    srv, tr = make_server(cfg, items)
    srv.dataReceived(PREAMBLE)
    tr.clear()
    return srv, tr


def feed(srv, tr, items, data):
    n0 = len(items)
    exc = ""
    tr.rec = True
    try:
        srv.dataReceived(data)
    except Exception as e:
        exc = type(e).__name__
    tr.rec = False
    return [list(x) for x in items[n0:]], exc


def run_case(cfg, body, reads, cuts, tail=()):
    """cfg: mode/rcvd/server/chunkmode; body: list of bytes; reads: read-size plan; cuts: list of segment sizes."""
    from twisted.internet.testing import StringTransport
    from twisted.mail import smtp
    from twisted.protocols import basic

    body_b = bytes(body)
    items = []
    ev = []
    offsets = []
    sent = []
    trace = {"cfg": cfg, "body": list(body), "reads": list(reads), "cuts": list(cuts), "tail": list(tail), "ev": ev}
    if cfg["mode"] == "client":
        srv, st = make_server(cfg, items)

        class Client(smtp.SMTPClient):
            done = False

            def getMailFrom(self):
                if self.done:
                    return None
                self.done = True
                return b"a@example.org"

            def getMailTo(self):
                return [b"b@example.org"]

            def getMailData(self):
                if cfg["chunkmode"] == "attr":
                    return ShortReadFile(body_b, [], offsets) if not reads else io.BytesIO(body_b)
                return ShortReadFile(body_b, list(reads), offsets)

            def sentMail(self, code, resp, numOk, addresses, log):
                sent.append(code)

        cl = Client(b"client.example")
        cl.debug = False
        ct = StringTransport()
        saved = basic.FileSender.CHUNK_SIZE
        if cfg["chunkmode"] == "attr" and reads:
            basic.FileSender.CHUNK_SIZE = reads[0]
        try:
            cl.makeConnection(ct)

            def shuttle():
                for _ in range(200):
                    moved = False
                    d = st.value()
                    if d:
                        st.clear()
                        cl.dataReceived(d)
                        moved = True
                    if ct.producer is not None:
                        return "data"
                    d = ct.value()
                    if d:
                        ct.clear()
                        srv.dataReceived(d)
                        moved = True
                    if not moved:
                        break
                return "quiet"

            phase = shuttle()
            if phase != "data":
                ev.append({"e": "nodata"})
                return trace
            pre = [list(x) for x in items]
            del items[:]
            for _ in range(len(body_b) + 10):
                if ct.producer is None:
                    break
                ct.producer.resumeProducing()
            wire = ct.value()
            ct.clear()
        finally:
            basic.FileSender.CHUNK_SIZE = saved
        if cfg["chunkmode"] == "attr" and reads:
            offsets[:] = list(range(0, len(body_b), reads[0]))
        trace["read_offsets"] = list(offsets)
        ev.append({"e": "send", "body": list(body), "wire": list(wire), "pre": pre})
    else:
        srv, st = make_server(cfg, items)
        srv.dataReceived(PREAMBLE)
        st.clear()
        pre = [list(x) for x in items]
        del items[:]
        wire = stuff(body_b) + bytes(tail)
        ev.append({"e": "inject", "body": list(body), "tail": list(tail), "wire": list(wire), "pre": pre})

    consumed = 0
    plan = list(cuts) + [len(wire)]
    died = False
    for k in plan:
        k = min(k, len(wire) - consumed)
        if k <= 0:
            continue
        got, exc = feed(srv, st, items, wire[consumed:consumed + k])
        consumed += k
        items1 = []
        srv1, st1 = server_in_data_mode(cfg, items1)
        del items1[:]
        _, exc1 = feed(srv1, st1, items1, wire[:consumed])
        if exc1:
            items1.append(["exc", []])
        ev.append({"e": "deliver", "k": k, "out": got, "exc": exc, "one": [list(x) for x in items1]})
        if exc:
            died = True
            break
    if cfg["mode"] == "client" and not died:
        try:
            shuttle()
        except Exception as e:
            sent.append("EXC:" + type(e).__name__)
        ev.append({"e": "end", "sent": [c if isinstance(c, int) else -1 for c in sent]})
    return trace


def stuff(body_b):
    """The harness's own stuffing for server-mode runs; TLC checks it against DataWire (Inject's guard)."""
    out = b""
    for ln in body_b.split(b"\n")[:-1] if body_b else []:
        out += (b"." if ln[:1] == b"." else b"") + ln + b"\r\n"
    return out + b".\r\n"


# --------------------------------------------------------------------------- case generation

def concretise(rng, classes):
    m = {"DOT": DOT, "COLON": COLON, "LF": LF}
    return [m[c] if c in m else (rng.choice(OTHER_EDGE) if rng.random() < 0.3 else rng.choice(OTHER)) for c in classes]


def small_bodies(maxlines, maxsym, alphabet):
    lines = [()]
    for n in range(1, maxsym + 1):
        lines += list(itertools.product(alphabet, repeat=n))
    for n in range(0, maxlines + 1):
        for ls in itertools.product(lines, repeat=n):
            cs = []
            for ln in ls:
                cs += list(ln) + ["LF"]
            yield cs


def random_body(rng):
    nlines = rng.randint(1, 8)
    w = rng.choice([(5, 1, 3), (2, 2, 5), (8, 0, 1)])
    cs = []
    for _ in range(nlines):
        n = rng.choice([0, 1, 1, 2, 2, 3, 5, 9])
        cs += rng.choices(["DOT", "COLON", "X"], weights=w, k=n) + ["LF"]
    return cs


def random_cuts(rng, n):
    """Segment sizes for the data phase (the rest is delivered in one last piece)."""
    style = rng.choice(["random", "random", "bytewise", "onepiece", "lines"])
    if style == "bytewise":
        return [1] * min(n, 24)
    if style == "onepiece":
        return []
    if style == "lines":
        return [rng.choice([2, 3, 4, 5]) for _ in range(min(n, 12))]
    return [rng.choice([1, 1, 2, 2, 3, 5, 8, 13]) for _ in range(rng.randint(1, 10))]


def mk_cfg(rng, mode):
    return {"mode": mode, "rcvd": rng.choice([[], [82, 58, 32, 120]]), "server": rng.choice(["SMTP", "ESMTP"]),
            "chunkmode": rng.choice(["attr", "attr", "short"])}


# --------------------------------------------------------------------------- verdict plumbing

def fingerprint(t, rej):
    ev = t["ev"][rej.reached] if rej.reached < len(t["ev"]) else None
    if ev is None:
        return "end-of-trace"
    if ev["e"] == "send":
        body = t["body"]
        if not body:
            return "SMTPClient.send/empty-body"
        starts = [i for i, b in enumerate(body) if b == DOT and (i == 0 or body[i - 1] == LF)]
        offs = set(t.get("read_offsets", []))
        cls = []
        if 0 in starts:
            cls.append("dot-line-at-body-start")
        if any(i in offs and i > 0 for i in starts):
            cls.append("dot-line-at-read-boundary")
        return "SMTPClient.send/" + ("+".join(cls) or "other")
    if ev["e"] == "deliver":
        return "server.deliver/%s/%s" % (t["cfg"]["mode"], ev["exc"] or ("split" if ev["out"] != ev["one"][len(ev["one"]) - len(ev["out"]):] else "decode"))
    return ev["e"]


def report(ctx, traces, rej):
    for x in rej:
        t = traces[x.idx]
        ev = t["ev"][x.reached] if x.reached < len(t["ev"]) else None
        ctx.violation(fingerprint(t, x),
                      "real SMTP transfer not explained by SmtpData.tla at event %d (body=%r reads=%r): %s" % (
                          x.reached, bytes(t["body"]), t["reads"][:4], str(ev)[:600]),
                      dict(cfg=t["cfg"], body=t["body"], reads=t["reads"], cuts=t["cuts"], tail=t["tail"], rejected_at=x.reached))


def mutate(t, rng):
    evs = t["ev"]
    dl = [i for i, e in enumerate(evs) if e["e"] == "deliver" and e["out"]]
    r = rng.random()
    if dl and r < 0.35:
        e = evs[rng.choice(dl)]
        it = rng.choice(e["out"])
        if it[1]:
            it[1][0] = (it[1][0] + 1) % 256      # a line byte / reply code differs
        else:
            it[1] = [120]
    elif dl and r < 0.55:
        e = evs[rng.choice(dl)]
        del e["out"][rng.randrange(len(e["out"]))]    # server lost a line
    elif r < 0.75 and evs and evs[0]["e"] == "send" and len(evs[0]["wire"]) > 3:
        w = evs[0]["wire"]
        j = rng.randrange(len(w) - 3)
        w[j] = DOT if w[j] != DOT else 120            # client put something else on the wire
    elif evs and evs[-1]["e"] == "end" and r < 0.9:
        evs[-1]["sent"] = [550]
    elif dl:
        e = evs[rng.choice(dl)]
        e["one"] = e["one"][:-1]
    else:
        return None
    return t


def run(ctx):
    from harness.core import MachineryError

    r = ctx.mc("SmtpDataMC", ctx.pick("SmtpDataMC.cfg", "SmtpDataMC.thorough.cfg"))
    if not r.ok:
        raise MachineryError("SmtpData spec violates its own invariants: " + r.error)
    ctx.require_actions("SmtpDataMC", ["Extend", "SendRef", "InjectRef", "DeliverK", "Finish"])

    rng = ctx.rng
    traces = []
    # exhaustive small bodies x read sizes 1..4 and "whole body in one read"
    maxlines, maxsym = ctx.pick((3, 2), (3, 3))
    alphabet = ctx.pick(["DOT", "X"], ["DOT", "X"])
    for cs in small_bodies(maxlines, maxsym, alphabet):
        for chunk in ctx.pick((1, 2, 3, 0), (1, 2, 3, 4, 5, 0)):
            body = concretise(rng, cs)
            cfg = mk_cfg(rng, "client")
            cfg["chunkmode"] = "attr"
            traces.append(run_case(cfg, body, [chunk] if chunk else [], random_cuts(rng, 3 * len(body) + 5)))
        # the same body stuffed by the harness (reference serialisation, checked by TLC) -> real server: the server side is
        # exercised on every small body even where the real client's own wire is already rejected (known findings)
        scfg = mk_cfg(rng, "server")
        traces.append(run_case(scfg, concretise(rng, cs), [], random_cuts(rng, 3 * len(cs) + 8),
                               tail=list(rng.choice([b"", b"", b"RSET\r\n", b"XY\r\n"]))))
    ctx.exhaustive = False   # the class-level space is enumerated completely, byte values and wire splits are sampled
    ctx.extra["exhaustive_bodies"] = "all bodies of <= %d lines x <= %d symbols over %s, read sizes %s (0 = unbounded)" % (maxlines, maxsym, alphabet, ctx.pick("1,2,3,0", "1..5,0"))
    for _ in range(ctx.pick(300, 15000)):
        body = concretise(rng, random_body(rng))
        cfg = mk_cfg(rng, "client")
        if cfg["chunkmode"] == "attr":
            reads = [rng.choice([1, 2, 3, 4, 5, 7, 8, 16, 64])]
        else:
            reads = [rng.randint(1, 9) for _ in range(rng.randint(1, 5))]
        traces.append(run_case(cfg, body, reads, random_cuts(rng, 3 * len(body) + 5)))
    for _ in range(ctx.pick(150, 10000)):
        body = concretise(rng, random_body(rng) if rng.random() < 0.9 else [])
        cfg = mk_cfg(rng, "server")
        tail = rng.choice([b"", b"", b"RSET\r\n", b"XY\r\n", b"\r\n", b"RSET\r\nNOPE\r\n"])
        traces.append(run_case(cfg, body, [], random_cuts(rng, 3 * len(body) + 8), tail=list(tail)))
    # spec -> code: TLC picks body, mode, pipelined tail and segmentation and predicts every delivery's output;
    # each behaviour is performed on the real client/server and validated again by TLC below.
    behs = ctx.simulate("SmtpDataSim", "SmtpDataSim.cfg", num=ctx.pick(100, 2000), depth=18)
    drift = 0
    for b in behs:
        hist = b["hist"]
        if not hist or hist[0]["e"] not in ("send", "inject"):
            continue
        body = hist[0]["body"]
        cuts = [h["k"] for h in hist[1:] if h["e"] == "deliver"]
        cfg = mk_cfg(rng, b["cfg"]["mode"])
        cfg["rcvd"] = b["cfg"]["rcvd"]
        if cfg["mode"] == "client":
            reads = [rng.choice([1, 2, 3, 4, 64])] if cfg["chunkmode"] == "attr" else [rng.randint(1, 5) for _ in range(3)]
            t = run_case(cfg, body, reads, cuts)
        else:
            t = run_case(cfg, body, [], cuts, tail=hist[0]["wire"][len(stuff(bytes(body))):])
        n = min(len(hist), len(t["ev"]))
        pred = [(h["wire"] if h["e"] in ("send", "inject") else h["out"]) for h in hist[:n]]
        real = [(e["wire"] if e["e"] in ("send", "inject") else e.get("out", [])) for e in t["ev"][:n]]
        if pred != real:
            drift += 1
        traces.append(t)
    ctx.extra["spec_behaviours_replayed"] = len(behs)
    ctx.extra["spec_behaviours_not_reproduced"] = drift   # client-mode ones hitting a defect; each is also rejected by TLC below
    ctx.note_traces(traces)
    ctx.log("recorded %d real transfers" % len(traces))
    rej = ctx.validate("SmtpDataTrace", traces, shard_size=ctx.pick(400, 1000))
    report(ctx, traces, rej)
    ctx.extra["rejected_executions"] = len(rej)
    bad = {x.idx for x in rej}
    good = [t for i, t in enumerate(traces) if i not in bad]
    ctx.selftest_rejects("SmtpDataTrace", good[-300:], mutate, n=20)


def replay(ctx, obj):
    t = run_case(obj["cfg"], obj["body"], obj["reads"], obj["cuts"], tail=obj.get("tail", ()))
    ctx.note_trace(t)
    rej = ctx.validate("SmtpDataTrace", [t])
    report(ctx, [t], rej)
    for e in t["ev"]:
        print(e)
