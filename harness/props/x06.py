"""X06 (extension, not a listed property) -- twisted.spread.pb.Broker request/answer matching, remote references and
decref accounting, failing pending calls on disconnect.

Spec:     specs/PbBroker.tla (+ PbBrokerMC exhaustive, PbBrokerTrace trace validation)
Binding:  two real pb.Broker instances (built by the real PBClientFactory / PBServerFactory) joined by an in-memory
          network owned by the harness: bytes written by one side are handed to the other side's dataReceived in
          fragments chosen by the driver, Deferreds returned by "Later" remote_ methods are fired by the driver,
          RemoteReferences are dropped by the driver (CPython frees them at once: __del__ -> decref) and the driver
          delivers connectionLost to either side at any point.  One trace event per driver step carrying the ordered
          observations of that step; TLC decides.  Reported under coverage.extra_modules of the nearest property (C31).
"""

META = dict(
    id="X06", extension=True, nearest="C31",
    specs=["PbBroker.tla", "PbBrokerMC.tla", "PbBrokerTrace.tla"],
    technique="TLA+ spec of Perspective Broker call/answer matching and distributed reference counting between two brokers over "
              "scheduler-controlled byte pipes (TLC exhaustive for a bounded number of calls/references: all interleavings, "
              "fragmentations, responder kinds, releases and connectionLost positions) + TLC trace validation of two real "
              "pb.Broker instances (exhaustive short histories, disconnect sweeps at every byte boundary, random schedules)",
    level_text="extension module: grows the specification beyond the listed properties",
    level_note="not a listed property; alarms are reported as EXTRA-ALARM, never as VIOLATION. Trusted: TLC; the harness network "
               "(in-order byte pipes; connectionLost may reach a side at any time, after which nothing is delivered to it and its "
               "writes vanish, while bytes it wrote before may still reach the peer); CPython reference counting for the release of "
               "a RemoteReference. Besides callback arguments, return values and bytes on the fake transports the trace carries "
               "len(Broker.localObjects) and len(Broker.waitingForAnswers) (public attributes; the leak checks need them). Not covered: login/Avatar/ViewPoint, Cacheable/Copyable flavours, paging, pbanswer=False calls, "
               "the banana handshake (done before the trace starts), MAX_BROKER_REFS.",
    design_ref="4 (extensions)",
    rule="case = (objects per side, sequence of driver steps call/deliver/fire/release/lose); distinct = hash of (cfg, events); "
         "non-trivial = at least two different step kinds",
)

KINDS = ["Now", "Raise", "RaiseX", "Later", "Never", "Give", "GiveLater", "Take"]
REFKINDS = ("Give", "GiveLater", "Take")
_CACHE = {}

# Banana type bytes and the "pb" dialect vocabulary (protocol constants, twisted/spread/banana.py) -- the harness parses the
# bytes each broker WRITES with its own small decoder, so that what is logged is the wire, not a private attribute.
_LIST, _INT, _STRING, _NEG, _FLOAT, _LONGINT, _LONGNEG, _VOCAB = 0x80, 0x81, 0x82, 0x83, 0x84, 0x85, 0x86, 0x87
_V = {16: "remote", 17: "local", 19: "version", 26: "message", 27: "answer", 28: "error", 29: "decref"}


def _bdec(buf, pos=0):
    n, shift = 0, 0
    while buf[pos] < 0x80:
        n |= buf[pos] << shift
        shift += 7
        pos += 1
    t = buf[pos]
    pos += 1
    if t == _LIST:
        items = []
        for _ in range(n):
            v, pos = _bdec(buf, pos)
            items.append(v)
        return items, pos
    if t in (_INT, _LONGINT):
        return n, pos
    if t in (_NEG, _LONGNEG):
        return -n, pos
    if t == _STRING:
        return bytes(buf[pos:pos + n]), pos + n
    if t == _VOCAB:
        return ("V", _V.get(n, "v%d" % n)), pos
    if t == _FLOAT:
        return 0.0, pos + 8
    raise ValueError("banana type %r" % t)


def _small(x):
    return x if isinstance(x, int) and 0 <= x < 2 ** 30 else -1


def _classify(data):
    """one written banana expression -> (type, id, aux) as logged in a "wr" observation"""
    try:
        sexp, end = _bdec(data)
    except Exception:
        return "garbage", 0, 0
    if end != len(data) or not isinstance(sexp, list) or not sexp:
        return "garbage", 0, 0
    head = sexp[0]
    t = head[1] if isinstance(head, tuple) else head.decode("ascii", "replace") if isinstance(head, bytes) else "?"
    if t == "message" and len(sexp) == 7:
        tgt = sexp[2]
        return t, _small(sexp[1]), 0 if tgt == b"root" else _small(tgt)
    if t == "answer" and len(sexp) == 3:
        r = sexp[2]
        if isinstance(r, list) and len(r) == 2 and r[0] == ("V", "remote"):
            return t, _small(sexp[1]), _small(r[1])
        return t, _small(sexp[1]), 0
    if t == "error" and len(sexp) == 3:
        return t, _small(sexp[1]), 0
    if t == "decref" and len(sexp) == 2:
        return t, _small(sexp[1]), 0
    return t, 0, 0


def _classes():
    """Referenceable subclasses (created once per process, after twisted is importable)."""
    if _CACHE:
        return _CACHE
    from twisted.internet import defer
    from twisted.spread import pb

    class MyErr(pb.Error):
        pass

    class Obj(pb.Referenceable):
        """an exportable object of one side; every remote_ method logs its invocation"""

        def __init__(self, h, side, j):
            self.h, self.side, self.j = h, side, j

        def _log(self, kind, n):
            self.h.obs.append(["resp", self.side, kind, _small(n), self.j, 0])

        def remote_Now(self, n):
            self._log("Now", n)
            return n

        def remote_Raise(self, n):
            self._log("Raise", n)
            raise MyErr(str(n))

        def remote_RaiseX(self, n):
            self._log("RaiseX", n)
            raise ValueError(str(n))

        def _deferred(self, kind, n):
            self._log(kind, n)
            d = defer.Deferred()
            self.h.later[n] = d
            return d

        def remote_Later(self, n):
            return self._deferred("Later", n)

        def remote_Never(self, n):
            return self._deferred("Never", n)

        def remote_GiveLater(self, n, j):
            return self._deferred("GiveLater", n)

        def remote_Give(self, n, j):
            self._log("Give", n)
            return self.h.objs[self.side][j]

        def remote_Take(self, n, ref):
            self._log("Take", n)
            self.h.new_handle(self.side, ref)
            return n

    class RootObj(pb.Root, Obj):
        pass

    # PB logs the traceback of every non-pb.Error responder failure through the global log publisher, which prints critical
    # events to stderr until logging is started; start it with a null observer (harness environment only).
    from twisted.logger import globalLogBeginner
    try:
        globalLogBeginner.beginLoggingTo([lambda event: None], redirectStandardIO=False, discardBuffer=True)
    except Exception:
        pass
    _CACHE.update(MyErr=MyErr, Obj=Obj, RootObj=RootObj)
    return _CACHE


class _Transport:
    def __init__(self, h, p):
        self.h, self.p = h, p
        self.lost = False
        self.disconnecting = False

    def write(self, data):
        if self.lost:
            return                      # a dead transport: not an observation (see PbBroker.tla, Write)
        data = bytes(data)
        if self.h.setup:
            self.h.pipe[self.p] += data
            return
        t, i, aux = _classify(data)
        self.h.obs.append(["wr", self.p, t, i, len(data), aux])
        self.h.pipe[self.p] += data
        self.h.msgs[self.p].append(len(data))

    def writeSequence(self, seq):
        self.write(b"".join(seq))

    def loseConnection(self):
        if not self.lost:
            self.h.obs.append(["loseConnection", self.p, "", 0, 0, 0])     # PB never does this here: not an action of the spec

    def registerProducer(self, producer, streaming):
        pass

    def unregisterProducer(self):
        pass

    def getPeer(self):
        return "peer%d" % (3 - self.p)

    def getHost(self):
        return "peer%d" % self.p


class Harness:
    """two real brokers + the in-memory network; every method below is one driver step"""

    def __init__(self, cfg):
        from twisted.spread import pb
        K = _classes()
        self.K = K
        self.nobj = cfg["nobj"]
        self.obs = []
        self.later = {}                     # call id -> responder Deferred not fired yet
        self.pipe = {1: bytearray(), 2: bytearray()}
        self.msgs = {1: [], 2: []}          # sizes of the writes still (partly) in the pipe -- used only to pick fragment sizes
        self.moff = {1: 0, 2: 0}
        self.calls = []                     # (p, t, kind, j, flag)
        self.handles = {}                   # handle id -> RemoteReference (the ONLY strong reference the harness keeps)
        self.hside = {}                     # handle id -> holder side (also after the release)
        self.nh = 0
        self.objs = {p: {j: K["Obj"](self, p, j) for j in range(1, self.nobj + 1)} for p in (1, 2)}
        self.setup = True
        self.tr = {1: _Transport(self, 1), 2: _Transport(self, 2)}
        sf = pb.PBServerFactory(K["RootObj"](self, 2, 0))
        self.cf = pb.PBClientFactory()
        self.broker = {2: sf.buildProtocol(None), 1: self.cf.buildProtocol(None)}
        for p in (2, 1):
            self.broker[p].makeConnection(self.tr[p])
        # banana dialect negotiation + pb version exchange (not part of the model)
        for _ in range(10):
            if not self.pipe[1] and not self.pipe[2]:
                break
            for p in (1, 2):
                data = bytes(self.pipe[p])
                del self.pipe[p][:]
                if data:
                    self.broker[3 - p].dataReceived(data)
        got = []
        self.cf.getRootObject().addCallback(got.append)
        self.root = got[0]
        for p in (1, 2):
            self.broker[p].notifyOnDisconnect(lambda p=p: self.obs.append(["disc", p, "", 0, 0, 0]))
        self.setup = False
        self.obs = []

    # ---- observation helpers
    def lo(self):
        out = []
        for p in (1, 2):
            lo = self.broker[p].localObjects
            out.append(0 if lo is None else len([k for k in lo if k != b"root"]))
        return out

    def wa(self):
        out = []
        for p in (1, 2):
            w = self.broker[p].waitingForAnswers
            out.append(0 if w is None else len(w))
        return out

    def new_handle(self, side, ref):
        self.nh += 1
        self.handles[self.nh] = ref
        self.hside[self.nh] = side
        return self.nh

    def _guard(self, who, fn):
        try:
            fn()
        except BaseException as e:      # not an action of the spec
            self.obs.append(["exc", who, type(e).__name__, 0, 0, 0])

    # ---- legality (mirrors the enabling conditions of PbBroker.tla)
    def can_call(self, p, t, kind, j):
        if t == 0:
            if p != 1:
                return False
        elif t not in self.handles or self.hside[t] != p:
            return False
        return (1 <= j <= self.nobj) if kind in REFKINDS else j == 0

    def can_deliver(self, p):
        return not self.tr[3 - p].lost and len(self.pipe[p]) > 0

    def can_fire(self, c):
        return c in self.later and self.calls[c - 1][2] in ("Later", "GiveLater")

    # ---- steps
    def call(self, p, t, kind, j, flag):
        from twisted.spread import pb
        K = self.K
        self.calls.append((p, t, kind, j, flag))
        c = len(self.calls)

        def ok(x):
            if isinstance(x, pb.RemoteReference):
                self.obs.append(["fire", c, "REF", self.new_handle(p, x), 0, 0])
            elif isinstance(x, int):
                self.obs.append(["fire", c, "OK", _small(x), 0, 0])
            else:
                self.obs.append(["fire", c, "OK:" + type(x).__name__, 0, 0, 0])

        def err(f):
            from twisted.internet import error
            s = str(f.value)
            v = int(s) if s.isdigit() and len(s) < 9 else -1
            if f.check(K["MyErr"]):
                self.obs.append(["fire", c, "MyErr", v, 0, 0])
            elif f.check(pb.PBConnectionLost):
                r = f.value.args[0] if f.value.args else None
                code = 1 if getattr(r, "check", None) and r.check(error.ConnectionDone) else 2 if getattr(r, "check", None) and r.check(error.ConnectionLost) else 0
                self.obs.append(["fire", c, "PBConnectionLost", code, 0, 0])
                if flag:                # application code that retries from its errback: a re-entrant callRemote
                    self.call(1, 0, "Now", 0, False)
            else:
                name = f.type
                if isinstance(name, bytes):
                    name = name.decode("ascii", "replace")
                elif not isinstance(name, str):
                    name = getattr(name, "__module__", "") + "." + getattr(name, "__name__", "?")
                self.obs.append(["fire", c, name, v, 0, 0])

        def go():
            ref = self.root if t == 0 else self.handles[t]
            args = (c,)
            if kind in ("Give", "GiveLater"):
                args = (c, j)
            elif kind == "Take":
                args = (c, self.objs[p][j])
            try:
                d = ref.callRemote(kind, *args)
            except pb.DeadReferenceError:
                self.obs.append(["raise", c, "DeadReferenceError", 0, 0, 0])
                return
            if d is None:
                self.obs.append(["raise", c, "None", 0, 0, 0])
                return
            d.addCallbacks(ok, err)
        self._guard(p, go)

    def deliver(self, p, n):
        q = 3 - p
        data = bytes(self.pipe[p][:n])
        del self.pipe[p][:n]
        left = n + self.moff[p]             # bookkeeping of write boundaries (schedule choice only)
        while self.msgs[p] and self.msgs[p][0] <= left:
            left -= self.msgs[p].pop(0)
        self.moff[p] = left if self.msgs[p] else 0
        self._guard(q, lambda: self.broker[q].dataReceived(data))

    def fire(self, c, how):
        from twisted.python.failure import Failure
        d = self.later.pop(c)
        p, t, kind, j, flag = self.calls[c - 1]
        if how == "ok":
            val = self.objs[3 - p][j] if kind == "GiveLater" else c
            self._guard(0, lambda: d.callback(val))
        else:
            exc = self.K["MyErr"](str(c)) if how == "err" else ValueError(str(c))
            self._guard(0, lambda: d.errback(Failure(exc)))

    def release(self, h):
        def go():
            del self.handles[h]             # the last reference: RemoteReference.__del__ runs here (CPython)
        self._guard(self.hside[h], go)

    def lose(self, p, r):
        from twisted.internet import error
        from twisted.python.failure import Failure
        exc = error.ConnectionDone() if r == 1 else error.ConnectionLost()
        self.tr[p].lost = True
        self._guard(p, lambda: self.broker[p].connectionLost(Failure(exc)))

    def close(self):
        """end of a run: whatever the brokers write while the harness is torn down (decrefs of the references it still
        holds) is not part of the recorded history"""
        self.obs = []
        for p in (1, 2):
            self.tr[p].lost = True
        self.handles.clear()
        self.obs = []

    def next_boundary(self, p):
        """bytes up to the end of the first incompletely delivered write of p (schedule choice only)"""
        return (self.msgs[p][0] - self.moff[p]) if self.msgs[p] else len(self.pipe[p])


def step(h, op, ev, rops):
    """perform one op on the harness if the network/spec model allows it; append the event and the resolved op"""
    h.obs = []
    k = op[0]
    # symbolic forms (resolved against the current state, so that generated schedules are mostly enabled)
    if k == "callx":                            # ("callx", p, sel, kind, j, flag): sel picks among root / held references of p
        p = op[1]
        cands = ([0] if p == 1 else []) + sorted(x for x in h.handles if h.hside[x] == p)
        if not cands:
            return False
        op = ("call", p, cands[op[2] % len(cands)]) + tuple(op[3:])
        k = "call"
    elif k == "firex":                          # ("firex", sel, how)
        cands = [c for c in sorted(h.later) if h.can_fire(c)]
        if not cands:
            return False
        op = ("fire", cands[op[1] % len(cands)], op[2])
        k = "fire"
    elif k == "releasex":                       # ("releasex", sel)
        cands = sorted(h.handles)
        if not cands:
            return False
        op = ("release", cands[op[1] % len(cands)])
        k = "release"
    elif k == "deliver_all":
        op = ("deliver", op[1], 10 ** 6)
        k = "deliver"
    if k == "call":
        p, t, kind, j = op[1], op[2], op[3], op[4]
        flag = bool(op[5]) if len(op) > 5 else False
        if not h.can_call(p, t, kind, j):
            return False
        flag = flag and t == 0
        h.call(p, t, kind, j, flag)
        ev.append({"e": "call", "p": p, "t": t, "k": kind, "j": j, "f": flag, "obs": h.obs, "lo": h.lo(), "wa": h.wa()})
        rops.append(["call", p, t, kind, j, flag])
    elif k in ("deliver", "deliver_box"):
        p = op[1]
        if not h.can_deliver(p):
            return False
        if k == "deliver":
            n = op[2]
        else:                                   # a fraction num/den of the way to the next write boundary (>= 1 byte)
            n = max(1, (h.next_boundary(p) * op[2]) // op[3])
        n = max(1, min(n, len(h.pipe[p])))
        h.deliver(p, n)
        ev.append({"e": "deliver", "p": p, "n": n, "obs": h.obs, "lo": h.lo(), "wa": h.wa()})
        rops.append(["deliver", p, n])
    elif k == "fire":
        if not h.can_fire(op[1]):
            return False
        h.fire(op[1], op[2])
        ev.append({"e": "fire", "c": op[1], "how": op[2], "obs": h.obs, "lo": h.lo(), "wa": h.wa()})
        rops.append(["fire", op[1], op[2]])
    elif k == "release":
        if op[1] not in h.handles:
            return False
        h.release(op[1])
        ev.append({"e": "release", "h": op[1], "obs": h.obs, "lo": h.lo(), "wa": h.wa()})
        rops.append(["release", op[1]])
    elif k == "lose":
        if h.tr[op[1]].lost:
            return False
        h.lose(op[1], op[2])
        ev.append({"e": "lose", "p": op[1], "r": op[2], "obs": h.obs, "lo": h.lo(), "wa": h.wa()})
        rops.append(["lose", op[1], op[2]])
    else:
        raise ValueError(op)
    return True


def run_ops(cfg, ops):
    """ops: ("call", p, t, kind, j[, flag]) | ("deliver", p, n) | ("deliver_box", p, num, den) | ("fire", c, how) |
    ("release", h) | ("lose", p, r).  Steps the model does not allow in the current state are skipped (not logged);
    the executed steps are stored in resolved form under "ops"."""
    h = Harness(cfg)
    ev, rops = [], []
    for op in ops:
        step(h, op, ev, rops)
    h.close()
    return {"cfg": cfg, "ops": rops, "ev": ev}


# --------------------------------------------------------------------------- schedules

def short_alphabet():
    """compact alphabet for the exhaustive short histories (nobj = 1)"""
    return [
        ("callx", 1, 0, "Give", 1, False),        # root.callRemote("Give", object 1)
        ("callx", 1, 0, "Later", 0, True),        # a Later call whose errback re-enters callRemote on PBConnectionLost
        ("callx", 1, 1, "Take", 1, False),        # on the first held reference (root if none): pass own object 1
        ("callx", 2, 0, "Now", 0, False),         # the server calls back through a reference it was given
        ("deliver_all", 1),
        ("deliver_all", 2),
        ("deliver_box", 1, 1, 2),                 # half of the first undelivered message
        ("firex", 0, "ok"),
        ("releasex", 0),
        ("lose", 1, 1),
        ("lose", 2, 2),
    ]


def short_histories(length):
    import itertools
    alpha = short_alphabet()
    for n in range(1, length + 1):
        for seq in itertools.product(alpha, repeat=n):
            yield list(seq)


def drain_ops(rounds=3):
    ops = []
    for _ in range(rounds):
        ops += [("deliver_all", 1), ("deliver_all", 2)]
    return ops


def run_sweep(cfg, calls, seed, cut, order, tail):
    """the calls are made, then bytes flow under a seeded schedule (Later responders fired, references released on the way)
    until `cut` bytes were delivered, then connectionLost reaches the sides in `order`, then `tail` ops."""
    import random
    rng = random.Random(seed)
    h = Harness(cfg)
    ev, rops = [], []
    for c in calls:
        step(h, ("callx",) + tuple(c), ev, rops)
    delivered, guard = 0, 0
    while delivered < cut and guard < 2000:
        guard += 1
        cands = [p for p in (1, 2) if h.can_deliver(p)]
        fires = [c for c in sorted(h.later) if h.can_fire(c)]
        if not cands and not fires:
            if h.handles and rng.random() < 0.7:
                step(h, ("releasex", rng.randrange(4)), ev, rops)
                continue
            break
        x = rng.random()
        if fires and (not cands or x < 0.3):
            step(h, ("fire", rng.choice(fires), rng.choice(["ok", "ok", "err", "errx"])), ev, rops)
            continue
        if h.handles and x > 0.9:
            step(h, ("releasex", rng.randrange(4)), ev, rops)
            continue
        p = rng.choice(cands)
        b = h.next_boundary(p)
        r = rng.random()
        n = 1 if r < 0.2 else b if r < 0.55 else max(1, b - 1) if r < 0.65 else rng.randint(1, len(h.pipe[p]))
        n = min(n, len(h.pipe[p]), cut - delivered)
        step(h, ("deliver", p, n), ev, rops)
        delivered += n
    for p, r in order:
        step(h, ("lose", p, r), ev, rops)
    for op in tail:
        step(h, op, ev, rops)
    h.close()
    return {"cfg": cfg, "ops": rops, "ev": ev}, delivered


def random_call(rng, nobj, flagp=0.3):
    kind = rng.choice(KINDS)
    j = rng.randint(1, nobj) if kind in REFKINDS else 0
    return (rng.choice([1, 1, 2]), rng.randrange(4), kind, j, rng.random() < flagp)


def random_ops(rng, n, nobj):
    ops = []
    for _ in range(n):
        r = rng.random()
        if r < 0.26:
            ops.append(("callx",) + random_call(rng, nobj))
        elif r < 0.66:
            p = rng.choice([1, 2])
            x = rng.random()
            if x < 0.35:
                ops.append(("deliver_box", p, 1, 1))
            elif x < 0.55:
                ops.append(("deliver_box", p, rng.randint(1, 7), 8))
            elif x < 0.65:
                ops.append(("deliver", p, 1))
            elif x < 0.8:
                ops.append(("deliver", p, rng.randint(1, 120)))
            else:
                ops.append(("deliver_all", p))
        elif r < 0.78:
            ops.append(("firex", rng.randrange(4), rng.choice(["ok", "ok", "err", "errx"])))
        elif r < 0.95:
            ops.append(("releasex", rng.randrange(4)))
        elif r < 0.97:
            ops.append(("lose", rng.choice([1, 2]), rng.choice([1, 2])))
        else:
            ops.append(("callx",) + random_call(rng, nobj))
    x = rng.random()
    if x < 0.45:
        # quiesce: everything delivered, Later responders fired, every reference released -> nothing may stay exported
        ops += drain_ops(2)
        for _ in range(4):
            ops.append(("firex", 0, rng.choice(["ok", "err"])))
        ops += drain_ops(2)
        for _ in range(8):
            ops.append(("releasex", 0))
        ops += drain_ops(2)
    elif x < 0.85:
        order = [1, 2]
        rng.shuffle(order)
        ops.append(("lose", order[0], rng.choice([1, 2])))
        if rng.random() < 0.5:
            ops.append(("deliver_all", order[0]))
        ops.append(("firex", 0, "ok"))
        ops.append(("callx",) + random_call(rng, nobj))
        ops.append(("releasex", 0))
        ops.append(("lose", order[1], rng.choice([1, 2])))
        ops.append(("firex", 0, "ok"))
        ops.append(("callx",) + random_call(rng, nobj))
        ops.append(("releasex", 0))
    return ops


# --------------------------------------------------------------------------- verdict plumbing

def fingerprint(trace, rej):
    if rej.reached >= len(trace["ev"]):
        return "pb/end"
    e = trace["ev"][rej.reached]
    kinds = sorted({o[0] + ":" + (o[2] if o[0] in ("fire", "exc", "wr", "raise") else "") for o in e["obs"]})
    return "pb/%s/%s" % (e["e"], ",".join(kinds))


def describe(trace, rej):
    if rej.reached >= len(trace["ev"]):
        return "trace rejected at end"
    return "execution of two real pb.Broker peers not explained by PbBroker.tla at step %d: %s (preceding steps: %s)" % (
        rej.reached, trace["ev"][rej.reached], trace["ops"][max(0, rej.reached - 6):rej.reached])


def mutate(t, rng):
    """corrupt one logged field / drop / duplicate one observation: every such trace must be rejected"""
    evs = t["ev"]
    r = rng.random()
    if r < 0.15:
        i = rng.randrange(len(evs))
        evs[i][rng.choice(["lo", "wa"])][rng.randrange(2)] += 1   # one more object exported / request pending than explained
        return t
    cands = [i for i, e in enumerate(evs) if e["obs"]]
    if not cands:
        return None
    i = rng.choice(cands)
    obs = evs[i]["obs"]
    j = rng.randrange(len(obs))
    o = obs[j]
    if r < 0.35:
        obs.pop(j)                                   # an observation lost (a Deferred that never fires, a message never written)
    elif r < 0.5:
        obs.insert(j, list(o))                       # ... duplicated (fires twice)
    elif o[0] == "fire":
        if r < 0.75:
            o[1] = o[1] + 1                          # the wrong call's Deferred
        else:
            o[2] = "OK" if o[2] != "OK" else "MyErr" # the wrong outcome
    elif o[0] == "resp":
        if r < 0.75:
            o[4] = o[4] + 1                          # another object invoked
        else:
            o[3] = o[3] + 1
    elif o[0] == "wr":
        if r < 0.7:
            o[3] = o[3] + 1                          # another request id / object id on the wire
        elif r < 0.85:
            o[5] = o[5] + 1
        else:
            o[1] = 3 - o[1]
    elif o[0] == "raise":
        o[0] = "fire"
    else:
        o[1] = 3 - o[1]
    return t


def build_traces(ctx):
    import json
    rng = ctx.rng
    traces = []
    # (A) exhaustive short histories over a compact alphabet (every sequence up to the length; distinct resolved histories kept)
    seen = set()
    nshort = 0
    for ops in short_histories(ctx.pick(4, 5)):
        nshort += 1
        t = run_ops({"nobj": 1}, ops)
        key = json.dumps(t["ops"])
        if key in seen or not t["ev"]:
            continue
        seen.add(key)
        traces.append(t)
    ctx.extra["short_histories_enumerated"] = nshort
    ctx.extra["short_histories_distinct"] = len(seen)
    # (B) disconnect sweeps: for a scenario, one run per byte position at which connectionLost arrives
    scen = []
    for k in KINDS:
        scen.append([(1, 0, k, 1 if k in REFKINDS else 0, rng.random() < 0.4)])
    for _ in range(ctx.pick(10, 60)):
        nobj = rng.choice([1, 2])
        scen.append([random_call(rng, nobj, 0.4) for _ in range(rng.choice([2, 2, 3]))] + [nobj])
    nsweep = 0
    for sc in scen:
        nobj = sc[-1] if isinstance(sc[-1], int) else 1
        calls = [c for c in sc if not isinstance(c, int)]
        cfg = {"nobj": nobj}
        seed = rng.randrange(10 ** 9)
        full, tot = run_sweep(cfg, calls, seed, 10 ** 6, [], [])
        stepsz = 1 if (len(calls) == 1 or not ctx.quick) else 5
        for cut in range(0, tot + 1, stepsz):
            order = [(1, rng.choice([1, 2])), (2, rng.choice([1, 2]))]
            if cut % 2:
                order.reverse()
            if rng.random() < 0.3:
                order = order[:1]
            tail = [("firex", 0, rng.choice(["ok", "err"])), ("releasex", 0), ("callx",) + random_call(rng, nobj),
                    ("deliver_all", 1), ("deliver_all", 2), ("lose", 1, 1), ("lose", 2, 1), ("callx",) + random_call(rng, nobj)]
            t, _ = run_sweep(cfg, calls, seed, cut, order, tail)
            traces.append(t)
            nsweep += 1
    ctx.extra["sweep_runs"] = nsweep
    ctx.extra["sweep_scenarios"] = len(scen)
    # (C) random schedules
    for _ in range(ctx.pick(1500, 20000)):
        cfg = {"nobj": rng.choice([1, 2, 2, 3])}
        traces.append(run_ops(cfg, random_ops(rng, rng.randint(5, 45), cfg["nobj"])))
    return traces


def run(ctx):
    from harness.core import MachineryError
    import collections

    r = ctx.mc("PbBrokerMC", "PbBrokerMC.cfg", coverage=False,
               label="2 calls by either side (6 kinds, root or held reference), <= 2 references, 1-2 objects per side, every fragmentation, release and connectionLost position")
    if not r.ok:
        raise MachineryError("PbBroker spec violates its own invariants: " + r.error)
    if not ctx.quick:
        r3 = ctx.mc("PbBrokerMC", "PbBrokerMC.thorough.cfg", coverage=False, label="3 calls (7 kinds), <= 2 references, 1 object per side")
        if not r3.ok:
            raise MachineryError("PbBroker spec violates its own invariants: " + r3.error)
    rc = ctx.mc("PbBrokerMC", "PbBrokerMC.cov.cfg", label="coverage / vacuity guard on a sub-model (re-entrant errbacks included)")
    if not rc.ok:
        raise MachineryError("PbBroker spec violates its own invariants: " + rc.error)
    # (the coverage parser names a quantified disjunct of Next after the operator it applies: ConnLost is reported as Lose)
    ctx.require_actions("PbBrokerMC", ["CallRemote", "DeliverSome", "FireLater", "DropRef"])
    if not any(ctx.coverage_actions.get("PbBrokerMC." + n, 0) for n in ("ConnLost", "Lose")):
        raise MachineryError("vacuity: connectionLost never taken in PbBrokerMC")
    # negative controls: the interesting situations are reachable in the model (each witness invariant must be VIOLATED)
    for w in (("NeverQuietAgain",) if ctx.quick else ("NeverOutOfOrder", "NeverReexported", "NeverQuietAgain")):
        rn = ctx.mc("PbBrokerMC", "PbBrokerMC.%s.cfg" % w, must_pass=False, coverage=False, label="negative control: %s is reachable" % w[5:])
        if rn.ok or rn.kind != "invariant":
            raise MachineryError("negative control %s not violated (%s)" % (w, rn.kind or "ok"))

    traces = build_traces(ctx)
    ctx.exhaustive = False
    fires = collections.Counter(o[2] for t in traces for e in t["ev"] for o in e["obs"] if o[0] in ("fire", "raise"))
    ctx.extra["deferred_results_observed"] = dict(fires)          # non-vacuity: every result class occurs in real runs
    ctx.extra["decrefs_observed"] = sum(1 for t in traces for e in t["ev"] for o in e["obs"] if o[0] == "wr" and o[2] == "decref")
    ctx.extra["quiet_again_runs"] = sum(1 for t in traces if any(o[0] == "wr" and o[2] == "decref" for e in t["ev"] for o in e["obs"])
                                        and t["ev"][-1]["lo"] == [0, 0] and not any(e["e"] == "lose" for e in t["ev"]))
    ctx.note_traces(traces)
    ctx.log("recorded %d real executions (%d sweep runs, %d distinct short histories)" % (
        len(traces), ctx.extra["sweep_runs"], ctx.extra["short_histories_distinct"]))
    rej = ctx.validate("PbBrokerTrace", traces, shard_size=ctx.pick(1500, 4000))
    for x in rej[:30]:
        t = traces[x.idx]
        ctx.violation(fingerprint(t, x), describe(t, x), dict(cfg=t["cfg"], ops=t["ops"], rejected_at=x.reached))
    bad = {x.idx for x in rej}
    good = [t for i, t in enumerate(traces) if i not in bad and len(t["ev"]) >= 4]
    ctx.selftest_rejects("PbBrokerTrace", good[-300:], mutate, n=24)


def replay(ctx, obj):
    t = run_ops(obj["cfg"], [tuple(o) for o in obj["ops"]])
    ctx.note_trace(t)
    rej = ctx.validate("PbBrokerTrace", [t])
    for x in rej:
        ctx.violation(fingerprint(t, x), describe(t, x), dict(cfg=t["cfg"], ops=t["ops"], rejected_at=x.reached))
    for e in t["ev"]:
        print(e)
