"""C29 -- HTTP/2 server respects flow control and delivers each stream intact.

Spec:     specs/H2Flow.tla (+ H2FlowMC exhaustive incl. liveness, H2FlowTrace trace validation)
Binding:  a real twisted.web._http2.H2Connection (reactor = a task.Clock stepped one call at a time)
          serving a real Site whose resource hands the Request objects to the driver; the peer is an `h2`
          client state machine over an in-memory pipe.  The driver issues peer frames (HEADERS, WINDOW_UPDATE,
          SETTINGS), application calls (request.write / request.finish) and scheduler steps; every frame the
          server emits is parsed from the bytes on the wire and logged (stream, flow-controlled length, offset
          of its content in what the application wrote).  TLC decides.
"""
import json
import os

META = dict(
    id="C29",
    specs=["H2Flow.tla", "H2FlowMC.tla", "H2FlowTrace.tla", "H2FlowImpl.tla", "H2FlowImplMC.tla"],
    technique="TLA+ spec of HTTP/2 send-side flow control (TLC exhaustive: window safety, per-stream order/completeness, liveness 'a sendable stream eventually sends' under fairness of the send loop) + TLC trace validation of real H2Connection executions driven by an h2 client (random stream sets, write sizes, WINDOW_UPDATE/SETTINGS schedules, scheduler interleavings), with the liveness clause checked at every quiescent point",
    level_text="TLC checks on the specification, for all interleavings of peer frames, application writes and server frames within the stated bounds, that no DATA frame exceeds the connection window, the stream window or the peer's maximum frame size, that each stream's frames carry the written bytes in order and END_STREAM comes only after all of them, and (temporal, under weak fairness of the send loop) that no stream stays sendable forever; every recorded execution of the real H2Connection is validated by TLC as a behaviour of that specification with every logged field matched, including that the scheduler never goes idle while a stream is sendable.",
    level_note="Trusted: TLC, the `h2`/`hpack`/`hyperframe` packages (peer state machine; DATA frames are additionally parsed from the raw bytes by the adapter), the adapter's content-offset projection. The `priority` package is absent from the image: /verif/vendor/priority is a round-robin stand-in providing only the calls _http2.py uses, so stream *scheduling order* is not that of the real package (the property does not constrain it). The reactor is a task.Clock stepped one delayed call at a time; client frames are delivered to the server immediately (no in-flight window updates). Not decided: request bodies / inbound flow control, RST_STREAM, priority frames, transport back-pressure (pauseProducing on the connection).",
    design_ref="2.7 C29",
    rule="case = (number of streams, schedule of open/write/finish/WINDOW_UPDATE/SETTINGS/scheduler-step/quiesce operations); distinct = hash of (cfg, events); non-trivial = at least two event kinds",
)

MAGIC_WIN = 65535
_LOGGING_STARTED = False
MAGIC_FRAME = 16384


_CONTENT = {}


def content(s, off, n):
    """Position-coded stream content: 4-byte big-endian words (s tag, word index)."""
    from array import array
    import sys
    need = off + n
    buf = _CONTENT.get(s)
    if buf is None or len(buf) < need:
        words = max(1 << 16, (need + 3) // 4 * 2)
        a = array("I", [(s & 0x7F) << 24 | (w & 0xFFFFFF) for w in range(words)])
        if a.itemsize != 4:
            raise RuntimeError("unexpected C int size")
        if sys.byteorder == "little":
            a.byteswap()
        buf = _CONTENT[s] = a.tobytes()
    return buf[off:off + n]


class Harness:
    def __init__(self):
        import sys
        v = os.path.join(os.path.dirname(os.path.dirname(os.path.dirname(os.path.abspath(__file__)))), "vendor")
        if v not in sys.path:
            sys.path.append(v)      # after site-packages: only used because `priority` is not installed
        import priority
        from twisted.web import _http2, server, resource
        from twisted.internet import task
        import h2.connection
        import h2.config
        import h2.settings

        class StepClock(task.Clock):
            """task.Clock, run one due delayed call at a time (advance(0) would spin on callLater(0) loops)."""

            def step(self):
                if not self.calls or self.calls[0].getTime() > self.seconds():
                    return False
                c = self.calls.pop(0)
                c.called = 1
                c.func(*c.args, **c.kw)
                return True

        class Tr:
            disconnecting = False

            def __init__(self):
                self.out = []
                self.lost = False

            def write(self, data):
                self.out.append(bytes(data))

            def writeSequence(self, seq):
                self.out.append(b"".join(seq))

            def loseConnection(self):
                self.lost = True

            def abortConnection(self):
                self.lost = True

            def getPeer(self):
                from twisted.internet.address import IPv4Address
                return IPv4Address("TCP", "10.0.0.2", 4321)

            getHost = getPeer

            def registerProducer(self, p, s):
                pass

            def unregisterProducer(self):
                pass

        reqs = self.reqs = {}

        class Res(resource.Resource):
            isLeaf = True

            def render(self, request):
                reqs[int(request.path[2:])] = request
                return server.NOT_DONE_YET

        self.h2settings = h2.settings
        self.clock = StepClock()
        site = server.Site(Res(), reactor=self.clock)
        conn = self.conn = _http2.H2Connection(reactor=self.clock)
        conn.requestFactory = server.Request
        conn.site = site
        conn.factory = site
        conn.timeOut = None
        conn.callLater = self.clock.callLater
        self.tr = Tr()
        conn.makeConnection(self.tr)
        self.cl = h2.connection.H2Connection(config=h2.config.H2Configuration(client_side=True, header_encoding=None))
        self.cl.initiate_connection()
        self.buf = b""
        self.ev = []
        self.written = {}
        self.rcvd = {}
        self.ended = set()
        self.dead = False
        self.prods = {}
        self.peer_refused = None
        # errors swallowed by a Deferred / logged by the reactor are observable through the log system
        from twisted.logger import globalLogPublisher, globalLogBeginner
        global _LOGGING_STARTED
        if not _LOGGING_STARTED:
            # until logging "begins" twisted prints critical events (tracebacks of unhandled Deferred errors) to
            # stderr; they are observed below and end up in the trace instead
            _LOGGING_STARTED = True
            globalLogBeginner.beginLoggingTo([lambda event: None], redirectStandardIO=False, discardBuffer=True)
        self.failures = []

        def obs(event):
            f = event.get("log_failure")
            if f is not None:
                self.failures.append(f.type.__name__)
        self.obs = obs
        self.pub = globalLogPublisher
        globalLogPublisher.addObserver(obs)

    def close(self):
        self.pub.removeObserver(self.obs)

    def logged_failures(self, where):
        # a failure swallowed by a Deferred is logged when the Deferred is collected; the failure's traceback
        # makes a reference cycle, so collect now (cheap: everything older than this run is frozen, see run_plan)
        import gc
        gc.collect()
        if self.failures and not self.dead:
            self.ev.append({"e": "exc", "cls": self.failures[0], "where": where + "/logged"})
            self.dead = True
        del self.failures[:]

    # ---- pipe
    def pump(self):
        """client -> server, then server -> (log) -> client, until both are silent.  Returns #frames logged."""
        logged = 0
        for _ in range(50):
            moved = False
            d = self.cl.data_to_send()
            if d:
                moved = True
                self.conn.dataReceived(d)
            if self.tr.out:
                moved = True
                raw = b"".join(self.tr.out)
                del self.tr.out[:]
                n, frames = self.parse(raw)
                logged += n
                # one frame per receive_data call: h2 re-reads its (acknowledged) max frame size only at the
                # start of receive_data, so a SETTINGS ACK must not share a call with the DATA frame after it
                for fr in frames:
                    try:
                        self.cl.receive_data(fr)
                    except Exception as ex:    # the peer state machine refuses what the server sent
                        # Flow-control refusals are not logged: the DATA frames themselves are in the trace and
                        # the spec does the window arithmetic (h2 also refuses an *empty* END_STREAM DATA frame
                        # on a negative inbound window, which RFC 7540 6.9.1 allows).  The trace ends here.
                        if type(ex).__name__ != "FlowControlError":
                            self.ev.append({"e": "h2error", "cls": type(ex).__name__})
                        self.peer_refused = type(ex).__name__
                        self.dead = True
                        return logged
            if not moved:
                break
        return logged

    def parse(self, raw):
        self.buf += raw
        n = 0
        frames = []
        while len(self.buf) >= 9:
            ln = int.from_bytes(self.buf[0:3], "big")
            if len(self.buf) < 9 + ln:
                break
            typ, flags = self.buf[3], self.buf[4]
            sid = int.from_bytes(self.buf[5:9], "big") & 0x7FFFFFFF
            payload = self.buf[9:9 + ln]
            frames.append(self.buf[:9 + ln])
            self.buf = self.buf[9 + ln:]
            s = (sid + 1) // 2
            if typ == 0:       # DATA
                data = payload
                if flags & 0x8:
                    data = payload[1:len(payload) - payload[0]]
                if ln > 0 or not flags & 0x1:
                    exp = self.written.get(s, b"")
                    at = self.rcvd.get(s, 0)
                    if bytes(exp[at:at + len(data)]) == data:
                        off = at
                    else:
                        off = bytes(exp).find(data)
                        if off == at:
                            off = -1
                    self.rcvd[s] = at + len(data)
                    self.ev.append({"e": "data", "s": s, "n": ln, "off": off})
                    n += 1
                if flags & 0x1:
                    self.ev.append({"e": "end", "s": s})
                    self.ended.add(s)
                    n += 1
            elif typ == 1 and flags & 0x1:   # HEADERS carrying END_STREAM
                self.ev.append({"e": "end", "s": s})
                self.ended.add(s)
                n += 1
            elif typ == 3:
                self.ev.append({"e": "rst", "s": s})
                n += 1
            elif typ == 7:
                self.ev.append({"e": "goaway"})
                n += 1
        return n, frames

    def guarded(self, where, f, *a):
        try:
            f(*a)
        except Exception as ex:
            self.ev.append({"e": "exc", "cls": type(ex).__name__, "where": where})
            self.dead = True
            return False
        self.logged_failures(where)
        return not self.dead

    # ---- operations
    def op(self, o):
        k = o[0]
        cl = self.cl
        if k == "open":
            s = o[1]
            self.ev.append({"e": "open", "s": s})
            cl.send_headers(2 * s - 1, [(b":method", b"GET"), (b":path", b"/s%d" % s), (b":scheme", b"http"), (b":authority", b"verif")], end_stream=True)
            self.written[s] = bytearray()
            self.guarded("open", self.pump)
        elif k == "wu":
            if o[1] in self.ended:
                return              # the peer cannot update the window of a stream it has seen END_STREAM on
            self.ev.append({"e": "wu", "s": o[1], "n": o[2]})
            cl.increment_flow_control_window(o[2], None if o[1] == 0 else 2 * o[1] - 1)
            self.guarded("wu", self.pump)
        elif k == "settings":
            self.ev.append({"e": "settings", "iw": o[1], "mf": o[2]})
            S = self.h2settings.SettingCodes
            cl.update_settings({S.INITIAL_WINDOW_SIZE: o[1], S.MAX_FRAME_SIZE: o[2]})
            self.guarded("settings", self.pump)
        elif k == "write":
            s, n = o[1], o[2]
            data = content(s, len(self.written[s]), n)
            self.written[s] += data
            self.ev.append({"e": "write", "s": s, "n": n})
            if self.guarded("write", self.reqs[s].write, data):
                self.guarded("write", self.pump)
        elif k == "finish":
            if o[1] in self.prods:
                return              # a producer-driven response is finished by its producer
            self.ev.append({"e": "finish", "s": o[1]})
            if self.guarded("finish", self.reqs[o[1]].finish):
                self.guarded("finish", self.pump)
        elif k == "prod":          # the response of stream s is driven by a push producer writing these chunks
            s = o[1]
            h = self

            class Prod:
                def __init__(self, chunks):
                    self.chunks, self.paused, self.stopped = list(chunks), False, False

                def pauseProducing(self):
                    self.paused = True
                    h.ev.append({"e": "pause", "s": s})

                def resumeProducing(self):
                    self.paused = False
                    h.ev.append({"e": "resume", "s": s})

                def stopProducing(self):
                    self.stopped = True
            pr = Prod(o[2])
            self.prods[s] = pr
            self.guarded("registerProducer", self.reqs[s].registerProducer, pr, True)
        elif k == "produce":
            self.produce(o[1])
        elif k == "run":
            for _ in range(o[1]):
                if self.dead:
                    break
                r = [False]

                def st():
                    r[0] = self.clock.step()
                if not self.guarded("send-loop", st) or not r[0]:
                    break
                self.guarded("send-loop", self.pump)
        elif k == "quiesce":
            self.quiesce()
            if not self.dead:
                self.ev.append({"e": "quiesce"})
        elif k == "alldone":
            self.ev.append({"e": "alldone"})
        else:
            raise ValueError(o)

    def produce(self, s):
        """The producer of stream s, unless paused, writes its next chunk; when it has none left it unregisters
        and finishes the response.  Returns True if it did something."""
        pr = self.prods.get(s)
        if pr is None or pr.paused or pr.stopped or self.dead:
            return False
        if pr.chunks:
            n = pr.chunks.pop(0)
            data = content(s, len(self.written[s]), n)
            self.written[s] += data
            self.ev.append({"e": "write", "s": s, "n": n})
            if self.guarded("write", self.reqs[s].write, data):
                self.guarded("write", self.pump)
        else:
            del self.prods[s]
            self.ev.append({"e": "unprod", "s": s})
            self.guarded("unregisterProducer", self.reqs[s].unregisterProducer)
            self.ev.append({"e": "finish", "s": s})
            if self.guarded("finish", self.reqs[s].finish):
                self.guarded("finish", self.pump)
        return True

    def quiesce(self):
        for _ in range(500):
            self.quiesce_scheduler()
            if self.dead or not any([self.produce(s) for s in sorted(self.prods)]):
                return

    def quiesce_scheduler(self):
        from harness.core import MachineryError
        silent = 0
        need = 2 * len(self.written) + 3       # every unblocked stream gets a turn within this many steps (round robin)
        for _ in range(200000):
            if self.dead or silent >= need:
                return
            r = [False]

            def st():
                r[0] = self.clock.step()
            if not self.guarded("send-loop", st) or not r[0]:
                return
            before = len(self.ev)
            self.guarded("send-loop", self.pump)
            silent = 0 if len(self.ev) > before else silent + 1
        raise MachineryError("C29 adapter: scheduler did not quiesce")


def run_plan(plan):
    import warnings
    warnings.simplefilter("ignore")
    import gc
    gc.collect()
    gc.freeze()          # older objects are out of the collector's way: the per-operation collect() stays cheap
    h = Harness()
    try:
        h.guarded("connect", h.pump)
        cfg = dict(ns=plan["ns"], connWin0=MAGIC_WIN, initWin0=MAGIC_WIN, maxFrame0=MAGIC_FRAME)
        for o in plan["ops"]:
            if h.dead:
                break
            h.op(o)
    finally:
        h.close()
    return {"cfg": cfg, "plan": plan, "ev": h.ev, "peer_refused": h.peer_refused}


# --------------------------------------------------------------------------- generation

def gen_plan(rng, nops=None):
    ns = rng.choice([1, 1, 2, 2, 3, 3, 4, 5])
    nops = nops or rng.randint(8, 45)
    W = [lambda: rng.randint(1, 20), lambda: rng.randint(1, 20), lambda: rng.randint(50, 3000), lambda: rng.choice([16383, 16384, 16385]),
         lambda: rng.randint(17000, 70000)]
    IW = [0, 0, 1, 5, 100, 3000, 16384, 65535, 200000]
    MF = [16384, 16384, 16385, 32768, 70000]
    INC = [lambda: rng.randint(1, 10), lambda: rng.randint(1, 10), lambda: rng.randint(50, 5000), lambda: rng.choice([16384, 65535]), lambda: rng.randint(70000, 300000)]
    ops = []
    opened, finished, prodded = 0, set(), set()
    written = {}
    iw, mf = MAGIC_WIN, MAGIC_FRAME
    style = rng.choice(["tiny", "tiny", "mixed", "big"])   # tiny: small initial windows so that flow control binds
    if style != "big":
        iw = rng.choice(IW[:6])
        ops.append(["settings", iw, mf])
    for _ in range(nops):
        r = rng.random()
        live = [s for s in range(1, opened + 1) if s not in finished]
        if opened < ns and (r < 0.15 or not opened):
            opened += 1
            written[opened] = 0
            ops.append(["open", opened])
        elif r < 0.21 and live and style != "big" and not prodded:
            # a response driven by a push producer whose writes land exactly on the stream window, resumed by
            # stream-level WINDOW_UPDATEs only (the connection window is opened once, beforehand)
            s = rng.choice(live)
            prodded.add(s)
            finished.add(s)           # no direct writes / finish on it any more
            sizes = [rng.choice([iw, iw, rng.randint(1, 50)]) or rng.randint(1, 50)] + [rng.randint(1, 3000) for _ in range(rng.randint(1, 3))]
            ops.append(["wu", 0, 1 << 20])
            ops.append(["prod", s, sizes])
            ops.append(["quiesce"])
            for c in sizes[1:]:
                if rng.random() < 0.8:
                    ops.append(["wu", s, c if rng.random() < 0.7 else rng.randint(1, 5000)])
                    ops.append(["quiesce"])
        elif r < 0.45 and live:
            s = rng.choice(live)
            n = rng.choice(W if style != "tiny" else W[:3])()
            if written[s] + n > 200000:
                continue
            written[s] += n
            ops.append(["write", s, n])
        elif r < 0.52 and live:
            s = rng.choice(live)
            finished.add(s)
            ops.append(["finish", s])
        elif r < 0.70:
            # note: a WINDOW_UPDATE on a stream that already ended is not generated (the driver cannot know
            # about END_STREAM before running, so it targets streams whose application has not finished)
            tgt = rng.choice([0] + live) if live else 0
            ops.append(["wu", tgt, rng.choice(INC if style != "tiny" else INC[:3])()])
            # the resume clause is about what happens after a window opens: often look at it right away,
            # with or without another stream's activity in between
            if rng.random() < 0.5:
                others = [s for s in live if s != tgt]
                if others and rng.random() < 0.5:
                    s2 = rng.choice(others)
                    if rng.random() < 0.5:
                        ops.append(["write", s2, rng.randint(1, 20)])
                        written[s2] += 20
                    else:
                        finished.add(s2)
                        ops.append(["finish", s2])
                ops.append(["quiesce"])
        elif r < 0.76:
            iw = rng.choice(IW)
            mf = rng.choice(MF)
            ops.append(["settings", iw, mf])
        elif r < 0.90:
            ops.append(["run", rng.randint(1, 6)])
        else:
            ops.append(["quiesce"])
    # drain: finish everything, open all windows wide, run to quiescence; every stream must be complete
    for s in range(1, opened + 1):
        if s not in finished:
            ops.append(["finish", s])
    ops.append(["quiesce"])
    ops.append(["settings", 1 << 21, mf])
    ops.append(["wu", 0, 1 << 22])
    ops.append(["quiesce"])
    ops.append(["alldone"])
    return dict(ns=max(opened, 1) if opened else ns, ops=ops)


def mirror(trace, upto):
    """Python mirror of the spec state, used ONLY to name a rejection (fingerprint), never for a verdict."""
    cfg = trace["cfg"]
    st = dict(conn=cfg["connWin0"], iw=cfg["initWin0"], win={}, q={}, fin=set(), ended=set(), opened_by={}, app_since={})

    def wins():
        return {s: min(st["conn"], w) for s, w in st["win"].items()}
    for e in trace["ev"][:upto]:
        k = e["e"]
        before = wins()
        if k == "open":
            st["win"][e["s"]] = st["iw"]
            st["q"][e["s"]] = 0
        elif k == "wu":
            if e["s"] == 0:
                st["conn"] += e["n"]
            elif e["s"] in st["win"]:
                st["win"][e["s"]] += e["n"]
        elif k == "settings":
            for s in st["win"]:
                if s not in st["ended"]:
                    st["win"][s] += e["iw"] - st["iw"]
            st["iw"] = e["iw"]
        elif k == "write":
            st["q"][e["s"]] = st["q"].get(e["s"], 0) + e["n"]
        elif k == "finish":
            st["fin"].add(e["s"])
        elif k == "data":
            st["q"][e["s"]] -= e["n"]
            st["conn"] -= e["n"]
            st["win"][e["s"]] -= e["n"]
        elif k == "end":
            st["ended"].add(e["s"])
        if k == "finish" or (k == "write" and before.get(e["s"], 0) > 0):
            # an application call that wakes a parked send loop (a write at a closed window does not)
            for s in st["app_since"]:
                st["app_since"][s] = True
        after = wins()
        for s, w in after.items():
            if w > 0 and before.get(s, 0) <= 0:
                st["opened_by"][s] = k
                st["app_since"][s] = False
    return st


def fingerprint(trace, rej):
    ev = trace["ev"]
    if rej.reached >= len(ev):
        return "end-of-trace"
    e = ev[rej.reached]
    st = mirror(trace, rej.reached)
    if e["e"] == "exc":
        neg = any(w < 0 and st["q"].get(s, 0) > 0 for s, w in st["win"].items())
        return "exception/%s/%s%s" % (e["cls"], e["where"], "/stream-window-negative-after-SETTINGS-with-data-queued" if neg else "")
    if e["e"] == "quiesce":
        idle = [s for s in st["q"] if s not in st["ended"] and st["q"][s] > 0 and min(st["conn"], st["win"][s]) > 0]
        if idle:
            s = min(idle)      # name the lowest idle stream only
            return "quiesce/stream-sendable-but-send-loop-idle/window-opened-by-%s/%s" % (
                st["opened_by"].get(s, "never-closed"), "loop-woken-since" if st["app_since"].get(s, True) else "loop-not-woken-since")
        paused = set()
        for x in ev[:rej.reached]:
            if x["e"] == "pause":
                paused.add(x["s"])
            elif x["e"] in ("resume", "unprod"):
                paused.discard(x["s"])
        if any(s not in st["ended"] and min(st["conn"], st["win"][s]) - st["q"][s] > 0 for s in paused):
            return "quiesce/producer-still-paused-although-window-has-room/window-opened-by-%s" % st["opened_by"].get(min(paused), "?")
        return "quiesce/finished-stream-not-ended"
    if e["e"] == "data":
        s = e["s"]
        w = min(st["conn"], st["win"].get(s, 0))
        if e["n"] > w:
            return "data/exceeds-window"
        if e["off"] != sum(x["n"] for x in ev[:rej.reached] if x["e"] == "data" and x["s"] == s):
            return "data/out-of-order-or-corrupt"
        return "data/other"
    return "%s/not-enabled" % e["e"]


def mutate(t, rng):
    """Corrupt one logged field / drop or duplicate one event (binding self-test).  Only complete traces
    (ending in alldone) are used, so that every such corruption is necessarily inconsistent."""
    ev = t["ev"]
    if not ev or ev[-1]["e"] != "alldone":
        return None
    datas = [i for i, e in enumerate(ev) if e["e"] == "data" and e["n"] > 0]
    if not datas:
        return None
    r = rng.random()
    if r < 0.3:
        ev[rng.choice(datas)]["off"] += 1            # content from another position
    elif r < 0.5:
        del ev[rng.choice(datas)]                     # a frame lost
    elif r < 0.7:
        i = rng.choice(datas)
        ev.insert(i, dict(ev[i]))                     # a frame duplicated
    elif r < 0.85:
        ws = [i for i, e in enumerate(ev) if e["e"] == "write"]
        del ev[rng.choice(ws)]                        # bytes the application never wrote are sent
    else:
        fs = [i for i, e in enumerate(ev) if e["e"] == "finish"]
        if not fs:
            return None
        del ev[rng.choice(fs)]                        # END_STREAM without finish()
    return t


UNIT = MAGIC_WIN // 3      # one model unit in bytes (the Impl model starts with a connection window of 3 units)


def impl_layer(ctx):
    """Impl layer (DESIGN 1.1): TLC model-checks the send scheduling *as coded* (H2FlowImpl.tla) against the
    H2Flow properties.  A counterexample is only a statement about the model; it is replayed on the real
    H2Connection and reported only if the real execution is itself rejected by the H2Flow trace spec."""
    import re
    from harness.core import parse_tla_value
    out = []
    for cfgname, kind in (("H2FlowImplLive.cfg", "liveness"), ("H2FlowImplSafe.cfg", "safety")):
        r = ctx.mc("H2FlowImplMC", cfgname, must_pass=False, coverage=False, label="Impl layer as coded (%s)" % kind)
        if r.ok:
            ctx.log("Impl model satisfies the %s properties (%s)" % (kind, cfgname))
            continue
        steps = []
        cfg0 = None
        for blk in r.cex:
            m = re.search(r"/\\ last = (\[[^\]]*\])", blk)
            c = re.search(r"/\\ cfg = (\[[^\]]*\])", blk)
            if c and cfg0 is None:
                cfg0 = parse_tla_value(c.group(1))
            if m:
                steps.append(parse_tla_value(m.group(1)))
        if not steps or cfg0 is None:
            from harness.core import MachineryError
            raise MachineryError("C29: cannot read the TLC counterexample of %s: %s" % (cfgname, r.error))
        ops = [["settings", cfg0["initWin0"] * UNIT, cfg0["maxFrame0"] * UNIT]]
        for st in steps:
            e = st["e"]
            if e == "open":
                ops.append(["open", st["s"]])
            elif e == "write":
                ops.append(["write", st["s"], st["n"] * UNIT])
            elif e == "finish":
                ops.append(["finish", st["s"]])
            elif e == "wu":
                ops.append(["wu", st["s"], st["n"] * UNIT])
            elif e == "settings":
                ops.append(["settings", st["iw"] * UNIT, st["mf"] * UNIT])
            elif e == "loop":
                ops.append(["run", 1])
        ops.append(["quiesce"])
        t = run_plan(dict(ns=cfg0["ns"], ops=ops))
        t["impl_cex"] = kind
        out.append(t)
        ctx.log("Impl model: TLC %s counterexample (%d steps) replayed on the real H2Connection: %d events" % (kind, len(steps), len(t["ev"])))
    return out



def report(ctx, traces, rej):
    for x in rej[:40]:
        t = traces[x.idx]
        e = t["ev"][x.reached] if x.reached < len(t["ev"]) else None
        ctx.violation(fingerprint(t, x),
                      "real H2Connection execution not explained by H2Flow.tla at event %d: %s (after: %s)"
                      % (x.reached, e, json.dumps(t["ev"][max(0, x.reached - 6):x.reached])),
                      dict(plan=t["plan"], rejected_at=x.reached))


def run(ctx):
    from harness.core import MachineryError
    r = ctx.mc("H2FlowMC", ctx.pick("H2FlowMC.cfg", "H2FlowMC.thorough.cfg"))
    if not r.ok:
        raise MachineryError("H2Flow spec violates its own properties: " + r.error)
    ctx.require_actions("H2FlowMC", ["MCOpen", "MCWindowUpdate", "MCSettings", "MCWrite", "MCFinish", "MCSend", "MCQuiesce"])
    # vacuity of the liveness property: without fairness of the send loop it must fail
    nf = ctx.mc("H2FlowMC", "H2FlowMCNoFair.cfg", must_pass=False, coverage=False, label="vacuity: Resume must fail without fairness")
    if nf.ok or nf.kind != "property":
        raise MachineryError("vacuity: liveness property Resume holds without fairness (%s)" % nf.kind)
    ctx.extra["liveness_vacuity_guard"] = "Resume violated in SpecNoFair as required"

    impl_traces = impl_layer(ctx)
    n = ctx.pick(1200, 20000)
    traces = impl_traces + [run_plan(gen_plan(ctx.rng)) for _ in range(n)]
    ctx.log("recorded %d real executions, %d events" % (len(traces), sum(len(t["ev"]) for t in traces)))
    ctx.note_traces(traces)
    lean = [{"cfg": t["cfg"], "ev": t["ev"]} for t in traces]
    rej = ctx.validate("H2FlowTrace", lean, shard_size=ctx.pick(700, 4000))
    report(ctx, traces, rej)
    bad = {x.idx for x in rej}
    # a TLC counterexample of the Impl model that the real code does not reproduce = the model drifted from the code
    ctx.impl_drift = sum(1 for i in range(len(impl_traces)) if i not in bad)
    ctx.extra["impl_counterexamples_replayed"] = len(impl_traces)
    ctx.extra["impl_counterexamples_reproduced_on_real_code"] = len(impl_traces) - ctx.impl_drift
    good = [t for i, t in enumerate(lean) if i not in bad]
    ctx.extra["quiesce_events_checked"] = sum(1 for t in good for e in t["ev"] if e["e"] == "quiesce")
    ctx.extra["data_frames_checked"] = sum(1 for t in good for e in t["ev"] if e["e"] == "data")
    if not ctx.violations:
        ctx.selftest_rejects("H2FlowTrace", good[:300], mutate, n=24)


def replay(ctx, obj):
    t = run_plan(obj["plan"])
    ctx.note_trace({"cfg": t["cfg"], "ev": t["ev"]})
    rej = ctx.validate("H2FlowTrace", [{"cfg": t["cfg"], "ev": t["ev"]}])
    report(ctx, [t], rej)
    for i, e in enumerate(t["ev"]):
        print(i, e)
