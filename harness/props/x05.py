"""X05 (extension, not a listed property) -- twisted.protocols.policies: LimitTotalConnectionsFactory,
ThrottlingFactory/ThrottlingProtocol and the ProtocolWrapper/WrappingFactory bookkeeping, on task.Clock.
Spec: specs/Policies.tla.  Reported under coverage.extra_modules of the nearest property (C14)."""

META = dict(
    id="X05", extension=True, nearest="C14",
    specs=["Policies.tla", "PoliciesMC.tla", "PoliciesTrace.tla"],
    technique="TLA+ spec of the connection-policy factories (limit / throttle / wrap) model-checked by TLC + TLC trace "
              "validation of the real factories driven with task.Clock, recording StringTransports and recording wrapped protocols",
    level_text="extension module: grows the specification beyond the listed properties",
    level_note="not a listed property; alarms are reported as EXTRA-ALARM, never as VIOLATION.  Trusted: task.Clock's call "
               "ordering, StringTransport.  Byte counts are multiples of one unit and limits are 1-2 units/s so that every period "
               "the code computes is a whole number of half-second ticks; other ratios are not exercised.",
    design_ref="4 (extensions)",
    rule="history of buildProtocol/makeConnection/dataReceived/write/writeSequence/loseConnection/registerProducer/"
         "unregisterProducer/connectionLost/clock.advance calls (one event per call, one per delayed call run by the clock); "
         "every word of 4-6 (thorough 5-7) symbols over 7 relative alphabets plus seeded random histories; distinct by event sequence",
)
NONE = -1
UNIT = 16           # bytes per spec unit
TICK = 0.5          # seconds per spec tick
KINDS = {"checkReadBandwidth": 1, "unthrottleReads": 2, "checkWriteBandwidth": 3, "unthrottleWrites": 4}
CONN_EVENTS = ("connect", "data", "write", "wseq", "lose", "regprod", "unregprod")


def run_history(cfg, ops):
    """Drive the real factory along ops; returns {"cfg", "ops", "ev"}.  ops that do not apply are skipped."""
    import sys
    from twisted.internet import protocol, task
    from twisted.internet.address import IPv4Address
    from twisted.internet.error import ConnectionDone
    from twisted.internet.testing import StringTransport
    from twisted.protocols import policies
    from twisted.python.failure import Failure

    clock = task.Clock()
    obs = []            # observations of the event in progress
    ev = []
    calls = []          # (id, kind, DelayedCall) for every callLater the factory made
    conns = {}          # cid -> dict(wrapper, inner, transport, state, producer)
    nb = [0]
    addr = IPv4Address("TCP", "10.0.0.9", 4321)
    reason = Failure(ConnectionDone())

    def pattern(c, n):
        return bytes([64 + c]) * (n * UNIT)

    def units(c, data):
        n = len(data) // UNIT
        return n if data == pattern(c, n) else -1

    class Inner(protocol.Protocol):
        typ = 0

        def __init__(self):
            self.cid = nb[0]
            obs.append(["new", self.cid, self.typ])

        def connectionMade(self):
            w = conns[self.cid]["wrapper"]
            obs.append(["made", self.cid, 1 if self.transport is w else 0])

        def dataReceived(self, data):
            obs.append(["data", self.cid, units(self.cid, data)])

        def connectionLost(self, r):
            obs.append(["lost", self.cid, 1 if r is reason else 0])

    class Overflow(Inner):
        typ = 1

    class Transport(StringTransport):
        cid = 0

        def write(self, data):
            obs.append(["twrite", self.cid, units(self.cid, data)])
            StringTransport.write(self, data)

        def writeSequence(self, seq):
            obs.append(["twseq", self.cid, units(self.cid, b"".join(seq))])
            StringTransport.writeSequence(self, seq)

        def loseConnection(self):
            obs.append(["tlose", self.cid, 0])
            StringTransport.loseConnection(self)

        def registerProducer(self, producer, streaming):
            obs.append(["treg", self.cid, 1 if streaming else 0])
            StringTransport.registerProducer(self, producer, streaming)

        def unregisterProducer(self):
            obs.append(["tunreg", self.cid, 0])
            StringTransport.unregisterProducer(self)

        # a real transport accepts these in any state; StringTransport refuses them once disconnecting
        def pauseProducing(self):
            obs.append(["tpause", self.cid, 0])

        def resumeProducing(self):
            obs.append(["tresume", self.cid, 0])

    class Producer:
        def __init__(self, cid):
            self.cid = cid

        def pauseProducing(self):
            obs.append(["ppause", self.cid, 0])

        def resumeProducing(self):
            obs.append(["presume", self.cid, 0])

        def stopProducing(self):
            obs.append(["pstop", self.cid, 0])

    def snapshot(e):
        """complete the event with everything observable after the call"""
        # runs of the same callback over several connections are reported in connection order
        out, i = [], 0
        while i < len(obs):
            j = i
            while j < len(obs) and obs[j][0] == obs[i][0] and obs[i][0] in ("tpause", "tresume", "ppause", "presume"):
                j += 1
            if j == i:
                j = i + 1
            out.extend(sorted(obs[i:j], key=lambda o: o[1]))
            i = j
        del obs[:]
        e["obs"] = out
        e["pend"] = [[i, k, int(round(dc.getTime() / TICK))] for (i, k, dc) in calls if dc.active()]
        e["count"] = getattr(factory, "connectionCount", NONE)
        e["nreg"] = len(factory.protocols) if hasattr(factory, "protocols") else NONE
        tr = getattr(conns.get(e["c"], {}).get("inner"), "transport", None)
        e["disc"] = 1 if (e["e"] in CONN_EVENTS and getattr(tr, "disconnecting", 0)) else 0
        ev.append(e)

    def hook(self, period, func):
        k = KINDS.get(getattr(func, "__name__", ""), 0)
        p = period / TICK
        obs.append(["later", k, int(p) if p == int(p) else -1])
        i = len(calls) + 1

        def fire():
            e = dict(e="fire", c=0, x=i, res=getattr(func, "__name__", "?"), exc="")
            try:
                func()
            except Exception as ex:          # noqa: BLE001 - the class name is the observation
                e["exc"] = type(ex).__name__
            snapshot(e)
        dc = clock.callLater(period, fire)
        calls.append((i, k, dc))
        return dc

    def lim(v, default):
        return default if v == NONE else v

    kind = cfg["kind"]
    if kind == "limit":
        factory = policies.LimitTotalConnectionsFactory()
        factory.protocol = Inner
        factory.connectionLimit = lim(cfg["lim"], None)
        factory.overflowProtocol = Overflow if cfg["ovf"] else None
    else:
        class UserFactory(protocol.Factory):
            def buildProtocol(self, a):
                p = Inner()
                if a is not addr:
                    obs.append(["badaddr", p.cid, 0])
                p.factory = self
                return p
        if kind == "throttle":
            cls = type("TF", (policies.ThrottlingFactory,), {"callLater": hook})
            factory = cls(UserFactory(), lim(cfg["lim"], sys.maxsize),
                          readLimit=None if cfg["rl"] == NONE else cfg["rl"] * UNIT,
                          writeLimit=None if cfg["wl"] == NONE else cfg["wl"] * UNIT)
        else:
            factory = policies.WrappingFactory(UserFactory())

    def is_open(c):
        return c in conns and conns[c]["state"] == "open"

    def resolve(op):
        """targets may be symbolic: ["open"|"built", k] = the k-th (mod size) such connection, oldest first"""
        if len(op) > 1 and op[0] != "adv" and not isinstance(op[1], int):
            pool = sorted(c for c in conns if conns[c]["state"] == op[1][0])
            if not pool:
                return None
            return (op[0], pool[op[1][1] % len(pool)]) + tuple(op[2:])
        return tuple(op)

    done = []
    for op in ops:
        op = resolve(op)
        if op is None:
            continue
        done.append(op)
        name = op[0]
        e = dict(e=name, c=0, x=0, res="", exc="")
        try:
            if name == "build":
                nb[0] += 1
                c = e["c"] = nb[0]
                w = factory.buildProtocol(addr)
                if w is None:
                    e["res"] = "none"
                else:
                    inner = w.wrappedProtocol
                    ok = isinstance(w, policies.ProtocolWrapper) and isinstance(inner, Inner) and inner.cid == c \
                        and w.factory is factory and (kind != "limit" or inner.factory is factory)
                    e["res"] = ("overflow" if isinstance(inner, Overflow) else "normal") if ok else "bad"
                    conns[c] = dict(wrapper=w, inner=inner, transport=None, state="built", producer=None)
            elif name == "adv":
                e["x"] = op[1]
                snapshot(e)                      # the clock jump itself; the calls it runs log their own events
                clock.advance(op[1] * TICK)
                continue
            elif name == "end":
                pass
            else:
                c = e["c"] = op[1]
                if name == "connect":
                    if c not in conns or conns[c]["state"] != "built":
                        continue
                    t = conns[c]["transport"] = Transport()
                    t.cid = c
                    conns[c]["state"] = "open"
                    conns[c]["wrapper"].makeConnection(t)
                elif not is_open(c):
                    continue
                elif name == "data":
                    e["x"] = op[2]
                    conns[c]["wrapper"].dataReceived(pattern(c, op[2]))
                elif name == "write":
                    e["x"] = op[2]
                    conns[c]["inner"].transport.write(pattern(c, op[2]))
                elif name == "wseq":
                    e["x"] = op[2]
                    d = pattern(c, op[2])
                    conns[c]["inner"].transport.writeSequence([d[:UNIT], d[UNIT:]])
                elif name == "lose":
                    conns[c]["inner"].transport.loseConnection()
                elif name == "regprod":
                    if conns[c]["producer"] is not None:
                        continue
                    conns[c]["producer"] = Producer(c)
                    conns[c]["inner"].transport.registerProducer(conns[c]["producer"], True)
                elif name == "unregprod":
                    if conns[c]["producer"] is None:
                        continue
                    conns[c]["producer"] = None
                    conns[c]["inner"].transport.unregisterProducer()
                elif name == "lost":
                    conns[c]["state"] = "lost"
                    conns[c]["wrapper"].connectionLost(reason)
                else:
                    raise ValueError(name)
        except Exception as ex:                  # noqa: BLE001 - the class name is the observation
            e["exc"] = type(ex).__name__
        snapshot(e)
    return {"cfg": cfg, "ops": [list(o) for o in done], "ev": ev}


def mkcfg(kind, lim=NONE, ovf=False, rl=NONE, wl=NONE):
    return {"kind": kind, "lim": lim, "ovf": ovf, "rl": rl, "wl": wl}


def exhaustive(cfg, alphabet, length):
    """every history of exactly `length` symbols (prefixes are validated on the way), deduplicated by events;
    a symbol is one op or a list of ops"""
    import itertools
    import json
    seen, out = set(), []
    for combo in itertools.product(alphabet, repeat=length):
        ops = []
        for sym in combo:
            ops.extend(sym if isinstance(sym, list) else [sym])
        t = run_history(cfg, ops + [("end",)])
        key = json.dumps(t["ev"], sort_keys=True)
        if key not in seen:
            seen.add(key)
            out.append(t)
    return out


B, CN, LO, LN = ("build",), ("connect", ["built", -1]), ("lost", ["open", 0]), ("lost", ["open", -1])
BC = [B, CN]
# (cfg, alphabet, word length quick, word length thorough)
ALPHABETS = [
    (mkcfg("limit", 1, True), [B, CN, LO, LN, ("data", ["open", -1], 1), ("lose", ["open", 0])], 4, 5),
    (mkcfg("limit", 2, False), [B, CN, LO, LN, ("write", ["open", -1], 2)], 5, 6),
    (mkcfg("throttle", 1, rl=1), [B, CN, LO, ("data", ["open", 0], 3), ("adv", 2)], 4, 6),
    (mkcfg("throttle", NONE, rl=1), [BC, LO, ("data", ["open", 0], 3), ("adv", 2)], 6, 7),       # two sessions (ODDITY 3)
    (mkcfg("throttle", NONE, rl=2), [BC, LO, ("data", ["open", 0], 5), ("adv", 2), ("adv", 3)], 5, 6),   # overlapping throttles
    (mkcfg("throttle", NONE, rl=2, wl=1), [BC, LO, ("data", ["open", -1], 5), ("write", ["open", 0], 3),
                                           ("regprod", ["open", 0]), ("adv", 2)], 4, 5),
    (mkcfg("throttle", 2, wl=1), [BC, LO, ("wseq", ["open", 0], 2), ("regprod", ["open", -1]),
                                  ("unregprod", ["open", 0]), ("adv", 2)], 5, 6),
]


def random_cfg(rng):
    r = rng.random()
    if r < 0.3:
        return mkcfg("limit", rng.choice([NONE, 0, 1, 2, 3]), rng.random() < 0.6)
    if r < 0.92:
        return mkcfg("throttle", rng.choice([NONE, NONE, 0, 1, 2, 3]), False, rng.choice([NONE, 1, 1, 2]), rng.choice([NONE, 1, 2]))
    return mkcfg("wrap")


def random_ops(rng, n):
    ops = []
    for _ in range(n):
        r = rng.random()
        k = rng.randrange(8)
        if r < 0.16:
            ops.append(("build",))
            if rng.random() < 0.8:
                ops.append(("connect", ["built", -1]))
        elif r < 0.20:
            ops.append(("connect", ["built", k]))
        elif r < 0.38:
            ops.append(("data", ["open", k], rng.choice([1, 1, 2, 3, 4, 5, 7])))
        elif r < 0.48:
            ops.append((rng.choice(["write", "wseq"]), ["open", k], rng.choice([1, 2, 3, 4, 6])))
        elif r < 0.55:
            ops.append(("regprod", ["open", k]))
        elif r < 0.58:
            ops.append(("unregprod", ["open", k]))
        elif r < 0.61:
            ops.append(("lose", ["open", k]))
        elif r < 0.72:
            ops.append(("lost", ["open", k]))
        elif r < 0.76:
            ops.extend([("connect", ["built", 0]), ("lost", ["open", 0])] * 3)      # (mostly) end the session
        else:
            ops.append(("adv", rng.choice([0, 1, 1, 2, 2, 2, 3, 4, 5])))
    ops.append(("end",))
    return ops


def fingerprint(t, x):
    e = t["ev"][x.reached] if x.reached < len(t["ev"]) else {"e": "end-of-trace"}
    return "policies/%s/%s%s" % (t["cfg"]["kind"], e["e"], ("/" + e["exc"]) if e.get("exc") else "")


def report(ctx, traces, rej):
    for x in rej[:40]:
        t = traces[x.idx]
        e = t["ev"][x.reached] if x.reached < len(t["ev"]) else None
        ctx.violation(fingerprint(t, x),
                      "policies (%s) execution not explained by Policies.tla at event %d: %s" % (t["cfg"], x.reached, e),
                      dict(cfg=t["cfg"], ops=t["ops"]))


def run(ctx):
    from harness.core import MachineryError
    th = not ctx.quick
    ctx.mc("PoliciesMC", ctx.pick("PoliciesMC.cfg", "PoliciesMC.thorough.cfg"), label="all factories, all operations")
    ctx.mc("PoliciesMC", ctx.pick("PoliciesMC.rd.cfg", "PoliciesMC.rd.thorough.cfg"), coverage=False, label="ThrottlingFactory reads, two sessions")
    ctx.mc("PoliciesMC", ctx.pick("PoliciesMC.wr.cfg", "PoliciesMC.wr.thorough.cfg"), coverage=False, label="ThrottlingFactory writes and producers")
    ctx.require_actions("PoliciesMC", ["MBuild", "MConnect", "MData", "MWrite", "MWseq", "MLose", "MRegProd", "MUnregProd",
                                       "MLost", "MAdv", "MFire"])
    for cfgfile, what in [("PoliciesMC.reach.cfg", "cancel blows up then a second chain of checks starts (ODDITY 3)")] + \
                         ([("PoliciesMC.reach2.cfg", "an orphaned unthrottle call clears the newer id (ODDITY 4)")] if th else []):
        r = ctx.mc("PoliciesMC", cfgfile, must_pass=False, coverage=False, label="vacuity: reachable: " + what)
        if r.ok or r.kind != "invariant":
            raise MachineryError("vacuity: %s expected reachable, got ok=%s kind=%s" % (what, r.ok, r.kind))

    traces = []
    for cfg, alphabet, lq, lt in ALPHABETS:
        got = exhaustive(cfg, alphabet, ctx.pick(lq, lt))
        ctx.log("exhaustive: %s alphabet %d, words of %d -> %d distinct histories" % (cfg, len(alphabet), ctx.pick(lq, lt), len(got)))
        traces.extend(got)
    nshort = len(traces)
    for _ in range(ctx.pick(1200, 15000)):
        traces.append(run_history(random_cfg(ctx.rng), random_ops(ctx.rng, ctx.rng.randint(6, 40))))
    ctx.note_traces(traces)
    ctx.extra["exhaustive_short_histories"] = nshort
    ctx.extra["events"] = sum(len(t["ev"]) for t in traces)
    ctx.extra["executions_with_swallowed_connectionLost"] = sum(1 for t in traces if any(e["exc"] and e["e"] == "lost" for e in t["ev"]))
    ctx.extra["executions_with_write_throttle_crash"] = sum(1 for t in traces if any(e["exc"] and e["e"] == "fire" for e in t["ev"]))
    ctx.extra["executions_with_throttling"] = sum(1 for t in traces if any(o[0] in ("tpause", "ppause") for e in t["ev"] for o in e["obs"]))
    rej = ctx.validate("PoliciesTrace", traces, shard_size=ctx.pick(1000, 2500))
    report(ctx, traces, rej)

    def mutate(t, rng):
        i = rng.randrange(len(t["ev"]))
        e = t["ev"][i]
        how = rng.randrange(4)
        if how == 0 and e["obs"]:
            del e["obs"][rng.randrange(len(e["obs"]))]
        elif how == 1 and e["pend"]:
            del e["pend"][rng.randrange(len(e["pend"]))]
        elif how == 2:
            e["nreg"] += 1
        else:
            e["count"] += 1
        return t
    bad = {x.idx for x in rej}
    good = [t for i, t in enumerate(traces) if i not in bad and i >= nshort] or [t for i, t in enumerate(traces) if i not in bad]
    if good:
        ctx.selftest_rejects("PoliciesTrace", good[:200], mutate, n=12)
    else:
        ctx.log("selftest skipped: no accepted trace to corrupt")


def replay(ctx, obj):
    t = run_history(obj["cfg"], [tuple(o) for o in obj["ops"]])
    for e in t["ev"]:
        print(e)
    for x in ctx.validate("PoliciesTrace", [t]):
        ctx.violation(fingerprint(t, x), "rejected at %d" % x.reached, dict(cfg=t["cfg"], ops=t["ops"]))
