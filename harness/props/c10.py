"""C10 -- LoopingCall keeps cadence without overlap and counts skipped intervals.

Spec:     specs/Looping.tla (+ LoopingMC exhaustive TLC, LoopingTrace trace validation, LoopingSim spec->code)
Binding:  real twisted.internet.task.LoopingCall (plain and withCount) on a real task.Clock.  Times are
          integer ticks scaled by a dyadic unit (2**-k), so every float operation in the real code is exact.
          One event per public call (start / clock.advance / firing the Deferred the function returned /
          stop / reset), carrying what a user observes during that call: every invocation of the function
          (clock reading, count argument, how the function then behaves) and every result delivered to the
          Deferred returned by start().  TLC decides.
"""
import itertools

META = dict(
    id="C10",
    specs=["Looping.tla", "LoopingMC.tla", "LoopingTrace.tla", "LoopingSim.tla"],   # LoopingMC runs with LoopingMC.cfg and LoopingMCLoose.cfg
    technique="TLA+ spec of LoopingCall on a stepped clock (TLC exhaustive over intervals 1..3, now/withCount flags, "
              "all advance patterns up to the horizon) + TLC trace validation of real LoopingCall/task.Clock executions "
              "(exhaustive short histories, seeded random long ones, TLC-generated behaviours replayed)",
    level_text="TLC checks on the specification, for every history up to the horizon, that the function is never called "
               "while a previous call's Deferred is unfired, that each later call is due at the first boundary strictly "
               "after the previous completion and runs in the first advance reaching it, that withCount counts sum to the "
               "boundaries elapsed, and that start()'s Deferred fires exactly once with no call afterwards; every recorded "
               "execution of the real LoopingCall is validated by TLC as a behaviour of that specification with every "
               "logged call time, count and Deferred result matched.",
    level_note="Trusted: TLC, task.Clock as the controlled clock (C09 checks it), the adapter's logging. Times are dyadic so "
               "float rounding in the real arithmetic is exact; non-dyadic intervals (rounding drift) are not decided. "
               "interval=0 and restarting a stopped loop are outside the property, and so is reset(): histories containing "
               "reset() are generated, but from the first reset on only no-overlap, no-call-after-stop/failure and "
               "start()-Deferred-exactly-once are decided (differences in call times / counts after a reset are reported as "
               "impl_drift). Where the property is silent (when start()'s Deferred fires if stop() is called during an "
               "outstanding call) the spec accepts any of the reasonable outcomes.",
    design_ref="2.4 C10",
    rule="history = start + sequence of advance(d)/fire(ok|fail)/stop/reset on one LoopingCall with a script of function "
         "behaviours; distinct = hash of (cfg, events); non-trivial = at least two different event kinds and at least one call",
)


class Boom(Exception):
    pass


def run_history(cfg, ops, behs):
    """Run ops on a real LoopingCall driven by a real task.Clock; return the trace dict.
    cfg: iv (ticks), nowFlag, wc, t0 (ticks), k (unit = 2**-k seconds per tick).
    ops: ("adv", d) | ("fire", ok) | ("stop",) | ("reset",); start is implicit and first.
    behs: behaviour of the function at its 1st, 2nd, ... invocation ("ret" | "raise" | "defer", optionally prefixed
          with "stop": the function first calls stop() on its own loop); "ret" when exhausted."""
    from twisted.internet import task, defer

    cfg = dict(cfg)
    cfg.setdefault("strict", False)     # the verdict does not extend to call times / counts after a reset() (see Looping.tla)
    unit = 2.0 ** -cfg["k"]
    clock = task.Clock()
    if cfg["t0"]:
        clock.advance(cfg["t0"] * unit)
    calls = []      # invocations of the function during the current public call
    sdl = []        # results delivered to start()'s Deferred during the current public call
    inner = []      # Deferreds returned by the function, not yet fired
    ncall = [0]

    def f(*args):
        t = clock.seconds() / unit
        if t != int(t):
            raise RuntimeError("non-integral clock reading %r" % (t,))
        b = behs[ncall[0]] if ncall[0] < len(behs) else "ret"
        ncall[0] += 1
        c = 0
        if cfg["wc"]:
            c = args[0] if len(args) == 1 and isinstance(args[0], int) and 0 <= args[0] < 2 ** 30 else -1
        calls.append({"t": int(t), "c": c, "b": b})
        if b.startswith("stop"):
            lc.stop()           # the function stops its own loop, then returns / raises / returns a Deferred
            b = b[4:]
        if b == "raise":
            raise Boom()
        if b == "defer":
            d = defer.Deferred()
            inner.append(d)
            return d
        return None

    lc = task.LoopingCall.withCount(f) if cfg["wc"] else task.LoopingCall(f)
    lc.clock = clock

    def on_ok(r):
        sdl.append("self" if r is lc else "other")

    def on_err(fl):
        sdl.append("fail" if fl.check(Boom) else "fail:" + fl.type.__name__)

    ev = []

    def emit(e, res, **kw):
        rec = {"e": e, "res": res, "calls": [dict(c) for c in calls], "sd": list(sdl)}
        rec.update(kw)
        ev.append(rec)
        del calls[:]
        del sdl[:]

    try:
        d = lc.start(cfg["iv"] * unit, now=cfg["nowFlag"])
        d.addCallbacks(on_ok, on_err)
        res = "ok"
    except Exception as e:
        res = "EXC:" + type(e).__name__
    emit("start", res)
    done_ops = []
    for op in ops:
        if op[0] == "adv":
            try:
                clock.advance(op[1] * unit)
                res = "ok"
            except Exception as e:
                res = "EXC:" + type(e).__name__
            emit("adv", res, d=op[1])
        elif op[0] == "fire":
            if not inner:
                continue        # nothing to fire: not an action
            dd = inner.pop(0)
            try:
                if op[1]:
                    dd.callback(None)
                else:
                    dd.errback(Boom())
                res = "ok"
            except Exception as e:
                res = "EXC:" + type(e).__name__
            emit("fire", res, ok=bool(op[1]))
        elif op[0] == "stop":
            try:
                lc.stop()
                res = "ok"
            except Exception as e:
                res = type(e).__name__
            emit("stop", res)
        elif op[0] == "reset":
            try:
                lc.reset()
                res = "ok"
            except Exception as e:
                res = type(e).__name__
            emit("reset", res)
        else:
            raise ValueError(op)
        done_ops.append(list(op))
    return {"cfg": cfg, "ops": done_ops, "behs": list(behs[:ncall[0]]), "ev": ev}


ALPHA = [("adv", 1), ("adv", 2), ("adv", 5), ("fire", True), ("fire", False), ("stop",), ("reset",)]
BEH_PATTERNS = [("ret",) * 8, ("defer",) * 8, ("ret", "defer", "raise"), ("defer", "ret", "ret", "raise"),
                ("ret", "stopdefer"), ("defer", "stopret"), ("ret", "ret", "stopraise")]


def exhaustive(depth, ivs):
    for iv, nf, wc in itertools.product(ivs, (True, False), (False, True)):
        cfg = {"iv": iv, "nowFlag": nf, "wc": wc, "t0": 2, "k": 1}
        for ops in itertools.product(ALPHA, repeat=depth):
            for bp in BEH_PATTERNS:
                yield cfg, list(ops), list(bp)


def random_history(rng):
    iv = rng.choice([1, 1, 2, 2, 3, 3, 4, 5, 6, 8])
    cfg = {"iv": iv, "nowFlag": rng.random() < 0.5, "wc": rng.random() < 0.5,
           "t0": rng.choice([0, 0, 1, 3, 7, 100]), "k": rng.choice([0, 1, 2, 4])}
    n = rng.randint(6, 40)
    ops = []
    p_stop = rng.choice([0.0, 0.02, 0.05])
    p_reset = rng.choice([0.0, 0.05, 0.15])
    for _ in range(n):
        r = rng.random()
        if r < p_stop:
            ops.append(("stop",))
        elif r < p_stop + p_reset:
            ops.append(("reset",))
        elif r < p_stop + p_reset + 0.25:
            ops.append(("fire", rng.random() < 0.85))
        else:
            m = rng.random()
            if m < 0.35:
                d = rng.randint(1, max(1, iv - 1))           # sub-interval step
            elif m < 0.55:
                d = iv                                       # exactly one interval
            elif m < 0.85:
                d = rng.randint(1, 2 * iv + 1)
            else:
                d = rng.randint(2 * iv, 7 * iv + 3)          # jump over many intervals
            ops.append(("adv", d))
    p_def = rng.choice([0.0, 0.3, 0.6])
    p_raise = rng.choice([0.0, 0.03, 0.1])
    p_stopin = rng.choice([0.0, 0.0, 0.08])       # the function stops the loop from inside
    behs = []
    for _ in range(n + 1):
        r = rng.random()
        b = "raise" if r < p_raise else "defer" if r < p_raise + p_def else "ret"
        behs.append("stop" + b if rng.random() < p_stopin else b)
    return cfg, ops, behs


def from_behaviour(b):
    """A TLC-generated behaviour of LoopingSim -> (cfg, ops, behs)."""
    cfg = dict(b["cfg"])
    cfg["k"] = 2
    cfg["strict"] = False
    ops, behs = [], []
    for h in b["hist"]:
        for c in h["calls"]:
            behs.append(c["b"])
        if h["e"] == "adv":
            ops.append(("adv", h["d"]))
        elif h["e"] == "fire":
            ops.append(("fire", h["ok"]))
        elif h["e"] in ("stop", "reset"):
            ops.append((h["e"],))
    return cfg, ops, behs


def mutate(t, rng):
    """Corrupt one logged field / drop an event (binding self-test)."""
    evs = t["ev"]
    withcall = [i for i, e in enumerate(evs) if e["calls"]]
    withsd = [i for i, e in enumerate(evs) if e["sd"]]
    r = rng.random()
    if withcall and r < 0.3:
        evs[rng.choice(withcall)]["calls"][0]["t"] += 1            # wrong time observed
    elif withcall and r < 0.5 and t["cfg"]["wc"] and not any(e["e"] == "reset" for e in evs):
        evs[rng.choice(withcall)]["calls"][0]["c"] += 1            # wrong count
    elif withcall and r < 0.65:
        i = rng.choice(withcall)
        evs[i]["calls"] = []                                      # a due call that did not happen
    elif withsd and r < 0.8:
        i = rng.choice(withsd)
        evs[i]["sd"] = evs[i]["sd"] + evs[i]["sd"]                 # start()'s Deferred fired twice
    elif withcall and len(evs) > 2:
        i = rng.choice(withcall)
        quiet = [j for j, e in enumerate(evs) if e["e"] == "adv" and not e["calls"] and j > 0]
        if not quiet:
            return None
        j = rng.choice(quiet)
        evs[j]["calls"] = [dict(evs[i]["calls"][0], t=evs[i]["calls"][0]["t"])]   # a call nobody scheduled
    else:
        return None
    return t


def fingerprint(trace, rej, count_only=False):
    """Names the event that could not be explained and the situation it occurred in:
    public call / what was observed during it / plain or withCount / start mode / context."""
    evs = trace["ev"]
    if rej.reached >= len(evs):
        return "end"
    e = evs[rej.reached]
    prior = evs[:rej.reached]
    kinds = []
    if _has_reset({"ev": prior}):
        kinds.append("afterReset")
    if any(x["sd"] for x in prior):
        kinds.append("afterStartDFired")
    outstanding = sum(1 for x in prior for c in x["calls"] if c["b"].endswith("defer")) - sum(1 for x in prior if x["e"] == "fire")
    if outstanding > 0:
        kinds.append("innerOutstanding")
    what = "call" if e["calls"] else ("sd" if e["sd"] else "nocall")
    if count_only:
        what = "countOnly"      # TLC accepts the same execution once the count arguments are ignored
    mode = "" if count_only else ("/now" if trace["cfg"]["nowFlag"] else "/later")
    return "%s/%s/%s%s%s" % (e["e"], what, "wc" if trace["cfg"]["wc"] else "plain", mode, ("/" + "+".join(kinds)) if kinds else "")


def _has_reset(t):
    return any(e["e"] == "reset" and e["res"] == "ok" for e in t["ev"])


def _strict(t):
    import copy
    u = copy.deepcopy(t)
    u["cfg"]["strict"] = True
    return u


def _reset_drift(ctx, traces, bad):
    """reset() is outside property C10: where the real code differs, after a reset, from the re-based grid / count rule that
    Looping.tla describes under cfg.strict, that is recorded in the evidence (impl_drift), never reported as a violation."""
    cand = [t for i, t in enumerate(traces) if i not in bad and _has_reset(t)]
    ctx.extra["histories_with_reset"] = len(cand)
    if not cand:
        return
    strict = [_strict(t) for t in cand]
    rej = ctx.validate("LoopingTrace", strict, shard_size=4000, count=False)
    count_only = 0
    wc = [x for x in rej if strict[x.idx]["cfg"]["wc"]]
    if wc:
        again = ctx.validate("LoopingTrace", [_without_counts(strict[x.idx]) for x in wc], count=False)
        still = {r.idx: r.reached for r in again}
        count_only = sum(1 for j, x in enumerate(wc) if j not in still or still[j] > x.reached)
    ctx.impl_drift = len(rej)
    ctx.extra["reset_histories_differing_from_rebased_grid_model"] = len(rej)
    ctx.extra["reset_histories_differing_in_count_argument_only"] = count_only
    if rej:
        x = rej[0]
        t = strict[x.idx]
        ctx.extra["reset_drift_example"] = dict(cfg=t["cfg"], ops=t["ops"], behs=t["behs"], at_event=x.reached,
                                                event=t["ev"][x.reached] if x.reached < len(t["ev"]) else None)
    ctx.log("reset() (outside the property): %d histories, %d differ from the re-based-grid model (%d in the count argument only) -> impl_drift"
            % (len(cand), len(rej), count_only))


def _without_counts(t):
    """The same execution with the count arguments erased (cfg.wc off): lets TLC tell a wrong count from wrong timing."""
    import copy
    u = copy.deepcopy(t)
    u["cfg"]["wc"] = False
    for e in u["ev"]:
        for c in e["calls"]:
            c["c"] = 0
    return u


def _report(ctx, traces, rej, label):
    wc = [x for x in rej if traces[x.idx]["cfg"]["wc"]]
    count_only = set()
    if wc:
        again = ctx.validate("LoopingTrace", [_without_counts(traces[x.idx]) for x in wc], count=False)
        still = {r.idx: r.reached for r in again}
        for j, x in enumerate(wc):
            if j not in still or still[j] > x.reached:
                count_only.add(x.idx)
    for x in rej:
        t = traces[x.idx]
        ev = t["ev"][x.reached] if x.reached < len(t["ev"]) else None
        ctx.violation(fingerprint(t, x, x.idx in count_only),
                      "real LoopingCall execution (%s) not explained by Looping.tla at event %d: %s (cfg %s)%s" % (
                          label, x.reached, ev, t["cfg"], "; timing is accepted, only the count argument is not" if x.idx in count_only else ""),
                      dict(cfg=t["cfg"], ops=t["ops"], behs=t["behs"], rejected_at=x.reached))


def run(ctx):
    from harness.core import MachineryError
    # strict: the property on histories without reset() plus the re-based-grid reading of reset(); loose: what remains decided
    # after a reset() (no overlap, no call after the start Deferred fired, that Deferred exactly once)
    for cfgname, label in ((ctx.pick("LoopingMC.cfg", "LoopingMC.thorough.cfg"), "strict"),
                           (ctx.pick("LoopingMCLoose.cfg", "LoopingMCLoose.thorough.cfg"), "after-reset clauses only")):
        r = ctx.mc("LoopingMC", cfgname, label=label)
        if not r.ok:
            raise MachineryError("Looping spec violates its own invariants (%s): %s" % (label, r.error))
    ctx.require_actions("LoopingMC", ["StartNow", "StartLater", "AdvanceCall", "AdvanceQuiet", "FireOk", "FireFail",
                                      "StopScheduled", "StopInCall", "StopNotRunning",
                                      "ResetScheduled", "ResetInCall", "ResetNotRunning"])
    traces = []
    seen = set()
    depth = ctx.pick(3, 4)
    for cfg, ops, behs in exhaustive(depth, ctx.pick((1, 2), (1, 2, 3))):
        t = run_history(cfg, ops, behs)
        key = repr((sorted(cfg.items()), t["ev"]))
        if key in seen:
            continue        # a fire with nothing outstanding is not an action; unused behaviours do not matter
        seen.add(key)
        traces.append(t)
    ctx.exhaustive = True
    ctx.extra["exhaustive_depth"] = depth
    ctx.extra["exhaustive_distinct_histories"] = len(traces)
    for _ in range(ctx.pick(2500, 60000)):
        traces.append(run_history(*random_history(ctx.rng)))
    # spec -> code
    behs = ctx.simulate("LoopingSim", "LoopingSim.cfg", num=ctx.pick(60, 600), depth=15)
    drift = 0
    for b in behs:
        t = run_history(*from_behaviour(b))
        keys = ("e", "calls", "sd")
        if [{k: e[k] for k in keys} for e in t["ev"]] != [{k: h[k] for k in keys} for h in b["hist"]][:len(t["ev"])]:
            drift += 1
        traces.append(t)
    ctx.extra["spec_behaviours_replayed"] = len(behs)
    ctx.extra["spec_behaviours_other_allowed_outcome"] = drift   # spec is nondeterministic where the property is silent
    for t in traces:
        kinds = {e["e"] for e in t["ev"]}
        ctx.note_trace(t, nontrivial=len(kinds) >= 2 and any(e["calls"] for e in t["ev"]))
    ctx.log("recorded %d real executions" % len(traces))
    rej = ctx.validate("LoopingTrace", traces, shard_size=4000)
    _report(ctx, traces, rej, "recorded")
    bad = {x.idx for x in rej}
    _reset_drift(ctx, traces, bad)
    good = [t for i, t in enumerate(traces) if i not in bad and not _has_reset(t)]
    ctx.selftest_rejects("LoopingTrace", good[-400:], mutate, n=24)


def replay(ctx, obj):
    t = run_history(obj["cfg"], [tuple(o) for o in obj["ops"]], list(obj["behs"]))
    ctx.note_trace(t)
    rej = ctx.validate("LoopingTrace", [t])
    _report(ctx, [t], rej, "replayed")
    for e in t["ev"]:
        print(e)
