"""C46 -- endpoint description quoting round-trips.

Spec:     specs/Strports.tla (property Holds + description grammar machine), StrportsMC (exhaustive TLC,
          reference quoter = property satisfiable; quoter-as-coded = Impl layer, every behaviour printed),
          StrportsTrace (trace validation; StrportsTraceRef.cfg additionally compares the real parse with
          the grammar machine -- diagnostic only).
Binding:  real quoteStringArgument, and the real parser reached by three routes: endpoints._parse,
          serverFromString and clientFromString with a recording endpoint-parser plugin (the args / kwargs a
          plugin author receives).  One trace = quote event + parse event; TLC decides.
"""
import itertools

META = dict(
    id="C46",
    specs=["Strports.tla", "StrportsMC.tla", "StrportsTrace.tla"],
    technique="TLA+ grammar machine for endpoint descriptions; TLC exhaustive over all texts <= L over {':','=','\\\\',ASCII,non-ASCII} in every positional/keyword slot of every 3-slot layout (reference quoter: property holds; quoter as coded: behaviours printed and replayed on the real code); TLC trace validation of real quoteStringArgument + _parse / serverFromString / clientFromString runs (exhaustive small, random long)",
    level_text="TLC checks on the specification that a quoter escaping ':', '=' and '\\' makes every text round-trip through the description grammar in every slot, and decides for every recorded run of the real quoteStringArgument and the real parser (three routes) whether the parsed value at the chosen position equals the text.",
    level_note="Trusted: TLC, the adapter's recording of the arguments received by the plugin parser. Only str descriptions (quoteStringArgument is documented for str). The built-in tcp/ssl/unix argument converters (int(), file loading) are not decided here. Texts longer than the enumerated length are sampled.",
    design_ref="2.6 C46",
    rule="case = (layout of 1..5 slots each positional/keyword, target slot, text, route); distinct = hash of the trace; non-trivial = text contains at least one of ':', '=', '\\\\'",
)

COLON, EQUALS, BSLASH = 58, 61, 92
CLASS_ALPHA = [COLON, EQUALS, BSLASH, 97, 233]
ROUTES = ["parse", "server", "client"]
PREFIX = "vrf"


def cls(c):
    return {COLON: "C", EQUALS: "E", BSLASH: "B"}.get(c, "X" if c < 128 else "O")


def cps(s):
    return [ord(ch) for ch in s]


def mkcfg(layout, target, route):
    n = len(layout)
    return dict(layout=list(layout), target=target,
                keys=[cps("k%d" % (i + 1)) if layout[i] == "k" else [] for i in range(n)],
                fill=[cps("f%d" % (i + 1)) for i in range(n)],
                prefix=cps(PREFIX), off=1 if route == "parse" else 0, quoter="real", route=route)


# built-in parsers reached through serverFromString / clientFromString with a MemoryReactor; the value is observed
# in the reactor call the endpoint makes (listenTCP interface, listenUNIX address, connectTCP host, connectUNIX path)
BUILTIN = {
    # route: (prefix, layout, keys, fill, target, side)
    "tcp-server-kw":   ("tcp",  ["p", "k"], ["", "interface"], ["0", ""], 2, "server"),
    "unix-server-pos": ("unix", ["p"],      [""],              [""],      1, "server"),
    "tcp-client-kw":   ("tcp",  ["k", "k"], ["host", "port"],  ["", "80"], 1, "client"),
    "tcp-client-pos":  ("tcp",  ["p", "p"], ["", ""],          ["", "80"], 1, "client"),
    "unix-client-kw":  ("unix", ["k"],      ["path"],          [""],      1, "client"),
    "unix-client-pos": ("unix", ["p"],      [""],              [""],      1, "client"),
}


def mkcfg_builtin(route):
    prefix, layout, keys, fill, target, side = BUILTIN[route]
    return dict(layout=list(layout), target=target, keys=[cps(k) for k in keys], fill=[cps(f) for f in fill],
                prefix=cps(prefix), off=0, quoter="real", route=route)


def _run_builtin(cfg, desc):
    """Returns (args, kw) as the built-in parser handed them on, read back from the MemoryReactor call."""
    from twisted.internet import endpoints
    from twisted.internet.protocol import Factory
    try:
        from twisted.internet.testing import MemoryReactor
    except ImportError:
        from twisted.test.proto_helpers import MemoryReactor

    route = cfg["route"]
    side = BUILTIN[route][5]
    r = MemoryReactor()
    if side == "server":
        endpoints.serverFromString(r, desc).listen(Factory())
    else:
        endpoints.clientFromString(r, desc).connect(Factory())
    if route == "tcp-server-kw":
        (port, _f, _b, iface), = r.tcpServers
        return [str(port)], {"interface": iface}
    if route == "unix-server-pos":
        (addr, _f, _b, _m, _w), = r.unixServers
        return [addr], {}
    if route == "tcp-client-kw":
        (host, port, _f, _t, _b), = r.tcpClients
        return [], {"host": host, "port": str(port)}
    if route == "tcp-client-pos":
        (host, port, _f, _t, _b), = r.tcpClients
        return [host, str(port)], {}
    if route == "unix-client-kw":
        (path, _f, _t, _c), = r.unixClients
        return [], {"path": path}
    (path, _f, _t, _c), = r.unixClients
    return [path], {}


class _Recorder:
    """Endpoint string-parser plugin that records what it is given."""
    prefix = PREFIX

    def __init__(self):
        self.got = None

    def parseStreamServer(self, reactor, *args, **kwargs):
        self.got = (list(args), dict(kwargs))
        return self

    def parseStreamClient(self, reactor, *args, **kwargs):
        self.got = (list(args), dict(kwargs))
        return self


def _conv(args, kw):
    for a in list(args) + list(kw.keys()) + list(kw.values()):
        if not isinstance(a, str):
            raise TypeError("non-str argument %r" % (a,))
    return [cps(a) for a in args], [[cps(k), cps(v)] for k, v in kw.items()]


def run_case(cfg, text):
    """text: list of code points.  Returns the trace dict."""
    from twisted.internet import endpoints

    t = "".join(chr(c) for c in text)
    ev = []
    try:
        q = endpoints.quoteStringArgument(t)
        ev.append({"e": "quote", "text": list(text), "q": cps(q), "exc": ""})
    except Exception as e:
        ev.append({"e": "quote", "text": list(text), "q": [], "exc": type(e).__name__})
        return {"cfg": cfg, "ev": ev}
    parts = ["".join(map(chr, cfg["prefix"]))]
    for i, kind in enumerate(cfg["layout"]):
        val = q if i + 1 == cfg["target"] else "".join(map(chr, cfg["fill"][i]))
        parts.append(("".join(map(chr, cfg["keys"][i])) + "=" if kind == "k" else "") + val)
    desc = ":".join(parts)
    args, kw, exc = [], [], ""
    try:
        if cfg["route"] == "parse":
            a, k = endpoints._parse(desc)
        elif cfg["route"] in BUILTIN:
            a, k = _run_builtin(cfg, desc)
        else:
            rec = _Recorder()
            saved = endpoints.getPlugins
            endpoints.getPlugins = lambda iface, *a_, **k_: [rec]
            try:
                if cfg["route"] == "server":
                    endpoints.serverFromString(object(), desc)
                else:
                    endpoints.clientFromString(object(), desc)
            finally:
                endpoints.getPlugins = saved
            if rec.got is None:
                raise RuntimeError("plugin parser not called")
            a, k = rec.got
        args, kw = _conv(a, k)
    except Exception as e:
        exc = type(e).__name__
    ev.append({"e": "parse", "desc": cps(desc), "args": args, "kw": kw, "exc": exc})
    return {"cfg": cfg, "ev": ev}


def layouts(n):
    return list(itertools.product("pk", repeat=n))


def texts_upto(alpha, L):
    for n in range(L + 1):
        for t in itertools.product(alpha, repeat=n):
            yield list(t)


RICH = [COLON, EQUALS, BSLASH, COLON, EQUALS, BSLASH, 97, 47, 48, 32, 233, 0x20AC, 0x1F600, 0, 10, 0x7F, 0x80, 0xFF, 34, 35]


def random_case(rng):
    if rng.random() < 0.25:
        cfg = mkcfg_builtin(rng.choice(sorted(BUILTIN)))
    else:
        n = rng.randint(1, 5)
        lay = [rng.choice("pk") for _ in range(n)]
        cfg = mkcfg(lay, rng.randint(1, n), rng.choice(ROUTES))
    text = [rng.choice(RICH) for _ in range(rng.randint(0, 12))]
    return cfg, text


def clsstr(text):
    return "".join(cls(c) for c in text)


def is_subseq(a, b):
    it = iter(b)
    return all(ch in it for ch in a)


def mutate(t, rng):
    """Corrupt one logged field (binding self-test)."""
    ev = t["ev"]
    if len(ev) < 2:
        return None
    p = ev[1]
    k = t["cfg"]["layout"][t["cfg"]["target"] - 1]
    r = rng.random()
    if r < 0.4:
        # the value found at the target position differs in one character / is extended
        if k == "p":
            off = t["cfg"]["off"] + sum(1 for x in t["cfg"]["layout"][:t["cfg"]["target"]] if x == "p")
            p["args"][off - 1] = p["args"][off - 1] + [120]
        else:
            key = t["cfg"]["keys"][t["cfg"]["target"] - 1]
            for kv in p["kw"]:
                if kv[0] == key:
                    kv[1] = kv[1] + [120]
    elif r < 0.6:
        p["exc"] = "ValueError"
    elif r < 0.8:
        p["desc"] = p["desc"] + [58]
    else:
        del ev[0]          # dropped event
    return t


def _validate_and_report(ctx, traces):
    """TLC decides; rejected traces are attributed to a minimal failing text class."""
    rej = ctx.validate("StrportsTrace", traces, shard_size=ctx.pick(3000, 6000))
    rejset = {x.idx for x in rej}
    # minimal failing class strings per slot kind, computed from TLC's verdicts only
    failing = {}
    for i in rejset:
        t = traces[i]
        kind = t["cfg"]["layout"][t["cfg"]["target"] - 1]
        failing.setdefault(kind, set()).add(clsstr(t["ev"][0]["text"]))
    minimal = {}
    for kind, S in failing.items():
        minimal[kind] = sorted(s for s in S if not any(o != s and is_subseq(o, s) for o in S))
    reported = 0
    for x in rej:
        t = traces[x.idx]
        kind = t["cfg"]["layout"][t["cfg"]["target"] - 1]
        cs = clsstr(t["ev"][0]["text"])
        cause = next((mn for mn in minimal.get(kind, []) if is_subseq(mn, cs)), cs)
        stage = t["ev"][x.reached]["e"] if x.reached < len(t["ev"]) else "end"
        fp = "roundtrip/%s/%s-slot/min-text-classes=%s" % (stage, "positional" if kind == "p" else "keyword", cause or "empty")
        ctx.violation(fp, "quoteStringArgument(%r) inserted as %s argument (layout %s, target %d, route %s): description %r parsed to args=%r kw=%r exc=%r" % (
            "".join(map(chr, t["ev"][0]["text"])), "positional" if kind == "p" else "keyword", "".join(t["cfg"]["layout"]), t["cfg"]["target"], t["cfg"]["route"],
            "".join(map(chr, t["ev"][-1].get("desc", []))),
            ["".join(map(chr, a)) for a in t["ev"][-1].get("args", [])],
            {"".join(map(chr, k)): "".join(map(chr, v)) for k, v in t["ev"][-1].get("kw", [])}, t["ev"][-1].get("exc")),
            dict(cfg=t["cfg"], text=t["ev"][0]["text"], rejected_at=x.reached))
        reported += 1
    return rejset


def run(ctx):
    from harness.core import MachineryError, extract_printed
    import json

    # (a) property satisfiable on the grammar: reference quoter, exhaustive
    r = ctx.mc("StrportsMC", ctx.pick("StrportsMC.cfg", "StrportsMC.thorough.cfg"), label="reference quoter: RoundTrip invariant")
    if not r.ok:
        raise MachineryError("Strports reference quoter violates the property on the grammar: " + r.error)
    ctx.require_actions("StrportsMC", ["ExtendAny", "DoQuote", "TokEscaped", "TokColon", "TokEquals", "TokBackslash", "TokPlain", "Finish"])

    # (b) Impl layer: quoter as coded; TLC prints every completed behaviour with its prediction
    ri = ctx.mc("StrportsMC", ctx.pick("StrportsImpl.cfg", "StrportsImpl.thorough.cfg"), label="quoter as coded: behaviours printed")
    if not ri.ok:
        raise MachineryError("StrportsImpl run failed: " + ri.error)
    behs = [json.loads(j) for j in sorted({v[1] for v in extract_printed(ri.out, "BEH")})]   # sorted: TLC workers print in any order
    ctx.extra["impl_behaviours"] = len(behs)
    ctx.extra["impl_predicted_failures"] = sum(1 for b in behs if not b["ok"])

    # (c) real code: every Impl behaviour replayed on every route (this *is* the exhaustive small enumeration)
    traces = []
    pred = []
    Lr = ctx.pick(2, 4)      # plugin routes: every text up to Lr (the _parse route: every Impl behaviour)
    for b in behs:
        for route in ROUTES:
            if route != "parse" and len(b["text"]) > Lr:
                continue
            cfg = mkcfg(b["layout"], b["target"], route)
            traces.append(run_case(cfg, b["text"]))
            pred.append(b)
    ctx.extra["exhaustive_text_len_plugin_routes"] = Lr
    nimpl = len(traces)
    # built-in tcp/unix parsers (value observed at the MemoryReactor call): every text up to Lr over the class alphabet
    for route in sorted(BUILTIN):
        for text in texts_upto(CLASS_ALPHA, Lr):
            traces.append(run_case(mkcfg_builtin(route), text))
    L = ctx.pick(3, 4)
    if len(behs) != 24 * sum(len(CLASS_ALPHA) ** n for n in range(L + 1)):
        raise MachineryError("unexpected number of Impl behaviours: %d" % len(behs))
    ctx.exhaustive = True
    ctx.extra["exhaustive_text_len"] = L
    nex = len(traces)
    for _ in range(ctx.pick(1500, 30000)):
        cfg, text = random_case(ctx.rng)
        traces.append(run_case(cfg, text))
    for t in traces:
        ctx.note_trace(t, nontrivial=any(c in (COLON, EQUALS, BSLASH) for c in t["ev"][0]["text"]))
    ctx.log("recorded %d real executions (%d exhaustive)" % (len(traces), nex))

    rejset = _validate_and_report(ctx, traces)

    # Impl drift: TLC's prediction from the as-coded model vs the real outcome (not a verdict)
    drift = 0
    for i in range(nimpl):
        b, t = pred[i], traces[i]
        p = t["ev"][-1]
        real_ok = i not in rejset
        if p.get("e") == "parse" and p["exc"] == "" and not b["err"]:
            a = b["args"][1 - t["cfg"]["off"]:]
            same = p["desc"] == b["desc"] and p["args"] == a and p["kw"] == b["kw"]
        else:
            same = False
        if real_ok != b["ok"] or (b["ok"] and not same):
            drift += 1
    ctx.impl_drift += drift
    ctx.extra["impl_vs_real_mismatches"] = drift

    # diagnostic: the real parser vs the grammar machine on every description (Strict)
    good = [t for i, t in enumerate(traces) if i not in rejset]
    sample = good[:: max(1, len(good) // ctx.pick(1500, 20000))]
    rr = ctx.validate("StrportsTrace", sample, cfg="StrportsTraceRef.cfg", count=False, shard_size=ctx.pick(3000, 6000))
    ctx.extra["real_parser_vs_grammar_machine_checked"] = len(sample)
    ctx.extra["real_parser_vs_grammar_machine_mismatches"] = len(rr)
    ctx.impl_drift += len(rr)

    ctx.selftest_rejects("StrportsTrace", good[-300:], mutate, n=20)


def replay(ctx, obj):
    # the stored case plus every sub-text (so the rejection is attributed to its minimal failing text)
    text = list(obj["text"])
    subs = {tuple(text)}
    frontier = [tuple(text)]
    while frontier and len(subs) < 400:
        nxt = []
        for t in frontier:
            for i in range(len(t)):
                u = t[:i] + t[i + 1:]
                if u not in subs:
                    subs.add(u)
                    nxt.append(u)
        frontier = nxt
    traces = [run_case(obj["cfg"], text)] + [run_case(obj["cfg"], list(u)) for u in sorted(subs, key=lambda u: (len(u), u)) if list(u) != text]
    ctx.note_trace(traces[0])
    _validate_and_report(ctx, traces)
    for e in traces[0]["ev"]:
        print(e)
