"""C57 -- log observers receive every event; filters honour the namespace hierarchy; history replays the last N.

Spec:     specs/LogObs.tla (+ LogObsMC exhaustive, LogObsTrace trace validation, LogObsSim generator)
Binding:  real twisted.logger.LogPublisher with recording observers (some raising), real
          FilteringLogObserver + LogLevelFilterPredicate with recording positive/negative observers, real
          LimitedHistoryLogObserver.  One event per public call: for publish the exact sequence of deliveries the
          call made (observer, event or failure report, which failure it reports and whom it names, whether
          the observer raised); for the filter where the event went and what the predicate said; for replay
          the replayed events.  TLC decides.
"""
import itertools

META = dict(
    id="C57",
    specs=["LogObs.tla", "LogObsMC.tla", "LogObsTrace.tla", "LogObsSim.tla"],
    technique="TLA+ spec of publisher / level filter / history buffer (TLC exhaustive: all add/remove/re-add histories of <= 3 observers of every kind with the code's reporting algorithm checked against the delivery property, all filter configurations over a namespace tree, all buffer sizes) + TLC trace validation of real LogPublisher, FilteringLogObserver+LogLevelFilterPredicate and LimitedHistoryLogObserver executions (exhaustive small histories, random long ones, spec-generated behaviours)",
    level_text="TLC checks on the specification, for every history within the stated bounds, that each published event reaches every registered observer exactly once in registration order whatever raises, that every failure is reported once to every other observer (the algorithm as coded is checked against this), that the filter decision is the comparison with the level of the longest configured namespace prefix, and that the buffer holds the last N events; every recorded execution of the real LogPublisher, level filter and history observer is validated by TLC as a behaviour of that specification with every delivery, decision and replayed event matched.",
    level_note="Trusted: TLC, the adapter's recording observers. Of re-entrant observers only the one-shot kind (removes itself while it is given an event) is driven; observers that add or remove other observers or publish from inside a delivery are not. The timing of failure reports relative to other deliveries, and whether nested report failures also go to earlier culprits, are left free. Events without namespace or level (dropped by the filter by documented design) are outside the property; see notes/C57.md. Histories beyond the enumerated ones are sampled.",
    design_ref="2.10 C57",
    rule="history = sequence of addObserver/removeObserver/publish, setLogLevelForNamespace/clearLogLevels/filter(event)/logLevelForNamespace, buffer(event)/replayTo calls; distinct = hash of (cfg, events); non-trivial = at least two different call kinds",
)

NONE = -1
OKINDS = ("ok", "raise", "raiseEv", "rmself")
SEGS = ("a", "ab", "b", "A")


class Boom(Exception):
    def __init__(self, serial):
        Exception.__init__(self, serial)
        self.serial = serial


class Runner:
    def __init__(self, cfg, ctor=()):
        from twisted import logger
        self.L = logger
        self.levels = [logger.LogLevel.debug, logger.LogLevel.info, logger.LogLevel.warn, logger.LogLevel.error, logger.LogLevel.critical]
        self.cfg = cfg
        self.ev = []
        # publisher
        self.observers = {}      # id -> callable
        self.kinds = {}
        self.dl = []
        self.cur_ev = 0
        self.nev = 0
        self.pub = None
        self._ctor = list(ctor)
        self.registered = []     # the adapter's own bookkeeping of its add/remove calls (labels findings; not read by TLC)
        self.aux = {}            # event index -> registration the adapter believed in when publish started
        # filter
        self.pred = logger.LogLevelFilterPredicate(defaultLogLevel=self.levels[cfg["default"] - 1])
        self.pos, self.neg = [], []
        self.fobs = logger.FilteringLogObserver(self.pos.append, [self.pred], negativeObserver=self.neg.append)
        self.nfe = 0
        # buffer
        self.hist = logger.LimitedHistoryLogObserver(size=None if cfg["size"] == NONE else cfg["size"])
        self.nbe = 0

    # ---- publisher
    def _observer(self, oid, kd):
        r = self

        def observer(event):
            idx = len(r.dl) + 1
            if "verif_ev" in event:
                k, evid, about, bo = "ev", event["verif_ev"], 0, 0
            else:
                k, evid = "rep", r.cur_ev
                f = event.get("log_failure")
                about = getattr(getattr(f, "value", None), "serial", -1)
                bo = next((i for i, o in r.observers.items() if o is event.get("observer")), -1)
            raises = kd == "raise" or (kd == "raiseEv" and k == "ev")
            r.dl.append({"o": oid, "k": k, "ev": evid, "about": about, "bo": bo, "raised": raises})
            if kd == "rmself" and k == "ev":
                r.pub.removeObserver(observer)       # a one-shot observer: public API, from inside the delivery
                if oid in r.registered:
                    r.registered.remove(oid)
            if raises:
                raise Boom(idx)
        return observer

    def _publisher(self):
        if self.pub is None:
            self.pub = self.L.LogPublisher(*[self.observers[o] for o in self._ctor])
        return self.pub

    def _call(self, f, *a):
        try:
            return "ok", f(*a)
        except BaseException as e:
            return "EXC:" + type(e).__name__, None

    def addobs(self, o, kd):
        new = o not in self.observers
        if new:
            self.observers[o] = self._observer(o, kd)
            self.kinds[o] = kd
        if self.pub is None and new and o in self._ctor:
            res = "ok"        # handed to the constructor when the publisher is built
            if o == self._ctor[-1]:
                res, _ = self._call(self._publisher)
        else:
            res, _ = self._call(self._publisher().addObserver, self.observers[o])
        if o not in self.registered:
            self.registered.append(o)
        self.ev.append({"e": "addobs", "o": o, "kd": self.kinds[o], "res": res})

    def rmobs(self, o):
        res, _ = self._call(self._publisher().removeObserver, self.observers[o])
        if o in self.registered:
            self.registered.remove(o)
        self.ev.append({"e": "rmobs", "o": o, "res": res})

    def publish(self):
        self.nev += 1
        self.cur_ev = self.nev
        self.dl = []
        event = {"verif_ev": self.nev, "log_level": self.levels[1], "log_namespace": "verif", "log_format": "event {verif_ev}"}
        self.aux[str(len(self.ev))] = [[o, self.kinds[o]] for o in self.registered]
        res, _ = self._call(self._publisher(), event)
        self.ev.append({"e": "publish", "ev": self.nev, "res": res, "dl": self.dl})
        self.dl = []

    # ---- filter
    def setlevel(self, ns, lv):
        res, _ = self._call(self.pred.setLogLevelForNamespace, ".".join(ns), self.levels[lv - 1])
        self.ev.append({"e": "setlevel", "ns": list(ns), "lv": lv, "res": res})

    def clearlevels(self):
        res, _ = self._call(self.pred.clearLogLevels)
        self.ev.append({"e": "clearlevels", "res": res})

    def filter(self, ns, lv):
        self.nfe += 1
        event = {"log_namespace": ".".join(ns), "log_level": self.levels[lv - 1], "verif_fe": self.nfe}
        del self.pos[:], self.neg[:]
        res, _ = self._call(self.fobs, event)
        pos = sum(1 for x in self.pos if x is event) + 100 * sum(1 for x in self.pos if x is not event)
        neg = sum(1 for x in self.neg if x is event) + 100 * sum(1 for x in self.neg if x is not event)
        r2, pr = self._call(self.pred, event)
        if r2 != "ok":
            res = r2
        self.ev.append({"e": "filter", "ns": list(ns), "lv": lv, "pos": pos, "neg": neg, "no": pr is self.L.PredicateResult.no, "res": res})

    def level(self, ns):
        res, v = self._call(self.pred.logLevelForNamespace, ".".join(ns))
        lv = self.levels.index(v) + 1 if v in self.levels else 0
        self.ev.append({"e": "level", "ns": list(ns), "lv": lv, "res": res})

    # ---- buffer
    def buf(self):
        self.nbe += 1
        res, _ = self._call(self.hist, {"verif_be": self.nbe})
        self.ev.append({"e": "buf", "ev": self.nbe, "res": res})

    def replay(self):
        out = []
        res, _ = self._call(self.hist.replayTo, out.append)
        self.ev.append({"e": "replay", "dl": [e.get("verif_be", -1) for e in out], "res": res})

    def apply(self, op):
        getattr(self, op[0])(*op[1:])


def run_history(cfg, ops, ctor=0):
    """ctor: the first `ctor` ops (all new-observer additions) are given to LogPublisher's constructor."""
    ops = [tuple(tuple(x) if isinstance(x, list) else x for x in op) for op in ops]
    lead = []
    for op in ops[:ctor]:
        if op[0] == "addobs" and op[1] == len(lead) + 1:
            lead.append(op[1])
        else:
            break
    r = Runner(cfg, ctor=lead)
    for op in ops:
        r.apply(op)
    return {"cfg": cfg, "ctor": len(lead), "ops": [list(list(x) if isinstance(x, tuple) else x for x in op) for op in ops], "aux": r.aux, "ev": r.ev}


# ---------------------------------------------------------------- drivers
def pub_histories(depth, maxo):
    """Every sequence of <= depth registration changes (new observer of each kind, re-add, remove),
    with a publish after every change."""
    def rec(prefix, kinds, left):
        if prefix:
            yield prefix
        if not left:
            return
        n = len(kinds)
        if n < maxo:
            for kd in OKINDS:
                yield from rec(prefix + [("addobs", n + 1, kd), ("publish",)], kinds + [kd], left - 1)
        for o in range(1, n + 1):
            yield from rec(prefix + [("addobs", o, kinds[o - 1]), ("publish",)], kinds, left - 1)
            yield from rec(prefix + [("rmobs", o), ("publish",)], kinds, left - 1)
    for h in rec([], [], depth):
        if len(h) == 2 * depth:
            yield h


def namespaces(segs, depth):
    out = [()]
    layer = [()]
    for _ in range(depth):
        layer = [p + (s,) for p in layer for s in segs]
        out += layer
    return out


def flt_histories(rng, levels, full):
    """Every pair of level settings over the namespace tree (depth <= 2 over two confusable segments, the root
    included), each followed by a level query and filter events for every namespace of depth <= 3."""
    conf_ns = namespaces(("a", "ab"), 2)
    ev_ns = [n for n in namespaces(("a", "ab"), 3) if n]
    settings = [(n, lv) for n in conf_ns for lv in levels]
    for s1, s2 in itertools.product(settings, repeat=2):
        h = [("setlevel", s1[0], s1[1]), ("setlevel", s2[0], s2[1])]
        for n in ev_ns:
            h.append(("level", n))
            for lv in (range(1, 6) if full else rng.sample(range(1, 6), 2)):
                h.append(("filter", n, lv))
        h.append(("clearlevels",))
        h.append(("level", ()))
        h.append(("filter", rng.choice(ev_ns), rng.randint(1, 5)))
        yield h


def buf_histories(maxlen):
    for n in range(1, maxlen + 1):
        for bits in itertools.product((("buf",), ("replay",)), repeat=n):
            yield list(bits) + [("replay",)]


def random_history(rng, n, rmself=False):
    ops = []
    kinds = []
    nraise = 0
    okinds = OKINDS if rmself else OKINDS[:3]
    for _ in range(n):
        x = rng.random()
        if x < 0.40:
            y = rng.random()
            if (y < 0.35 and len(kinds) < 8) or not kinds:
                kd = rng.choice(okinds)
                if kd in ("raise", "raiseEv") and nraise >= 4:      # the nesting of reports grows factorially with raising observers
                    kd = "ok"
                nraise += kd in ("raise", "raiseEv")
                kinds.append(kd)
                ops.append(("addobs", len(kinds), kd))
            elif y < 0.50:
                o = rng.randint(1, len(kinds))
                ops.append(("addobs", o, kinds[o - 1]))
            elif y < 0.65:
                ops.append(("rmobs", rng.randint(1, len(kinds))))
            else:
                ops.append(("publish",))
        elif x < 0.80:
            y = rng.random()
            ns = tuple(rng.choice(SEGS) for _ in range(rng.choice((1, 1, 2, 2, 3, 4))))
            if y < 0.30:
                if rng.random() < 0.1:
                    ns = ()
                ops.append(("setlevel", ns[: rng.randint(0 if not ns else 1, len(ns))] if rng.random() < 0.5 else ns, rng.randint(1, 5)))
            elif y < 0.35:
                ops.append(("clearlevels",))
            elif y < 0.85:
                ops.append(("filter", ns, rng.randint(1, 5)))
            else:
                ops.append(("level", ns if rng.random() < 0.9 else ()))
        else:
            ops.append(("buf",) if rng.random() < 0.7 else ("replay",))
    ops += [("publish",), ("replay",)] if kinds else [("replay",)]
    return ops


def mutate(t, rng):
    evs = t["ev"]
    cands = [i for i, e in enumerate(evs) if e["e"] in ("publish", "filter", "level", "replay") and (e["e"] != "publish" or e["dl"])]
    if not cands:
        return None
    e = evs[rng.choice(cands)]
    if e["e"] == "publish":
        dl = e["dl"]
        r = rng.random()
        reps = [i for i, d in enumerate(dl) if d["k"] == "rep"]
        if r < 0.3 and len(dl) >= 2:
            i = rng.randrange(len(dl) - 1)
            if dl[i]["k"] == dl[i + 1]["k"] == "ev" or (dl[i]["k"] == dl[i + 1]["k"] and dl[i]["about"] == dl[i + 1]["about"]):
                dl[i]["o"], dl[i + 1]["o"] = dl[i + 1]["o"], dl[i]["o"]
                dl[i]["raised"], dl[i + 1]["raised"] = dl[i + 1]["raised"], dl[i]["raised"]      # order of two deliveries swapped
            else:
                dl.pop(i if dl[i]["k"] == "ev" else i + 1) if (dl[i]["k"] == "ev" or dl[i + 1]["k"] == "ev") else dl.append(dict(dl[i]))
        elif r < 0.55 and reps:
            dl.pop(rng.choice(reps))                  # a report lost (later `about` indices now dangle or a report is missing)
        elif r < 0.8:
            evi = [i for i, d in enumerate(dl) if d["k"] == "ev"]
            dl.append(dict(dl[rng.choice(evi)]))      # event delivered twice
        else:
            evi = [i for i, d in enumerate(dl) if d["k"] == "ev"]
            if len(evi) == len(dl):
                dl.pop(rng.choice(evi))               # an observer skipped
            else:
                dl[rng.choice(reps)]["bo"] = dl[rng.choice(reps)]["o"]   # report names the wrong observer
    elif e["e"] == "filter":
        e["pos"], e["neg"], e["no"] = e["neg"], e["pos"], not e["no"]
    elif e["e"] == "level":
        e["lv"] = e["lv"] % 5 + 1
    else:
        if e["dl"] and rng.random() < 0.5:
            e["dl"] = e["dl"][1:]
        else:
            e["dl"] = [max(e["dl"] or [0]) + 1] + e["dl"]
    return t


def fingerprint(t, rej):
    """A label for the rejected step (the verdict is TLC's; this only names the failing call site and input class)."""
    e = t["ev"][rej.reached] if rej.reached < len(t["ev"]) else {}
    if e.get("e") == "publish" and e.get("res") == "ok":
        reg = t.get("aux", {}).get(str(rej.reached))
        if reg:
            got = [d["o"] for d in e["dl"] if d["k"] == "ev"]
            ids = [o for o, _ in reg]
            missing = [o for o in ids if o not in got]
            after_leaver = all(i > 0 and reg[i - 1][1] == "rmself" for i in (ids.index(m) for m in missing))
            if missing and after_leaver and got == [o for o in ids if o not in missing]:
                return "LogPublisher.__call__/observer registered after a self-removing observer is not given the event"
        return "publish/ok/other"
    return "%s/%s" % (e.get("e"), e.get("res"))


def report(ctx, traces, rej, what="real twisted.logger execution not explained by LogObs.tla"):
    for x in rej:
        t = traces[x.idx]
        ev = t["ev"][x.reached] if x.reached < len(t["ev"]) else None
        ctx.violation(fingerprint(t, x), "%s at event %d: %s (ops %s)" % (what, x.reached, str(ev)[:600], str(t["ops"][: x.reached + 1])[:400]),
                      dict(cfg=t["cfg"], ctor=t.get("ctor", 0), ops=t["ops"], rejected_at=x.reached))


def impl_counterexample(ctx, r):
    """TLC found a registration for which the algorithm as coded (ImplDelivery) breaks the delivery property.
    Replay it on the real LogPublisher; TLC (trace validation) decides whether the real code does it too."""
    from harness.core import parse_tla_value
    import re
    st = r.cex[-1]
    obs = parse_tla_value(re.search(r"/\\ obs = (.*)", st).group(1))
    kinds = parse_tla_value(re.search(r"/\\ okind = (.*)", st).group(1))
    ops = [("addobs", i + 1, kd) for i, kd in enumerate(kinds)]
    if obs != list(range(1, len(kinds) + 1)):
        ops += [("rmobs", i + 1) for i in range(len(kinds))] + [("addobs", o, kinds[o - 1]) for o in obs]
    else:
        ops += []
    ops.append(("publish",))
    return run_history({"default": 2, "size": NONE}, ops)


def ops_of_behaviour(b):
    ops = []
    for h in b["hist"]:
        e = h["e"]
        if e == "addobs":
            ops.append(("addobs", h["o"], h["kd"]))
        elif e == "rmobs":
            ops.append(("rmobs", h["o"]))
        elif e in ("publish", "clearlevels", "buf", "replay"):
            ops.append((e,))
        elif e == "setlevel":
            ops.append(("setlevel", tuple(h["ns"]), h["lv"]))
        elif e == "filter":
            ops.append(("filter", tuple(h["ns"]), h["lv"]))
        elif e == "level":
            ops.append(("level", tuple(h["ns"])))
    return ops


def predicted(h):
    """The observable TLC predicted for a step, in the adapter's event format."""
    e = dict(h)
    if e["e"] == "filter":
        p = e.pop("pass")
        e.update(pos=1 if p else 0, neg=0 if p else 1, no=not p)
    return e


def run(ctx):
    from harness.core import MachineryError
    r = ctx.mc("LogObsMC", ctx.pick("LogObsMC.cfg", "LogObsMC.thorough.cfg"))
    if not r.ok:
        raise MachineryError("LogObs spec violates its own invariants: " + r.error)
    ctx.require_actions("LogObsMC", ["DoAddNew", "DoAddAgain", "DoRemove", "DoPublish", "DoSetLevel", "DoClear", "DoFilter", "DoQuery", "DoBuf", "DoReplay"])
    for inv in ("ReachNested", "ReachShadow"):
        r = ctx.mc("LogObsMC", "LogObsMCreach%s.cfg" % inv[5:], must_pass=False, coverage=False)
        if r.ok or r.kind != "invariant":
            raise MachineryError("vacuity: %s situation unreachable in LogObsMC" % inv)

    rng = ctx.rng
    traces = []
    base = {"default": 2, "size": NONE}
    # design level: does the algorithm as coded meet the delivery property for every registration?
    r = ctx.mc("LogObsMC", "LogObsMCimpl.cfg", must_pass=False, coverage=False)
    ctx.extra["impl_refines_abs"] = bool(r.ok)
    if not r.ok:
        if r.kind != "invariant" or not r.cex:
            raise MachineryError("LogObsMCimpl failed without a counterexample: " + r.error)
        t = impl_counterexample(ctx, r)
        rej = ctx.validate("LogObsTrace", [t])
        ctx.note_trace(t)
        ctx.extra["impl_counterexample"] = t["ops"]
        ctx.extra["impl_counterexample_reproduced_on_real_code"] = bool(rej)
        if rej:
            ctx.log("TLC counterexample of the coded algorithm reproduces on the real LogPublisher: %s" % t["ops"])
            report(ctx, [t], rej, "TLC counterexample of LogPublisher's delivery algorithm reproduced on the real code")
        else:
            # the model of the algorithm no longer describes the code (e.g. the code was repaired): drift, not a verdict
            ctx.impl_drift += 1
            ctx.log("TLC counterexample of the modelled algorithm does NOT reproduce on the real LogPublisher (impl drift)")
    for i, h in enumerate(pub_histories(ctx.pick(4, 5), 3)):
        traces.append(run_history(base, h, ctor=i % 3))
    for h in flt_histories(rng, ctx.pick((2, 4), (1, 3, 5)), full=not ctx.quick):
        traces.append(run_history({"default": rng.randint(1, 5), "size": NONE}, h))
    for size in (NONE, 0, 1, 2, 3, 4):
        for h in buf_histories(ctx.pick(5, 8)):
            traces.append(run_history({"default": 2, "size": size}, h))
    ctx.exhaustive = True
    nexh = len(traces)
    for i in range(ctx.pick(800, 15000)):
        cfg = {"default": rng.randint(1, 5), "size": rng.choice([NONE, 0, 1, 2, 3, 5, 8])}
        # one-shot (self-removing) observers in one history out of five
        traces.append(run_history(cfg, random_history(rng, rng.randint(10, 60), rmself=(i % 5 == 0)), ctor=rng.randint(0, 3)))
    behs = ctx.simulate("LogObsSim", "LogObsSim.cfg", num=ctx.pick(150, 4000), depth=18)
    drift = 0
    for b in behs:
        t = run_history(b["cfg"], ops_of_behaviour(b), ctor=rng.randint(0, 2))
        if t["ev"] != [predicted(h) for h in b["hist"]]:
            drift += 1
        traces.append(t)
    ctx.extra["spec_behaviours_replayed"] = len(behs)
    ctx.extra["spec_behaviours_not_reproduced"] = drift
    ctx.impl_drift += drift     # the Sim spec predicts deliveries with the code-shaped algorithm (ImplDelivery)
    ctx.extra["exhaustive_small_histories"] = nexh
    # boundary observation, outside the property's domain (an event "with a namespace"): the predicate drops events
    # whose namespace is empty whatever their level (documented in the class docstring), although
    # logLevelForNamespace("") answers the default level.  Recorded, not judged.
    from twisted.logger import LogLevelFilterPredicate, LogLevel, PredicateResult
    ctx.extra["empty_namespace_critical_event_dropped"] = (
        LogLevelFilterPredicate(defaultLogLevel=LogLevel.info)({"log_namespace": "", "log_level": LogLevel.critical}) is PredicateResult.no)
    ctx.note_traces(traces)
    ctx.log("recorded %d real executions, %d events" % (len(traces), sum(len(t["ev"]) for t in traces)))
    rej = ctx.validate("LogObsTrace", traces, shard_size=ctx.pick(800, 3000))
    report(ctx, traces, rej)
    bad = {x.idx for x in rej}
    good = [t for i, t in enumerate(traces) if i not in bad]
    ctx.selftest_rejects("LogObsTrace", good[-400:], mutate, n=30)


def replay(ctx, obj):
    t = run_history(obj["cfg"], obj["ops"], ctor=obj.get("ctor", 0))
    ctx.note_trace(t)
    rej = ctx.validate("LogObsTrace", [t])
    report(ctx, [t], rej, "replayed history rejected")
    for e in t["ev"]:
        print(e)
