"""X27 driver -- runs one history against the REAL producer helpers and records what a user observes.

Kinds (cfg["kind"]):
  "fbp"  twisted.web.client.FileBodyProducer on a real task.Cooperator whose scheduler is captured by the harness
         (one work unit per tick) and a fake file object.
  "fs"   twisted.protocols.basic.FileSender registered (streaming=False) with a recording consumer that, like the TLS
         and HTTP/2 transports, wraps it in the real twisted.internet._producer_helpers._PullToPush and calls
         startStreaming(); the consumer-side push interface (pause/resume/stopProducing, stopStreaming) is driven by
         the history.
  "fsd"  FileSender pulled directly by the consumer (resumeProducing called by the history).
  "p2p"  _PullToPush around a scripted pull producer (resumeProducing succeeds or raises as planned) and a consumer
         whose unregisterProducer stops streaming / raises / forgets to stop streaming (cfg["unreg"]).

cfg["plan"]  list of read outcomes: positive int k = the read returns k bytes (a short read when k < rs; never more
             than the size asked for), 0 = the read raises IOError.  After the plan: end of file (b"").
             For "p2p": successive resumeProducing outcomes (k > 0 writes a k-byte chunk, 0 raises); after the plan: ok.
cfg["rs"]    read size given to the producer (readSize / CHUNK_SIZE); 0 for p2p.
cfg["xf"]    FileSender transform in use (bool).

Every event carries: e, res (class name of the exception raised by the public call or "ok"), w (ids of the chunks the
consumer received: the index of the read that returned exactly those bytes, 0 = bytes that match no read), reads
(sizes asked of the file / 0 per scripted resumeProducing), fired (results delivered to a callback on the Deferred),
closes (file.close() calls), unreg (consumer.unregisterProducer calls), pstop (stopProducing calls on the scripted
producer), reg (registerProducer calls: "pull"/"push"), logged (failures reported to twisted.logger), seq (the order of all those boundary calls), p (does the scheduler hold a tick request afterwards).
"""


class PlannedIOError(IOError):
    pass


def _xor(b):
    return bytes(x ^ 0x55 for x in b)


_quiet = [False]


def _quiet_logging():
    """twisted.logger prints critical events to stderr until logging is begun; begin it with a null observer."""
    if not _quiet[0]:
        from twisted.logger import globalLogBeginner
        globalLogBeginner.beginLoggingTo([lambda event: None], redirectStandardIO=False, discardBuffer=True)
        _quiet[0] = True


def run_history(cfg, ops):
    from twisted.internet import task, defer
    from twisted.internet import _producer_helpers
    from twisted.protocols import basic
    from twisted.python.failure import Failure
    from twisted.web import client
    from twisted.logger import globalLogPublisher

    kind, plan, rs = cfg["kind"], cfg["plan"], cfg["rs"]
    ev = []
    cur = [None]
    pending = [None]

    def emit(e):
        rec = {"e": e, "res": "ok", "w": [], "reads": [], "fired": [], "closes": 0, "unreg": 0, "pstop": 0, "reg": [], "logged": 0, "p": False, "seq": []}
        ev.append(rec)
        cur[0] = rec
        return rec

    # ---- the boundary: scheduler, file, consumer
    class DC:
        def __init__(self, f):
            self.f = f

        def cancel(self):
            if pending[0] is self:
                pending[0] = None

    def scheduler(f):
        dc = DC(f)
        pending[0] = dc
        return dc

    coop = task.Cooperator(terminationPredicateFactory=lambda: (lambda: True), scheduler=scheduler)
    nunreg = [0]
    stopped = [False]
    chunks = {}      # read index -> bytes handed out (after the transform the consumer should see)
    nread = [0]

    def make_chunk(i, k):
        # distinct content per read; the final byte identifies the read (FileSender reports the last byte sent)
        body = bytes(((i * 37 + j * 11) % 200) + 20 for j in range(k - 1)) + bytes([i])
        return body

    class File:
        closed = False

        def read(self, n=-1):
            cur[0]["reads"].append(n)
            cur[0]["seq"].append("read")
            if self.closed:
                raise ValueError("I/O operation on closed file")
            i = nread[0]
            if i >= len(plan):
                return b""
            nread[0] += 1
            k = plan[i]
            if k == 0:
                raise PlannedIOError("planned")
            if n is not None and n >= 0:
                k = min(k, n)
            data = make_chunk(i + 1, k)
            chunks[i + 1] = _xor(data) if cfg.get("xf") else data
            return data

        def close(self):
            cur[0]["closes"] += 1
            cur[0]["seq"].append("close")
            self.closed = True

    class Consumer:
        p2p = None
        producer = None

        def registerProducer(self, producer, streaming):
            cur[0]["reg"].append("push" if streaming else "pull")
            cur[0]["seq"].append("reg")
            self.producer = producer
            if kind == "fs" and not streaming:
                self.p2p = _producer_helpers._PullToPush(producer, self)
                self.p2p.startStreaming()

        def unregisterProducer(self):
            cur[0]["unreg"] += 1
            cur[0]["seq"].append("unreg")
            nunreg[0] += 1
            if kind == "p2p":
                if cfg["unreg"] == "raise":
                    raise RuntimeError("consumer cannot unregister")
                if cfg["unreg"] == "forget":
                    return
            if self.p2p is not None:
                self.p2p.stopStreaming()

        def write(self, data):
            cur[0]["seq"].append("write")
            for i, c in chunks.items():
                if c == data:
                    cur[0]["w"].append(i)
                    return
            cur[0]["w"].append(0)

    class Scripted:
        """a pull producer following the plan"""

        def resumeProducing(self):
            cur[0]["reads"].append(0)
            cur[0]["seq"].append("read")
            i = nread[0]
            nread[0] += 1
            k = plan[i] if i < len(plan) else 1
            if k == 0:
                raise PlannedIOError("planned")
            chunks[i + 1] = make_chunk(i + 1, k)
            consumer.write(chunks[i + 1])

        def stopProducing(self):
            cur[0]["pstop"] += 1
            cur[0]["seq"].append("pstop")

    def fire(r):
        cur[0]["seq"].append("fire")
        if isinstance(r, Failure):
            n = r.type.__name__
            cur[0]["fired"].append([{"PlannedIOError": "IOError"}.get(n, n), 0])
        elif r is None:
            cur[0]["fired"].append(["ok", 0])
        elif r == "" and isinstance(r, str):
            cur[0]["fired"].append(["ok", 0])
        elif isinstance(r, bytes) and len(r) == 1:
            b = _xor(r) if cfg.get("xf") else r
            cur[0]["fired"].append(["ok", b[0]])
        else:
            cur[0]["fired"].append(["ok", 99])

    f = File()
    consumer = Consumer()
    prod = None      # the object whose pause/resume/stopProducing the history calls
    started = False
    d = None
    if kind == "fbp":
        prod = client.FileBodyProducer(f, cooperator=coop, readSize=rs)
    _quiet_logging()

    def observer(event):
        if event.get("log_failure") is not None and cur[0] is not None:
            cur[0]["logged"] += 1
            cur[0]["seq"].append("log")

    globalLogPublisher.addObserver(observer)
    saved = _producer_helpers.cooperate
    _producer_helpers.cooperate = coop.cooperate     # boundary: _PullToPush uses the global cooperator
    try:
        for op in ops:
            o = op[0]
            if o == "start":
                if started:
                    continue
                started = True
                rec = emit("start")
                try:
                    if kind == "fbp":
                        d = prod.startProducing(consumer)
                        d.addBoth(fire)
                    elif kind in ("fs", "fsd"):
                        fsender = basic.FileSender()
                        fsender.CHUNK_SIZE = rs
                        d = fsender.beginFileTransfer(f, consumer, _xor if cfg.get("xf") else None)
                        d.addBoth(fire)
                        prod = consumer.p2p if kind == "fs" else fsender
                    else:
                        prod = consumer.p2p = _producer_helpers._PullToPush(Scripted(), consumer)
                        prod.startStreaming()
                except Exception as x:
                    rec["res"] = type(x).__name__
            elif o == "tick":
                if pending[0] is None:
                    continue
                rec = emit("tick")
                dc, pending[0] = pending[0], None
                try:
                    dc.f()
                except Exception as x:
                    rec["res"] = type(x).__name__
            elif o in ("pause", "resume", "stop", "pull"):
                if prod is None or (o == "pull") != (kind == "fsd") and o in ("pull", "resume"):
                    continue
                if o == "pull" and (nunreg[0] or stopped[0]):
                    continue     # environment: a consumer does not pull a producer it stopped or that unregistered itself
                if o == "stop":
                    stopped[0] = True
                rec = emit(o)
                try:
                    getattr(prod, {"pause": "pauseProducing", "resume": "resumeProducing", "stop": "stopProducing",
                                   "pull": "resumeProducing"}[o])()
                except Exception as x:
                    n = type(x).__name__
                    rec["res"] = {"PlannedIOError": "IOError"}.get(n, n)
            elif o == "unreg":
                if kind not in ("fs", "p2p") or consumer.p2p is None:
                    continue
                rec = emit("unreg")
                try:
                    consumer.p2p.stopStreaming()
                except Exception as x:
                    rec["res"] = type(x).__name__
            elif o == "cancel":
                if kind != "fbp" or d is None:
                    continue
                rec = emit("cancel")
                try:
                    d.cancel()
                except Exception as x:
                    rec["res"] = type(x).__name__
            else:
                raise ValueError(op)
            rec["p"] = pending[0] is not None
    finally:
        _producer_helpers.cooperate = saved
        globalLogPublisher.removeObserver(observer)
    return {"cfg": cfg, "ops": [list(o) for o in ops], "ev": ev}
