"""X14 adapter -- drives the real twisted.protocols.ftp.FTP control-connection machine.

Boundary fakes only: an in-memory reactor (MemoryReactorClock installed as the global reactor, because ftp.py
reaches for the global reactor in lineReceived / DTPFactory / ftp_PORT), a recording listening port handed out
through FTP.listenFactory, a recording connector built on the real BaseConnector, StringTransport for the control
and data connections, an in-memory IFTPShell behind a real Portal.  Everything logged is observable at that
boundary: reply codes on the control transport, calls on the shell / realm logout, ports opened and stopped,
loseConnection calls and writes on data transports, pending reactor timers, the read-pause state of the control
transport.
"""
import sys

VERBS = ["USER", "PASS", "PASV", "PORT", "LIST", "RETR", "STOR", "RNFR", "RNTO", "NOOP", "REIN", "QUIT", "FEAT"]
PORT_ARG = "127,0,0,1,4,1"


def get_reactor():
    from twisted.internet import error, main
    from twisted.internet.testing import MemoryReactorClock
    mod = sys.modules.get("twisted.internet.reactor")
    if mod is not None:
        if isinstance(mod, MemoryReactorClock):
            return mod
        raise RuntimeError("a real reactor is already installed")
    r = MemoryReactorClock()
    try:
        main.installReactor(r)
    except error.ReactorAlreadyInstalledError:
        raise RuntimeError("a real reactor is already installed")
    return r


_CLASSES = {}
_QUIET = []


def quiet():
    """ftp.py reports expected conditions with log.err; keep them off stderr."""
    if not _QUIET:
        from twisted.logger import globalLogBeginner
        globalLogBeginner.beginLoggingTo([lambda event: None], redirectStandardIO=False, discardBuffer=True)
        _QUIET.append(1)


def classes():
    """Build the fake classes once (twisted is imported lazily)."""
    if _CLASSES:
        return _CLASSES
    from io import BytesIO
    from zope.interface import implementer
    from twisted.cred import portal as cred_portal
    from twisted.internet import defer, interfaces
    from twisted.internet.address import IPv4Address
    from twisted.internet.base import BaseConnector
    from twisted.internet.testing import StringTransport
    from twisted.protocols import basic, ftp
    from twisted.python.failure import Failure

    @implementer(interfaces.IListeningPort)
    class Port:
        def __init__(self, rec, pid, factory):
            self.rec, self.id, self.factory, self.listening = rec, pid, factory, True

        def startListening(self):
            pass

        def stopListening(self):
            self.rec.obs["stop"].append(self.id)
            self.listening = False
            return defer.succeed(None)

        def getHost(self):
            return IPv4Address("TCP", "0.0.0.0", 2000 + self.id)

    class _Pending:
        """What BaseConnector holds while connecting."""
        def __init__(self, connector):
            self.connector = connector

        def failIfNotConnected(self, err):
            self.connector.connectionFailed(Failure(err))

    class Connector(BaseConnector):
        def __init__(self, rec, pid, factory, reactor):
            BaseConnector.__init__(self, factory, None, reactor)     # the connector's own 30 s timeout is not modelled
            self.rec, self.id = rec, pid

        def _makeTransport(self):
            return _Pending(self)

        def disconnect(self):
            self.rec.obs["stop"].append(self.id)
            BaseConnector.disconnect(self)

        def getDestination(self):
            return IPv4Address("TCP", "127.0.0.1", 1025)

    class DataTransport(StringTransport):
        def __init__(self, rec, did):
            StringTransport.__init__(self)
            self.rec, self.id, self.live = rec, did, True

        def write(self, data):            # what is done to a dead transport has no effect anybody could see
            if self.live:
                self.rec.obs["dw"] += 1
            StringTransport.write(self, data)

        def loseConnection(self):
            if self.live:
                self.rec.obs["dcl"].append(self.id)
            StringTransport.loseConnection(self)

        def registerProducer(self, producer, streaming):
            if not self.live:          # as abstract.FileDescriptor.registerProducer does on a dead transport
                producer.stopProducing()
            else:
                StringTransport.registerProducer(self, producer, streaming)

    class ReadFile:
        def __init__(self, rec):
            self.rec = rec

        def send(self, consumer):
            self.rec.obs["sh"].append("send")
            return basic.FileSender().beginFileTransfer(BytesIO(b"abc"), consumer)

    class WriteConsumer:
        def __init__(self, rec):
            self.rec = rec

        def registerProducer(self, producer, streaming):
            self.producer = producer

        def unregisterProducer(self):
            self.producer = None

        def write(self, data):
            self.rec.obs["sh"].append("wdata")

    class WriteFile:
        def __init__(self, rec):
            self.rec = rec

        def receive(self):
            self.rec.obs["sh"].append("receive")
            return defer.succeed(WriteConsumer(self.rec))

        def close(self):
            self.rec.obs["sh"].append("wclose")
            return defer.succeed(None)

    @implementer(ftp.IFTPShell)
    class Shell:
        """In-memory shell: 'f' and 'a' exist, anything else does not.  It has a logout() method (FTP.connectionLost
        calls shell.logout when the avatar has one)."""
        def __init__(self, rec, aid):
            self.rec, self.aid = rec, aid

        def _call(self, name, path=None):
            self.rec.obs["sh"].append(name if path is None else name + ":" + "/".join(path))

        def logout(self):
            self.rec.obs["lo"].append(self.aid)

        def access(self, path):
            self._call("access", path)
            return defer.succeed(None)

        def stat(self, path, keys=()):
            self._call("stat", path)
            return defer.fail(ftp.FileNotFoundError("/".join(path)))

        def list(self, path, keys=()):
            self._call("list", path)
            attrs = [0, False, None, 1, 0, "o", "g"]
            if keys:
                from twisted.python.filepath import Permissions
                attrs[2] = Permissions(0o644)
                return defer.succeed([("a", attrs), ("f", attrs)])
            return defer.succeed([("a", []), ("f", [])])

        def openForReading(self, path):
            self._call("openr", path)
            if path == ["f"]:
                return defer.succeed(ReadFile(self.rec))
            return defer.fail(ftp.FileNotFoundError("/".join(path)))

        def openForWriting(self, path):
            self._call("openw", path)
            return defer.succeed(WriteFile(self.rec))

        def rename(self, fromPath, toPath):
            self.rec.obs["sh"].append("rename:%s:%s" % ("/".join(fromPath), "/".join(toPath)))
            return defer.succeed(None)

        def makeDirectory(self, path):
            self._call("mkd", path)
            return defer.succeed(None)

        def removeDirectory(self, path):
            self._call("rmd", path)
            return defer.succeed(None)

        def removeFile(self, path):
            self._call("dele", path)
            return defer.succeed(None)

    @implementer(cred_portal.IRealm)
    class Realm:
        def __init__(self, rec):
            self.rec = rec

        def requestAvatar(self, avatarId, mind, *ifaces):
            self.rec.navatar += 1
            aid = self.rec.navatar
            self.rec.obs["login"].append(aid)
            return ftp.IFTPShell, Shell(self.rec, aid), lambda: self.rec.obs["rlo"].append(aid)

    _CLASSES.update(Port=Port, Connector=Connector, DataTransport=DataTransport, Realm=Realm)
    return _CLASSES


class Rec:
    def __init__(self):
        self.navatar = 0
        self.errs = {}
        self.reset()

    def reset(self):
        self.obs = dict(codes=[], sh=[], op=[], stop=[], dcl=[], dw=0, lo=[], rlo=[], login=[])


def run_history(cfg, ops):
    """cfg: {"T": dtpTimeout}.  ops: list of tuples
         ("cmd", verb, arg) | ("dconn",) | ("dfail",) | ("adv", d) | ("dpump",) | ("ddata",) | ("dlost",) | ("clost",)
       Inapplicable ops are skipped.  Returns {"cfg", "ops", "ev", "errs"}."""
    R = get_reactor()          # must precede the import of twisted.protocols.ftp (it imports the global reactor)
    from twisted.cred import checkers
    from twisted.cred.portal import Portal
    from twisted.internet.address import IPv4Address
    from twisted.internet.error import ConnectionDone, ConnectionRefusedError
    from twisted.internet.testing import StringTransport
    from twisted.protocols import ftp
    from twisted.python.failure import Failure

    C = classes()
    quiet()
    rec = Rec()
    eps = []      # endpoints (ports / connectors) in creation order
    dts = []      # (data transport, DTP protocol, connector or None)

    def listen(portn, factory, interface=""):
        p = C["Port"](rec, len(eps) + 1, factory)
        eps.append(p)
        rec.obs["op"].append([p.id, "L"])
        return p

    def connect(host, port, factory, timeout=30, bindAddress=None):
        c = C["Connector"](rec, len(eps) + 1, factory, R)
        eps.append(c)
        rec.obs["op"].append([c.id, "C"])
        c.connect()
        return c

    def guard(f, *a):
        try:
            f(*a)
        except Exception as e:       # a reactor would log it and go on
            rec.errs[type(e).__name__] = rec.errs.get(type(e).__name__, 0) + 1

    def settle():
        for _ in range(100):
            if not any(c.getTime() <= R.seconds() for c in R.getDelayedCalls()):
                break
            guard(R.advance, 0)

    pt = Portal(C["Realm"](rec))
    pt.registerChecker(checkers.AllowAnonymousAccess())
    db = checkers.InMemoryUsernamePasswordDatabaseDontUse()
    db.addUser("alice", "pw")
    pt.registerChecker(db)
    factory = ftp.FTPFactory(pt)
    factory.timeOut = None
    wrapper = factory.buildProtocol(IPv4Address("TCP", "127.0.0.1", 5000))
    proto = wrapper.wrappedProtocol
    proto.dtpTimeout = cfg["T"]
    proto.listenFactory = listen
    tr = StringTransport(hostAddress=IPv4Address("TCP", "127.0.0.1", 21), peerAddress=IPv4Address("TCP", "127.0.0.1", 5000))
    ev = []
    alive = True
    lost = Failure(ConnectionDone())

    def emit(e):
        out = tr.value()
        tr.clear()
        o = rec.obs
        if e["e"] != "clost":      # nobody can read what is written while the connection is being torn down
            o["codes"] = [int(x[:3]) for x in out.split(b"\r\n") if x[:3].isdigit()]
        e.update(o)
        e["tm"] = len(R.getDelayedCalls())
        e["paused"] = tr.producerState == "paused"
        e["lc"] = bool(tr.disconnecting)
        ev.append(e)
        rec.reset()

    R.connectTCP = connect
    try:
        wrapper.makeConnection(tr)
        settle()
        emit({"e": "open"})
        for op in ops:
            k = op[0]
            ep = eps[-1] if eps else None
            dt, dp, dc = dts[-1] if dts else (None, None, None)
            if not alive and k != "adv":       # the history ends with the control connection; only time goes on
                continue
            if k == "cmd":
                if not alive or tr.disconnecting:
                    continue
                arg = PORT_ARG if op[1] == "PORT" else op[2]
                line = op[1] + (" " + arg if arg else "")
                guard(wrapper.dataReceived, line.encode("latin-1") + b"\r\n")
                settle()
                emit({"e": "cmd", "c": op[1], "a": op[2]})
            elif k == "dconn":
                if isinstance(ep, C["Port"]) and ep.listening:
                    p = ep.factory.buildProtocol(IPv4Address("TCP", "127.0.0.1", 6000))
                    conn = None
                elif isinstance(ep, C["Connector"]) and ep.state == "connecting":
                    p = ep.buildProtocol(IPv4Address("TCP", "127.0.0.1", 1025))
                    conn = ep
                else:
                    continue
                if p is None:
                    if conn is not None:
                        guard(conn.connectionLost, lost)
                else:
                    t = C["DataTransport"](rec, len(dts) + 1)
                    dts.append((t, p, conn))
                    if conn is not None:
                        conn.transport = t
                    guard(p.makeConnection, t)
                settle()
                emit({"e": "dconn", "acc": p is not None})
            elif k == "dfail":
                if not (isinstance(ep, C["Connector"]) and ep.state == "connecting"):
                    continue
                guard(ep.connectionFailed, Failure(ConnectionRefusedError()))
                settle()
                emit({"e": "dfail"})
            elif k == "adv":
                guard(R.advance, op[1])
                settle()
                emit({"e": "adv", "d": op[1]})
            elif k == "dpump":
                if dt is None or not dt.live or dt.producer is None:
                    continue
                n, prod = 0, dt.producer
                while dt.producer is prod and n < 20:     # this producer only: one pipelined after it is a new pump
                    n += 1
                    try:
                        prod.resumeProducing()
                    except Exception as e:
                        rec.errs[type(e).__name__] = rec.errs.get(type(e).__name__, 0) + 1
                        break
                settle()
                emit({"e": "dpump"})
            elif k == "ddata":
                if dt is None or not dt.live:
                    continue
                guard(dp.dataReceived, b"x")
                settle()
                emit({"e": "ddata"})
            elif k == "dlost":
                if dt is None or not dt.live:
                    continue
                dt.live = False
                prod, dt.producer = dt.producer, None
                if prod is not None:
                    guard(prod.stopProducing)
                guard(dp.connectionLost, lost)
                if dc is not None:
                    guard(dc.connectionLost, lost)
                settle()
                emit({"e": "dlost"})
            elif k == "clost":
                if not alive:
                    continue
                alive = False
                guard(wrapper.connectionLost, lost)
                settle()
                emit({"e": "clost"})
    finally:
        del R.connectTCP
        if alive:
            guard(wrapper.connectionLost, lost)
        for c in R.getDelayedCalls():
            c.cancel()
    return {"cfg": cfg, "ops": [list(o) for o in ops], "ev": ev, "errs": rec.errs}
