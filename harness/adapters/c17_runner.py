"""C17 adapter, executed by /usr/bin/python3 (3.11, has pyOpenSSL) as a subprocess:

    PYTHONPATH=$VERIF_REPO/src:/verif/vendor/py311deps /usr/bin/python3 c17_runner.py <workdir> < plans.json > traces.json

Drives a real TLSMemoryBIOFactory client/server pair (protocol = BufferingTLSTransport) over a
scheduler-controlled in-memory pipe and a task.Clock, and records only observable events: application
calls, dataReceived / connectionLost / handshakeCompleted of the application protocols, and the calls the
TLS layer makes on the underlying (fake) transports.  No verdict is taken here.
"""
import json
import os
import sys
import warnings

warnings.simplefilter("ignore")


def make_cert(workdir):
    """Self-signed RSA certificate, generated at run time; fixed serial/dates so that its length is constant."""
    import datetime
    from cryptography import x509
    from cryptography.hazmat.primitives import hashes, serialization
    from cryptography.hazmat.primitives.asymmetric import rsa
    from cryptography.x509.oid import NameOID
    key = rsa.generate_private_key(public_exponent=65537, key_size=2048)
    name = x509.Name([x509.NameAttribute(NameOID.COMMON_NAME, "verif.example")])
    cert = (x509.CertificateBuilder().subject_name(name).issuer_name(name).public_key(key.public_key())
            .serial_number(0x1234567890ABCDEF).not_valid_before(datetime.datetime(2020, 1, 1))
            .not_valid_after(datetime.datetime(2040, 1, 1)).sign(key, hashes.SHA256()))
    pem = key.private_bytes(serialization.Encoding.PEM, serialization.PrivateFormat.TraditionalOpenSSL,
                            serialization.NoEncryption()) + cert.public_bytes(serialization.Encoding.PEM)
    path = os.path.join(workdir, "c17-cert.pem")
    with open(path, "wb") as f:
        f.write(pem)
    return path


_CONTENT = {}


def content(side, off, n):
    """Position-coded stream content: 4-byte big-endian words (side tag, word index)."""
    from array import array
    import sys
    need = off + n
    buf = _CONTENT.get(side)
    if buf is None or len(buf) < need:
        words = max(1 << 19, (need + 3) // 4 * 2)
        a = array("I", [((side + 1) & 0x7F) << 24 | (w & 0xFFFFFF) for w in range(words)])
        if a.itemsize != 4:
            raise RuntimeError("unexpected C int size")
        if sys.byteorder == "little":
            a.byteswap()
        buf = _CONTENT[side] = a.tobytes()
    return buf[off:off + n]


class Case:
    def __init__(self, certpath, variant):
        from twisted.internet import ssl, task
        from twisted.internet.protocol import Protocol, Factory
        from twisted.internet.interfaces import IHandshakeListener, ITransport, IConsumer, IPushProducer
        from twisted.internet.error import ConnectionDone, ConnectionAborted
        from twisted.python.failure import Failure
        from twisted.protocols.tls import TLSMemoryBIOFactory, TLSMemoryBIOProtocol
        from zope.interface import implementer
        case = self
        self.ev = []
        self.clock = task.Clock()
        self.Failure, self.ConnectionDone, self.ConnectionAborted = Failure, ConnectionDone, ConnectionAborted
        self.sent = [bytearray(), bytearray()]      # everything side p's application wrote (accepted or not)
        self.rcvd = [0, 0]
        self.pipe = [bytearray(), bytearray()]      # wire bytes from side p not yet delivered to the peer
        self.eof_pending = [False, False]           # side p's transport closed: EOF follows its last wire byte
        self.eof_done = [False, False]
        self.tstate = ["open", "open"]              # underlying transport of side p: open / closing / aborted / closed

        @implementer(IHandshakeListener)
        class App(Protocol):
            def __init__(self, side):
                self.side = side

            def handshakeCompleted(self):
                case.ev.append({"e": "hs", "p": self.side})

            def dataReceived(self, data):
                q = self.side
                exp = case.sent[1 - q]
                at = case.rcvd[q]
                if bytes(exp[at:at + len(data)]) == data:
                    off = at
                else:
                    off = bytes(exp).find(data)
                    if off == at:
                        off = -1
                case.rcvd[q] = at + len(data)
                case.ev.append({"e": "data", "p": q, "n": len(data), "off": off})

            def connectionLost(self, reason):
                case.ev.append({"e": "lost", "p": self.side, "clean": bool(reason.check(ConnectionDone))})

        @implementer(ITransport, IConsumer)
        class Tr:
            disconnecting = False

            def __init__(self, side):
                self.side = side
                self.producer = None

            def write(self, data):
                # like a socket transport: data written after loseConnection() still goes out before the close,
                # data written after abortConnection() or after the close is dropped
                if case.tstate[self.side] in ("closed", "aborted"):
                    return
                case.pipe[self.side] += data

            def writeSequence(self, seq):
                self.write(b"".join(seq))

            def loseConnection(self):
                if case.tstate[self.side] == "open":
                    case.tstate[self.side] = "closing"
                    self.disconnecting = True
                    case.ev.append({"e": "tclose", "p": self.side, "abort": False})

            def abortConnection(self):
                if case.tstate[self.side] in ("open", "closing"):
                    if case.tstate[self.side] == "open":
                        case.ev.append({"e": "tclose", "p": self.side, "abort": True})
                    case.tstate[self.side] = "aborted"
                    self.disconnecting = True

            def registerProducer(self, producer, streaming):
                if self.producer is not None:
                    raise RuntimeError("producer already registered")
                self.producer = producer

            def unregisterProducer(self):
                self.producer = None

            def getPeer(self):
                from twisted.internet.address import IPv4Address
                return IPv4Address("TCP", "10.0.0.%d" % (2 - self.side), 4433)

            def getHost(self):
                from twisted.internet.address import IPv4Address
                return IPv4Address("TCP", "10.0.0.%d" % (1 + self.side), 4433)

        @implementer(IPushProducer)
        class Prod:
            def __init__(self, side, chunks, then_lose):
                self.side, self.chunks, self.then_lose = side, list(chunks), then_lose
                self.paused = False
                self.stopped = False

            def pauseProducing(self):
                self.paused = True

            def resumeProducing(self):
                self.paused = False

            def stopProducing(self):
                self.stopped = True
        self.Prod = Prod

        cert = ssl.PrivateCertificate.loadPEM(open(certpath, "rb").read())
        server_ctx = cert.options()
        client_ctx = ssl.CertificateOptions()
        self.apps = [App(0), App(1)]
        f0, f1 = Factory(), Factory()
        f0.buildProtocol = lambda addr: self.apps[0]
        f1.buildProtocol = lambda addr: self.apps[1]
        self.fac = [TLSMemoryBIOFactory(client_ctx, True, f0, clock=self.clock),
                    TLSMemoryBIOFactory(server_ctx, False, f1, clock=self.clock)]
        if variant == "unbuffered":
            for f in self.fac:
                f.protocol = TLSMemoryBIOProtocol
        self.tls = [self.fac[0].buildProtocol(None), self.fac[1].buildProtocol(None)]
        self.tr = [Tr(0), Tr(1)]
        self.prod = [None, None]
        self.tls[0].makeConnection(self.tr[0])       # client: ClientHello goes out
        self.tls[1].makeConnection(self.tr[1])

    # ---- operations -------------------------------------------------------------------------
    def guard(self, what, f, *a):
        try:
            f(*a)
        except Exception as ex:
            self.ev.append({"e": "exc", "cls": type(ex).__name__, "where": what})
            return False
        return True

    def op(self, o):
        k = o[0]
        if k == "write":
            p, n = o[1], o[2]
            data = content(p, len(self.sent[p]), n)
            self.sent[p] += data
            self.ev.append({"e": "write", "p": p, "n": n})
            t = self.apps[p].transport
            if o[3:] and o[3] == "seq":
                h = n // 2
                self.guard("write", t.writeSequence, [data[:h], data[h:]])
            else:
                self.guard("write", t.write, data)
        elif k == "lose":
            p = o[1]
            self.ev.append({"e": "lose", "p": p})
            self.guard("lose", self.apps[p].transport.loseConnection)
        elif k == "reg":
            p = o[1]
            pr = self.Prod(p, o[2], False)
            self.prod[p] = pr
            self.ev.append({"e": "reg", "p": p})
            self.guard("reg", self.apps[p].transport.registerProducer, pr, True)
        elif k == "produce":          # the registered push producer writes its next chunk if it is not paused
            p = o[1]
            pr = self.prod[p]
            if pr is None or pr.stopped:
                return
            if pr.paused:
                return
            if pr.chunks:
                n = pr.chunks.pop(0)
                data = content(p, len(self.sent[p]), n)
                self.sent[p] += data
                self.ev.append({"e": "write", "p": p, "n": n})
                self.guard("write", self.apps[p].transport.write, data)
            else:
                self.prod[p] = None
                self.ev.append({"e": "unreg", "p": p})
                self.guard("unreg", self.apps[p].transport.unregisterProducer)
        elif k == "unreg":            # the application unregisters its producer now (paused or not)
            p = o[1]
            if self.prod[p] is not None:
                self.prod[p] = None
                self.ev.append({"e": "unreg", "p": p})
                self.guard("unreg", self.apps[p].transport.unregisterProducer)
        elif k == "tpause" or k == "tresume":     # back-pressure from the underlying transport
            p = o[1]
            pr = self.tr[p].producer
            if pr is not None:
                self.guard(k, pr.pauseProducing if k == "tpause" else pr.resumeProducing)
        elif k == "deliver":
            self.deliver(o[1], o[2])
        elif k == "tick":
            self.ev.append({"e": "tick"})
            self.guard("tick", self.clock.advance, 0)
        elif k == "xclose":
            self.xclose(o[1])
        elif k == "quiesce":
            self.quiesce()
        else:
            raise ValueError(o)

    def deliver(self, p, k):
        """k wire bytes from side p reach its peer (k = 0: everything pending).  A peer whose transport was
        asked to close has stopped reading (as socket transports do): the bytes are discarded."""
        q = 1 - p
        avail = len(self.pipe[p])
        if k <= 0 or k > avail:
            k = avail
        if k:
            chunk = bytes(self.pipe[p][:k])
            del self.pipe[p][:k]
            if self.tstate[q] == "open":
                self.ev.append({"e": "deliver", "d": p, "k": k})
                self.guard("deliver", self.tls[q].dataReceived, chunk)
        if not self.pipe[p] and self.eof_pending[p] and not self.eof_done[p]:
            self.eof(p)

    def stop_producer(self, p):
        pr = self.tr[p].producer
        if pr is not None:                    # socket transports tell their producer to stop when the connection is lost
            self.tr[p].producer = None
            self.guard("stopProducing", pr.stopProducing)

    def eof(self, p):
        """Side p's transport has closed and all its bytes were delivered: the peer's transport, if it is still
        reading, reports the end of the stream."""
        q = 1 - p
        self.eof_done[p] = True
        if self.tstate[q] == "open":
            self.tstate[q] = "closed"
            self.eof_pending[q] = True
            self.ev.append({"e": "eof", "p": q})
            self.stop_producer(q)
            self.guard("eof", self.tls[q].connectionLost, self.Failure(self.ConnectionDone()))
            if not self.pipe[q]:
                self.eof_done[q] = True

    def xclose(self, p):
        """The underlying transport of side p, asked to close, finishes closing (what it wrote is on the wire
        already): its protocol gets connectionLost, the peer will see EOF after the remaining bytes."""
        if self.tstate[p] not in ("closing", "aborted"):
            return
        aborted = self.tstate[p] == "aborted"
        self.tstate[p] = "closed"
        self.eof_pending[p] = True
        self.ev.append({"e": "xclose", "p": p})
        self.stop_producer(p)
        reason = self.ConnectionAborted() if aborted else self.ConnectionDone()
        self.guard("xclose", self.tls[p].connectionLost, self.Failure(reason))
        if not self.pipe[p] and not self.eof_done[p]:
            self.eof(p)

    def quiesce(self):
        for _ in range(200):
            moved = False
            for p in (0, 1):                  # no back-pressure from the underlying transports at quiescence
                pr = self.tr[p].producer
                if pr is not None and getattr(pr, "_producerPaused", False):
                    self.guard("tresume", pr.resumeProducing)
            for p in (0, 1):
                if self.pipe[p] or (self.eof_pending[p] and not self.eof_done[p]):
                    self.deliver(p, 0)
                    moved = True
            if self.clock.getDelayedCalls():
                self.ev.append({"e": "tick"})
                self.guard("tick", self.clock.advance, 0)
                moved = True
            for p in (0, 1):
                if self.tstate[p] in ("closing", "aborted"):
                    self.xclose(p)
                    moved = True
            for p in (0, 1):
                pr = self.prod[p]
                if pr is not None and not pr.paused and not pr.stopped:
                    self.op(["produce", p])
                    moved = True
            if not moved:
                break
        self.ev.append({"e": "quiesce", "open": [self.tstate[0] != "closed", self.tstate[1] != "closed"]})


def run_plan(certpath, plan):
    c = Case(certpath, plan.get("variant", "buffered"))
    for o in plan["ops"]:
        c.op(o)
    return {"cfg": {"variant": plan.get("variant", "buffered")}, "plan": plan, "ev": c.ev}


def main():
    workdir = sys.argv[1]
    certpath = make_cert(workdir)
    plans = json.load(sys.stdin)
    out = []
    for plan in plans:
        out.append(run_plan(certpath, plan))
    import twisted
    import OpenSSL
    json.dump({"twisted": os.path.realpath(twisted.__file__), "pyopenssl": OpenSSL.__version__, "traces": out},
              sys.stdout, separators=(",", ":"))


if __name__ == "__main__":
    main()
