"""Shared binding for C18 / C19 / C21: drive one real twisted.web.http.HTTPChannel over a recording
StringTransport with a recording http.Request subclass.

What is here is *recording and concretisation only* -- no verdicts:

* `Conn`  builds the real channel, delivers bytes, lets the application answer now / later / never,
  lets the transport pause / resume the channel, loses the connection, and appends one event per
  observable (process() call with its arguments, every transport write, every notifyFinish callback,
  every public call's return) to `conn.ev` in program order;
* item-level request-stream generators (valid and mutated) with their concretisation to bytes.

Twisted is imported inside functions only (the manifest generator imports this module under another python).
"""
import re

CRLF = b"\r\n"

# --------------------------------------------------------------------------- the real connection


def hx(b):
    return bytes(b).hex()


def ints(b):
    return list(bytes(b))


class Conn:
    """One server connection.  plan(r) -> dict(kind='now'|'later'|'never', nd=0..2, style='cl'|'chunked',
    pre=<body pieces written inside process()>)  describes the deterministic resource."""

    HEAD_RE = re.compile(rb"^HTTP/1\.[01] \d\d\d [^\r\n]*\r\n(?:[^\r\n]+\r\n)*?X-R: (\d+)\r\n(?:[^\r\n]+\r\n)*\r\n$")
    BODY_RE = re.compile(rb"^(?:[0-9a-fA-F]+\r\n)?((?:\d+;)+)(?:\r\n)?$")

    def __init__(self, plan=None, record="c21", classify=True):
        from twisted.internet import address
        from twisted.internet.testing import StringTransport
        from twisted.web import http

        self.ev = []                 # C21 event log
        self.reqs = []               # delivered requests (C18 / C19): dicts of bytes
        self.out = []                # C19 output items in program order
        self.segs = []               # raw written segments (bytes) in order
        self.live = {}               # r -> Request object still usable by the application
        self.reqobj = {}             # r -> Request object (C21), kept for notifyFinish() calls made from callbacks
        self.ndefs = {}              # r -> number of notifyFinish Deferreds requested so far
        self.plan = plan or (lambda r: dict(kind="now", nd=0, style="cl", pre=1))
        self.nproc = 0
        self.record = record
        self.in_app = 0              # depth of application code on the stack (process / write / finish)
        self.lost = False
        conn = self

        class RecTransport(StringTransport):
            def write(self, data):
                conn._seg(bytes(data))
                StringTransport.write(self, data)

            def writeSequence(self, seq):
                conn._seg(b"".join(seq))
                # do not go through self.write again
                StringTransport.write(self, b"".join(seq))

        class RecRequest(http.Request):
            def process(self):
                conn._process(self)

        self.transport = RecTransport(
            hostAddress=address.IPv4Address("TCP", "127.0.0.1", 80),
            peerAddress=address.IPv4Address("TCP", "127.0.0.1", 54321),
        )
        self.channel = http.HTTPChannel()
        self.channel.requestFactory = RecRequest
        self.channel.timeOut = None
        self.channel.makeConnection(self.transport)

    # ---- observation points -------------------------------------------------
    def _seg(self, data):
        self.segs.append(data)
        if self.record == "c21":
            if data.startswith(b"HTTP/1.1 100 "):
                self.ev.append({"e": "seg", "k": "r100", "r": 0})
                return
            if re.match(rb"^HTTP/1\.[01] 400 ", data):
                self.ev.append({"e": "seg", "k": "r400", "r": 0})
                return
            m = self.HEAD_RE.match(data)
            if m:
                self.ev.append({"e": "seg", "k": "head", "r": int(m.group(1))})
                return
            if data == b"0\r\n\r\n":
                self.ev.append({"e": "seg", "k": "end", "r": 0})
                return
            m = self.BODY_RE.match(data)
            if m:
                ids = set(m.group(1).split(b";")) - {b""}
                if len(ids) == 1:
                    self.ev.append({"e": "seg", "k": "body", "r": int(ids.pop())})
                    return
            self.ev.append({"e": "seg", "k": "other", "r": 0})
        else:
            if self.in_app:
                self.out.append({"k": "app"})
            else:
                self.out.append({"k": "raw", "w": ints(data)})

    def _process(self, req):
        self.nproc += 1
        self.in_app += 1
        try:
            if self.record == "c21":
                m = re.match(rb"^/(\d+)$", req.uri)
                r = int(m.group(1)) if m else 0
                p = self.plan(r)
                self.ev.append({"e": "recv", "r": r, "nd": p["nd"]})
                self.live[r] = req
                self.reqobj[r] = req
                req._vr = r
                req._vstyle = p["style"]
                for d in range(1, p["nd"] + 1):
                    df = req.notifyFinish()
                    df.addCallbacks(self._notified, self._notified, callbackArgs=(r, d, True), errbackArgs=(r, d, False))
                req.setHeader(b"X-R", b"%d" % r)
                if p["style"] == "cl":
                    total = p["pre"] + p.get("post", 0)
                    req.setHeader(b"Content-Length", b"%d" % (total * len(b"%d;" % r)))
                for _ in range(p["pre"]):
                    req.write(b"%d;" % r)
                if p["kind"] == "now":
                    self.ev.append({"e": "finish", "r": r})
                    try:
                        req.finish()
                        self.ev.append({"e": "ret", "x": "ok"})
                    except Exception as e:
                        self.ev.append({"e": "ret", "x": "EXC:" + type(e).__name__})
                    self.live.pop(r, None)
            else:
                body = req.content.read()
                hs = []
                for name, values in req.requestHeaders.getAllRawHeaders():
                    for v in values:
                        hs.append([ints(name), ints(v)])
                n = self.nproc
                item = {"m": req.method, "t": req.uri, "v": req.clientproto, "h": hs, "b": body}
                self.reqs.append(item)
                self.out.append({"k": "req", "m": ints(req.method), "t": ints(req.uri), "v": ints(req.clientproto),
                                 "h": hs, "b": ints(body)})
                p = self.plan(n)
                import hashlib
                dig = hashlib.sha1(repr((req.method, req.uri, req.clientproto, hs, body)).encode()).hexdigest()[:8].encode()
                payload = b"R%d." % n + dig
                req.setHeader(b"Content-Length", b"%d" % len(payload))
                req.write(payload)
                if p["kind"] == "now":
                    req.finish()
                else:
                    self.live[n] = req
        finally:
            self.in_app -= 1

    def _notified(self, res, r, d, ok):
        self.ev.append({"e": "notify", "r": r, "d": d, "v": "none" if ok and res is None else ("fail" if not ok else "value")})
        # a finish callback may itself ask to be notified: the new Deferred has to fire exactly once too
        p = self.plan(r)
        if d <= p["nd"] and d <= p.get("renotify", 0) and r in self.reqobj:
            self.ndefs[r] = self.ndefs.get(r, p["nd"]) + 1
            d2 = self.ndefs[r]
            self.ev.append({"e": "nfreq", "r": r, "d": d2})
            df = self.reqobj[r].notifyFinish()
            df.addCallbacks(self._notified, self._notified, callbackArgs=(r, d2, True), errbackArgs=(r, d2, False))
        return None

    # ---- driver operations ---------------------------------------------------
    def _call(self, f, *a):
        try:
            f(*a)
            x = "ok"
        except Exception as e:   # recorded, not judged here
            x = "EXC:" + type(e).__name__
        self.ev.append({"e": "ret", "x": x})
        return x

    def can_deliver(self):
        t = self.transport
        return (not self.lost) and (not t.disconnecting) and t.producerState == "producing"

    def deliver(self, data, k=0):
        self.ev.append({"e": "deliver", "k": k})
        return self._call(self.channel.dataReceived, data)

    def app_write(self, r):
        req = self.live[r]
        self.ev.append({"e": "write", "r": r})
        self.in_app += 1
        try:
            return self._call(req.write, b"%d;" % r)
        finally:
            self.in_app -= 1

    def app_finish(self, r):
        req = self.live.pop(r)
        self.ev.append({"e": "finish", "r": r})
        self.in_app += 1
        try:
            return self._call(req.finish)
        finally:
            self.in_app -= 1

    def pause(self):
        self.ev.append({"e": "pause"})
        return self._call(self.channel.pauseProducing)

    def resume(self):
        self.ev.append({"e": "resume"})
        return self._call(self.channel.resumeProducing)

    def lose(self):
        from twisted.internet import error
        from twisted.python.failure import Failure

        self.lost = True
        self.ev.append({"e": "lost"})
        return self._call(self.channel.connectionLost, Failure(error.ConnectionDone()))

    def wire(self):
        return self.transport.value()

    def quiesce(self):
        """Deterministic 'later' resource: every pending request finishes as soon as the delivery call has returned."""
        guard = 0
        while self.live and guard < 100:
            guard += 1
            r = min(self.live)
            req = self.live.pop(r)
            self.in_app += 1
            try:
                req.finish()
            except Exception as e:
                self.out.append({"k": "exc", "x": type(e).__name__})
            finally:
                self.in_app -= 1

    def observation(self):
        """What C18 compares: requests received (all parts), bytes written, closed."""
        rs = []
        for it in self.reqs:
            h = ";".join(bytes(n).hex() + ":" + bytes(v).hex() for n, v in it["h"])
            rs.append(".".join([it["m"].hex(), it["t"].hex(), it["v"].hex(), h, it["b"].hex()]))
        return {"reqs": rs, "wire": self.wire().hex(), "closed": bool(self.transport.disconnecting)}


def run_pieces(stream, cuts, mode="now"):
    """Deliver stream up to each cut position in turn (stop delivering once the server has asked to close,
    as a real transport does).  Returns the observation after each cut."""
    plan = (lambda n: dict(kind="now" if mode == "now" else "later", nd=0, style="cl", pre=0))
    c = Conn(plan=plan, record="c18")
    obs = []
    off = 0
    held = b""          # bytes the transport holds back while the channel has paused it (delayed, never dropped)

    def push():
        nonlocal held
        if held and c.can_deliver():
            data, held = held, b""
            x = c.deliver(data)
            if x != "ok":
                c.out.append({"k": "exc", "x": x})
            return True
        return False

    for n in cuts:
        if n > off and not c.transport.disconnecting:
            held += stream[off:n]
            push()
            # "later": pending requests finish right after every delivery call; "end": only after the last one
            if mode == "later" or (mode == "end" and n == cuts[-1]):
                for _ in range(50):
                    c.quiesce()
                    if not push():
                        break
        off = max(off, n)
        o = c.observation()
        excs = [y["x"] for y in c.out if y["k"] == "exc"]
        if excs:
            o["wire"] += "!EXC:" + ",".join(excs)
        obs.append(o)
    return obs


def long_streams():
    """Streams around the implementation limits (LineReceiver.MAX_LENGTH 16384, totalHeadersSize 16384,
    maxHeaders 500, chunk-size line 1024, _optimisticEagerReadSize 0x4000).  C18 only (pure differential)."""
    G = b"GET / HTTP/1.1"
    for n in (16384 - 6, 16384 - 5, 16384 - 4):
        yield "long-field-line-%d" % (n + 6), req(G, [b"X-L: " + b"a" * n]) + FOLLOW
    for n in (16384 - 14, 16384 - 13, 16384 - 12):
        yield "long-target-%d" % (n + 14), req(b"GET /" + b"t" * (n - 1) + b" HTTP/1.1", [b"Host: h"]) + FOLLOW
    yield "total-header-size", req(G, [b"X-%d: " % i + b"v" * 4000 for i in range(5)]) + FOLLOW
    yield "many-headers-501", req(G, [b"X-%d: v" % i for i in range(501)]) + FOLLOW
    yield "many-headers-500", req(G, [b"X-%d: v" % i for i in range(500)]) + FOLLOW
    for n in (1021, 1022, 1023):
        yield "long-chunk-ext-%d" % n, req(b"POST /p HTTP/1.1", [b"Transfer-Encoding: chunked"], b"3;" + b"e" * n + b"\r\nabc\r\n0\r\n\r\n") + FOLLOW
    yield "big-body-then-pipelined", req(b"POST /p HTTP/1.1", [b"Content-Length: 20000"], b"B" * 20000) + FOLLOW + FOLLOW
    yield "pipelined-behind-big", FOLLOW + req(b"POST /p HTTP/1.1", [b"Content-Length: 17000"], b"C" * 17000) + FOLLOW
    yield "long-line-no-crlf", b"GET /" + b"x" * 17000
    # trailer sections around the chunked decoder's 64 KiB trailer limit (size counted with the CR LFs of the field lines)
    for nlines in (1, 16):
        for n in (65533, 65534, 65535, 65536, 65537, 65538, 65539):
            lines = [b"T%x: " % i + b"t" * (4094 - 3 - len(b"%x" % i)) for i in range(nlines - 1)]
            rest = n - (nlines - 1) * 4096
            lines.append(b"L: " + b"l" * (rest - 2 - 3))
            tr = b"".join(l + CRLF for l in lines)
            assert len(tr) == n
            yield "trailer-section-%dx%d" % (n, nlines), req(b"POST /t HTTP/1.1", [b"Transfer-Encoding: chunked"], b"3\r\nabc\r\n0\r\n" + tr + CRLF) + FOLLOW


# --------------------------------------------------------------------------- C21: well-formed pipelines


def c21_stream(rng, nreq, big=False):
    """nreq well-formed requests with uri /<r>.  Returns (bytes, ends[r] = offset just past request r,
    closing[r], descr)."""
    out = b""
    ends, closing, descr = [], [], []
    for r in range(1, nreq + 1):
        ver = b"HTTP/1.0" if rng.random() < 0.12 else b"HTTP/1.1"
        bodykind = rng.choice(["none", "none", "cl", "chunked"])
        meth = b"GET" if bodykind == "none" else b"POST"
        if bodykind == "none" and rng.random() < 0.15:
            meth = b"HEAD"
        lines = [meth + b" /%d " % r + ver]
        close = ver == b"HTTP/1.0"
        if rng.random() < 0.5:
            lines.append(b"Host: h")
        if ver == b"HTTP/1.1" and rng.random() < 0.1:
            lines.append(b"Connection: close")
            close = True
        body = b""
        if bodykind == "cl":
            n = rng.choice([0, 1, 5, 40]) if not (big and rng.random() < 0.5) else 20000
            payload = bytes(rng.randrange(256) for _ in range(min(n, 64))) * (n // 64 + 1)
            payload = payload[:n]
            lines.append(b"Content-Length: %d" % n)
            body = payload
        elif bodykind == "chunked":
            lines.append(b"Transfer-Encoding: chunked")
            for _ in range(rng.randrange(3)):
                n = rng.choice([1, 3, 17])
                body += b"%x\r\n" % n + bytes(rng.randrange(256) for _ in range(n)) + CRLF
            body += b"0\r\n\r\n"
        if bodykind != "none" and ver == b"HTTP/1.1" and rng.random() < 0.3:
            lines.append(b"Expect: 100-continue")
        out += CRLF.join(lines) + CRLF + CRLF + body
        ends.append(len(out))
        closing.append(close)
        descr.append((meth.decode(), ver.decode(), bodykind, close))
    return out, ends, closing, descr


# --------------------------------------------------------------------------- C18 / C19: grammar-generated request streams

METHODS = [b"GET", b"POST", b"PUT", b"HEAD", b"OPTIONS", b"DELETE", b"M-SEARCH", b"get", b"X!#$%&'*+-.^_`|~9"]
TARGETS = [b"/", b"/a/b?x=1&y=2", b"*", b"http://h.example/p?q", b"/%41%20", b"h.example:443", b"/~u/;p=1,2@:$-_.+!*'()"]
FOLLOW = b"GET /after HTTP/1.1\r\nHost: f\r\n\r\n"
SMUGGLE = b"GET /smuggled HTTP/1.1\r\nHost: s\r\n\r\n"


def enc_chunked(parts, exts=(), trailers=(), last=b"0", upper=False):
    out = b""
    for i, p in enumerate(parts):
        size = (b"%X" if upper else b"%x") % len(p)
        ext = exts[i] if i < len(exts) else b""
        out += size + ext + CRLF + p + CRLF
    out += last + CRLF + b"".join(t + CRLF for t in trailers) + CRLF
    return out


def req(rl, headers=(), body=b""):
    return rl + CRLF + b"".join(h + CRLF for h in headers) + CRLF + body


def payload(rng, n):
    alphabet = [0x00, 0x0a, 0x0d, 0x20, 0x30, 0x3a, 0x41, 0x7f, 0x80, 0xff]
    return bytes(rng.choice(alphabet) if rng.random() < 0.4 else rng.randrange(256) for _ in range(n))


def valid_request(rng, tag=b"v"):
    """A well-formed request with random benign variation.  Returns (bytes, closing?)."""
    m = rng.choice(METHODS)
    t = rng.choice(TARGETS)
    ver = b"HTTP/1.0" if rng.random() < 0.1 else b"HTTP/1.1"
    hs = []
    close = ver == b"HTTP/1.0"
    if rng.random() < 0.7:
        hs.append(rng.choice([b"Host: h", b"host:h", b"HOST:\th \t", b"X-Empty:", b"X-C: a:b: c", b"Accept: */*;q=0.5, text/x"]))
    if rng.random() < 0.3:
        hs.append(rng.choice([b"X-Dup: 1", b"x-dup: 2", b"X-Obs: caf\xe9 \xff", b"Cookie: a=b; c=d"]))
        if rng.random() < 0.5:
            hs.append(b"X-DUP: 3")
    body = b""
    k = rng.random()
    if k < 0.3:
        n = rng.choice([0, 1, 2, 7, 26])
        body = SMUGGLE[:n] if rng.random() < 0.3 else payload(rng, n)
        if n == 26 and rng.random() < 0.5:
            body = SMUGGLE[:26]
        hs.insert(rng.randrange(len(hs) + 1), rng.choice([b"Content-Length: %d", b"content-length:%d", b"CONTENT-LENGTH: \t%d  ", b"Content-Length: 0%d"]) % len(body))
    elif k < 0.55:
        parts = [SMUGGLE if rng.random() < 0.2 else payload(rng, rng.choice([1, 2, 5, 16])) for _ in range(rng.randrange(3))]
        exts = [rng.choice([b"", b"", b";x", b";x=y", b';x="q s"', b";a;b=c"]) for _ in parts]
        trailers = rng.choice([(), (), (b"T: v",), (b"T: v", b"U:w")])
        body = enc_chunked(parts, exts, trailers, last=rng.choice([b"0", b"0", b"000", b"0;l=1"]), upper=rng.random() < 0.3)
        hs.insert(rng.randrange(len(hs) + 1), rng.choice([b"Transfer-Encoding: chunked", b"transfer-encoding:Chunked", b"Transfer-Encoding: \tCHUNKED "]))
    if body and ver == b"HTTP/1.1" and rng.random() < 0.25:
        hs.append(rng.choice([b"Expect: 100-continue", b"expect: 100-Continue"]))
    if ver == b"HTTP/1.1" and rng.random() < 0.08:
        hs.append(rng.choice([b"Connection: close", b"connection: Close"]))
        close = True
    return req(m + b" " + t + b" " + ver, hs, body), close


def byte_class(b):
    if b in (0x0d, 0x0a, 0x00, 0x09, 0x20):
        return {0x0d: "CR", 0x0a: "LF", 0x00: "NUL", 0x09: "HTAB", 0x20: "SP"}[b]
    if b < 0x20:
        return "CTL"
    if b == 0x7f:
        return "DEL"
    if b >= 0x80:
        return "obs-text"
    if chr(b).isalnum():
        return "alnum"
    if chr(b) in "!#$%&'*+-.^_`|~":
        return "tchar-punct"
    return "delim-%02x" % b


# class representatives incl. the boundary members of every class (quick tier; thorough uses all 256)
REPR_BYTES = {0, 1, 8, 9, 10, 11, 12, 13, 27, 31, 32, 33, 34, 35, 40, 44, 45, 47, 48, 57, 58, 59, 61, 64, 65, 70, 71, 90, 92, 95, 97,
              102, 103, 122, 123, 126, 127, 128, 160, 176, 177, 254, 255}


def mutated_requests(thorough=False):
    """Deterministic catalogue of single-mutation requests: yields (label, request bytes).
    Every byte value appears in the target, in a field name, in a field value and in a chunk extension."""
    G = b"GET / HTTP/1.1"
    P = b"POST /p HTTP/1.1"
    for b in range(256):
        c = bytes([b])
        cl = byte_class(b)
        yield "rl-target-byte:" + cl, req(b"GET /a" + c + b"z HTTP/1.1", [b"Host: h"])
        if not thorough and b not in REPR_BYTES:
            continue
        yield "rl-method-byte:" + cl, req(b"G" + c + b"T / HTTP/1.1", [b"Host: h"])
        yield "field-name-byte:" + cl, req(G, [b"X" + c + b"n: v"])
        yield "field-value-byte:" + cl, req(G, [b"X-V: a" + c + b"z"])
        # the same octet as the LAST and as the FIRST octet of the method / field name (a trailing LF is where "$" lies)
        yield "rl-method-last-byte:" + cl, req(b"GE" + c + b" / HTTP/1.1", [b"Host: h"])
        yield "rl-method-first-byte:" + cl, req(c + b"ET / HTTP/1.1", [b"Host: h"])
        yield "field-name-last-byte:" + cl, req(G, [b"Xn" + c + b": v"])
        yield "field-name-first-byte:" + cl, req(G, [b"Host: h", c + b"n: v"])
        yield "cl-name-last-byte:" + cl, req(P, [b"Content-Length" + c + b": 3"], b"abc")
        yield "te-name-last-byte:" + cl, req(P, [b"Transfer-Encoding" + c + b": chunked"], b"3\r\nabc\r\n0\r\n\r\n")
        yield "chunk-ext-byte:" + cl, req(P, [b"Transfer-Encoding: chunked"], b"3;e" + c + b"\r\nabc\r\n0\r\n\r\n")
        yield "chunk-size-byte:" + cl, req(P, [b"Transfer-Encoding: chunked"], b"3" + c + b"\r\nabc\r\n0\r\n\r\n")
        yield "cl-value-byte:" + cl, req(P, [b"Content-Length: 1" + c], b"x" * 20)
    rls = {
        "rl-two-parts": b"GET /", "rl-one-part": b"GET", "rl-four-parts": b"GET / x HTTP/1.1", "rl-sp-in-target": b"GET /a b HTTP/1.1",
        "rl-double-sp": b"GET  / HTTP/1.1", "rl-double-sp2": b"GET /  HTTP/1.1", "rl-htab-sep": b"GET\t/\tHTTP/1.1",
        "rl-leading-sp": b" GET / HTTP/1.1", "rl-trailing-sp": b"GET / HTTP/1.1 ", "rl-empty-method": b" / HTTP/1.1",
        "rl-empty-target": b"GET  HTTP/1.1", "rl-version-1.2": b"GET / HTTP/1.2", "rl-version-2.0": b"GET / HTTP/2.0",
        "rl-version-0.9": b"GET / HTTP/0.9", "rl-version-short": b"GET / HTTP/1.", "rl-version-long": b"GET / HTTP/1.10",
        "rl-version-nodot": b"GET / HTTP/11", "rl-version-lower": b"GET / http/1.1", "rl-version-none": b"GET / ",
        "rl-version-junk": b"GET / HTTP/1.1x", "rl-version-ftp": b"GET / FTP/1.1", "rl-bare-cr": b"GET /\r HTTP/1.1",
        "rl-bare-lf-line": b"GET / HTTP/1.1\nHost: h", "rl-http09": b"GET /", "rl-method-colon": b"GE:T / HTTP/1.1",
        "rl-method-paren": b"GE(T / HTTP/1.1", "rl-long-method": b"A" * 40 + b" / HTTP/1.1",
    }
    for k, v in rls.items():
        yield k, req(v, [b"Host: h"])
    hdrs = {
        "field-no-colon": [b"garbage"], "field-no-colon-first-of-two": [b"garbage", b"Host: h"], "field-empty-name": [b": v"],
        "field-sp-before-colon": [b"Host : h"], "field-htab-before-colon": [b"Host\t: h"], "field-name-with-sp": [b"Bad Name: v"],
        "field-leading-ws-first": [b" Host: h"], "field-leading-htab-first": [b"\tHost: h"], "field-ws-only-first": [b" "],
        "obs-fold": [b"X-F: a", b" b"], "obs-fold-htab": [b"X-F: a", b"\tb  ", b"  c"], "obs-fold-ws-only": [b"X-F: a", b"  "],
        "obs-fold-then-field": [b"X-F: a", b" b", b"Host: h"], "obs-fold-colon": [b"X-F: a", b" Content-Length: 3"],
        "field-value-bare-cr-end": [b"X-V: a\r"], "field-value-bare-lf-smuggle": [b"X-V: a\nContent-Length: 3"],
        "field-value-bare-cr-smuggle": [b"X-V: a\rContent-Length: 3"], "field-value-only-ws": [b"X-V:  \t "],
        "field-name-only": [b"X-V"], "field-colon-only": [b":"],
    }
    for k, v in hdrs.items():
        yield k, req(G, v)
    body3 = b"abc"
    ch3 = b"3\r\nabc\r\n0\r\n\r\n"
    fr = {
        "cl-and-te": ([b"Content-Length: 3", b"Transfer-Encoding: chunked"], ch3),
        "te-and-cl": ([b"Transfer-Encoding: chunked", b"Content-Length: 3"], ch3),
        "cl-and-te-other-fields-between": ([b"Content-Length: 3", b"Host: h", b"Transfer-Encoding: chunked"], ch3),
        "cl-dup-same": ([b"Content-Length: 3", b"Content-Length: 3"], body3), "cl-dup-diff": ([b"Content-Length: 3", b"Content-Length: 0"], body3),
        "cl-dup-case": ([b"Content-Length: 3", b"content-length: 3"], body3), "cl-list-same": ([b"Content-Length: 3, 3"], body3),
        "cl-list-diff": ([b"Content-Length: 3,0"], body3), "cl-empty": ([b"Content-Length:"], body3), "cl-alpha": ([b"Content-Length: abc"], body3),
        "cl-negative": ([b"Content-Length: -3"], body3), "cl-plus": ([b"Content-Length: +3"], body3), "cl-float": ([b"Content-Length: 3.0"], body3),
        "cl-hex": ([b"Content-Length: 0x3"], body3), "cl-inner-sp": ([b"Content-Length: 3 3"], body3), "cl-underscore": ([b"Content-Length: 1_0"], b"x" * 10),
        "cl-superscript": ([b"Content-Length: \xb3"], body3), "cl-fold-value": ([b"Content-Length:", b" 3"], body3),
        "cl-fold-split-digits": ([b"Content-Length: 1", b" 0"], b"x" * 10), "cl-sp-before-colon": ([b"Content-Length : 3"], body3),
        "cl-underscore-name": ([b"Content_Length: 3"], b""), "cl-short-body": ([b"Content-Length: 50"], body3),
        "te-gzip": ([b"Transfer-Encoding: gzip"], ch3), "te-gzip-chunked": ([b"Transfer-Encoding: gzip, chunked"], ch3),
        "te-chunked-gzip": ([b"Transfer-Encoding: chunked, gzip"], ch3), "te-chunked-twice": ([b"Transfer-Encoding: chunked, chunked"], ch3),
        "te-chunked-two-lines": ([b"Transfer-Encoding: chunked", b"Transfer-Encoding: chunked"], ch3),
        "te-gzip-then-chunked-lines": ([b"Transfer-Encoding: gzip", b"Transfer-Encoding: chunked"], ch3),
        "te-xchunked": ([b"Transfer-Encoding: xchunked"], ch3), "te-chunked-param": ([b"Transfer-Encoding: chunked;q=1"], ch3),
        "te-empty": ([b"Transfer-Encoding:"], b""), "te-identity": ([b"Transfer-Encoding: identity"], b""),
        "te-identity-cl": ([b"Transfer-Encoding: identity", b"Content-Length: 3"], body3),
        "te-identity-chunked-lines": ([b"Transfer-Encoding: identity", b"Transfer-Encoding: chunked"], ch3),
        "te-sp-before-colon": ([b"Transfer-Encoding : chunked"], ch3), "te-quoted": ([b'Transfer-Encoding: "chunked"'], ch3),
        "te-fold": ([b"Transfer-Encoding:", b" chunked"], ch3), "te-vtab": ([b"Transfer-Encoding: \x0bchunked"], ch3),
        "te-underscore-name": ([b"Transfer_Encoding: chunked"], b""), "te-comma-first": ([b"Transfer-Encoding: , chunked"], ch3),
        "expect-100-cl": ([b"Expect: 100-continue", b"Content-Length: 3"], body3), "expect-100-bad-cl": ([b"Expect: 100-continue", b"Content-Length: x"], body3),
        "expect-other": ([b"Expect: 200-ok", b"Content-Length: 3"], body3),
        "conn-close": ([b"Connection: close"], b""), "conn-keep-alive": ([b"Connection: keep-alive"], b""),
    }
    if True:
        fr.update({
            "conn-close-list-first": ([b"Connection: close, x-opt"], b""), "conn-close-list-last": ([b"Connection: x-opt, close"], b""),
            "conn-close-list-nosp": ([b"Connection: x-opt,close"], b""), "conn-close-second-line": ([b"Connection: x-opt", b"Connection: close"], b""),
            "conn-close-upper": ([b"Connection: CLOSE"], b""),
        })
    for k, (h, b) in fr.items():
        yield k, req(P, h, b)
    # every ordered pair (and every single one) of framing fields, zero and non-zero lengths first and second,
    # adjacent and with another field between them
    FR = [("cl0", b"Content-Length: 0"), ("cl3", b"Content-Length: 3"), ("cl5", b"Content-Length: 5"),
          ("clbad", b"Content-Length: 3x"), ("tech", b"Transfer-Encoding: chunked"), ("tegz", b"Transfer-Encoding: gzip")]
    for ka, a in FR:
        yield "framing-single:" + ka, req(P, [a], ch3)
        for kb, b in FR:
            yield "framing-pair:%s,%s" % (ka, kb), req(P, [a, b], ch3)
            yield "framing-pair-apart:%s,%s" % (ka, kb), req(P, [a, b"Host: h", b], ch3)
    for ka, a in FR[:3]:
        yield "framing-triple:cl0,%s,tech" % ka, req(P, [FR[0][1], a, FR[4][1]], ch3)
        yield "framing-triple:tech,cl0,%s" % ka, req(P, [FR[4][1], FR[0][1], a], ch3)
    yield "http10-te-chunked", req(b"POST /p HTTP/1.0", [b"Transfer-Encoding: chunked"], ch3)
    yield "http10-keep-alive", req(b"GET / HTTP/1.0", [b"Connection: keep-alive"])
    yield "http10-expect-100", req(b"POST /p HTTP/1.0", [b"Expect: 100-continue", b"Content-Length: 3"], body3)
    TE = [b"Transfer-Encoding: chunked"]
    ch = {
        "chunk-size-nonhex": b"g\r\nabc\r\n0\r\n\r\n", "chunk-size-empty": b"\r\nabc\r\n0\r\n\r\n", "chunk-size-0x": b"0x3\r\nabc\r\n0\r\n\r\n",
        "chunk-size-neg": b"-3\r\nabc\r\n0\r\n\r\n", "chunk-size-plus": b"+3\r\nabc\r\n0\r\n\r\n", "chunk-size-leading-sp": b" 3\r\nabc\r\n0\r\n\r\n",
        "chunk-size-trailing-sp": b"3 \r\nabc\r\n0\r\n\r\n", "chunk-size-bws-ext": b"3 ;x\r\nabc\r\n0\r\n\r\n", "chunk-size-upper": b"A\r\n0123456789\r\n0\r\n\r\n",
        "chunk-size-leading-zeros": b"0003\r\nabc\r\n0\r\n\r\n", "chunk-data-too-long": b"3\r\nabcd\r\n0\r\n\r\n", "chunk-data-too-short": b"3\r\nab\r\n0\r\n\r\n",
        "chunk-data-no-crlf": b"3\r\nabc0\r\n\r\n", "chunk-data-two-junk-octets": b"3\r\nabcXY0\r\n\r\n",
        "chunk-data-lf-lf": b"3\r\nabc\n\n0\r\n\r\n", "chunk-data-cr-cr": b"3\r\nabc\r\r0\r\n\r\n", "chunk-data-lf-cr": b"3\r\nabc\n\r0\r\n\r\n",
        "chunk-data-junk-then-chunk": b"3\r\nabc--2\r\nde\r\n0\r\n\r\n", "chunk-data-lf-only": b"3\r\nabc\n0\r\n\r\n", "chunk-data-cr-only": b"3\r\nabc\r0\r\n\r\n",
        "chunk-size-lf-only": b"3\nabc\r\n0\r\n\r\n", "chunk-last-missing": b"3\r\nabc\r\n", "chunk-trailer": b"3\r\nabc\r\n0\r\nT: v\r\n\r\n",
        "chunk-trailer-no-colon": b"3\r\nabc\r\n0\r\ngarbage\r\n\r\n", "chunk-no-final-crlf": b"3\r\nabc\r\n0\r\n", "chunk-ext-empty": b"3;\r\nabc\r\n0\r\n\r\n",
        "chunk-ext-token": b"3;a=b\r\nabc\r\n0\r\n\r\n", "chunk-ext-quoted": b'3;a="b c"\r\nabc\r\n0\r\n\r\n', "chunk-body-looks-like-request": b"%x\r\n" % len(SMUGGLE) + SMUGGLE + b"\r\n0\r\n\r\n",
        "chunk-zero-then-data": b"0\r\n\r\n3\r\nabc\r\n0\r\n\r\n", "chunk-size-semicolon-first": b";3\r\nabc\r\n0\r\n\r\n",
    }
    if True:
        ch.update({"chunk-ext-quoted-pair": b'3;a="b\\"c"\r\nabc\r\n0\r\n\r\n', "chunk-ext-quoted-backslash": b'3;a="b\\\\c"\r\nabc\r\n0\r\n\r\n'})
    for k, v in ch.items():
        yield k, req(P, TE, v)
    yield "blank-before-request-1", CRLF + req(G, [b"Host: h"])
    yield "blank-before-request-2", CRLF + CRLF + req(G, [b"Host: h"])
    yield "blank-before-request-3", CRLF + CRLF + CRLF + req(G, [b"Host: h"])
    yield "lf-only-lines", b"GET / HTTP/1.1\nHost: h\n\n"
    yield "body-looks-like-request", req(P, [b"Content-Length: %d" % len(SMUGGLE)], SMUGGLE)
    yield "body-without-length", req(P, [b"Host: h"], b"")


def chunked_family():
    """Well-formed chunked requests with multi-digit sizes, extensions, several chunks, trailers, each followed by a
    pipelined request.  Returns (label, stream, positions inside / next to chunk-size lines) -- the positions are known
    from the construction."""
    def build(label, chunks, trailers=(), last=b"0", pre=b""):
        head = pre + b"POST /c HTTP/1.1\r\nHost: h\r\nTransfer-Encoding: chunked\r\n\r\n"
        out = head
        pos = set()
        for sizeline, data in chunks:
            a = len(out)
            out += sizeline + CRLF
            pos.update(range(a, len(out) + 2))
            out += data + CRLF
            pos.update((len(out) - 2, len(out) - 1, len(out)))
        a = len(out)
        out += last + CRLF + b"".join(t + CRLF for t in trailers) + CRLF
        pos.update(range(a, len(out) + 1))
        out += FOLLOW
        return label, out, sorted(p for p in pos if 0 < p < len(out))

    d = lambda n, c=b"d": (c * n)
    yield build("chunked:16-then-3", [(b"10", d(16)), (b"3", b"abc")])
    yield build("chunked:256-then-5", [(b"100", d(256)), (b"5", b"hello")])
    yield build("chunked:ext-then-1", [(b"a;name=value", d(10)), (b"1", b"x")])
    yield build("chunked:leading-zeros", [(b"00010", d(16, b"z")), (b"2", b"\r\n")])
    yield build("chunked:31-10-1-trailer", [(b"1f", d(31)), (b"a", d(10, b"e")), (b"1", b"!")], trailers=(b"T: v",))
    yield build("chunked:upper-ext-quoted", [(b'1F;x="q s";y', d(31, b"\n")), (b"B", d(11, b"\r"))], last=b"000;l")
    yield build("chunked:after-cl-request", [(b"12", d(18)), (b"4", b"0\r\n\r")],
                pre=b"POST /b HTTP/1.1\r\nContent-Length: 4\r\n\r\n1\r\nX")
    yield build("chunked:many-small", [(b"%x" % n, d(n, b"%d" % (n % 10))) for n in (17, 2, 16, 1, 32, 3)])


def c19_streams(rng, thorough=False, nrandom=200):
    """Yields (labels, stream bytes).  Catalogue mutants are followed by a well-formed request (so that
    'nothing after it is processed' is observable) and sometimes preceded by one."""
    for label, r in mutated_requests(thorough):
        yield [label], r + FOLLOW
        if rng.random() < 0.15:
            v, close = valid_request(rng)
            if not close:
                yield ["after-valid", label], v + r + FOLLOW
    for _ in range(nrandom):
        n = rng.randint(1, 3)
        s = b""
        for i in range(n):
            v, close = valid_request(rng)
            if rng.random() < 0.1:
                s += CRLF
            s += v
        yield ["valid-pipeline"], s
