"""X15 driver: the real twisted.names.client.Resolver on a fake reactor (task.Clock + recording UDP ports +
MemoryReactor TCP connectors).  One logged event per harness call / per delayed call fired by the clock.
twisted is imported only inside functions."""

NAMES = 3


def _qname(n):
    return ("n%d.example.com" % n).encode()


def _nameidx(name):
    s = name.decode() if isinstance(name, bytes) else str(name)
    return int(s.split(".")[0][1:])


def _guard(cur, f, *a, **kw):
    """run a call into the code under test; an escaping exception is an observed outcome (TLC rejects it), not a harness crash"""
    try:
        return f(*a, **kw)
    except Exception as e:
        cur["raised"] = type(e).__name__
        return None


def run_history(cfg, ops, rseed=0):
    """cfg = {"ns": servers, "T": [timeouts], "idmax": id space}; ops = list of op lists (see step())."""
    import errno
    import random
    import struct
    from twisted.internet import error
    from twisted.internet.address import IPv4Address
    from twisted.internet.testing import MemoryReactorClock, StringTransport
    from twisted.names import client, dns
    from twisted.python import log as tlog
    from twisted.python.failure import Failure

    ns, T, idmax = cfg["ns"], list(cfg["T"]), cfg["idmax"]
    rnd = random.Random(rseed)
    servers = [("10.1.0.%d" % (i + 1), 53) for i in range(ns)]
    ev = []
    cur = {}          # observations of the event being recorded

    def guard(f, *a, **kw):
        return _guard(cur, f, *a, **kw)
    st = dict(nrep=0)

    def blank(e):
        return dict(e, sent=[], closed=[], connects=[], tcpsent=[], fired=[], unexpected=0, logerr=0, raised="")

    class Port:
        def __init__(self, n, num, proto):
            self.n, self.num, self.proto, self.closed = n, num, proto, False

        def write(self, data, addr=None):
            m = dns.Message()
            m.fromStr(data)
            srv = servers.index(tuple(addr)) + 1 if tuple(addr) in servers else 0
            cur["sent"].append([self.n, srv, m.id, _nameidx(m.queries[0].name.name) if len(m.queries) == 1 else 0])

        def stopListening(self):
            if not self.closed:
                self.closed = True
                cur["closed"].append(self.n)
                self.proto.doStop()

        def getHost(self):
            return IPv4Address("UDP", "0.0.0.0", self.num)

    class R(MemoryReactorClock):
        def __init__(self):
            MemoryReactorClock.__init__(self)
            self.ports = []

        def listenUDP(self, port, protocol, interface="", maxPacketSize=8192):
            openp = [p for p in self.ports if not p.closed]
            if any(p.num == port for p in openp) and len(openp) < idmax:
                raise error.CannotListenError(interface, port, OSError(errno.EADDRINUSE, "in use"))
            p = Port(len(self.ports) + 1, port, protocol)
            self.ports.append(p)
            protocol.makeConnection(p)
            return p

        def callLater(self, delay, f, *a, **kw):
            def fire():
                begin({"e": "fire"})
                guard(f, *a, **kw)
                end()
            return MemoryReactorClock.callLater(self, delay, fire)

    reactor = R()
    conns = []        # per connectTCP call: dict(state, proto, tr, off, asked=[ids written], answered=set())

    def begin(e):
        cur.clear()
        cur.update(blank(e))
        cur["_ntcp"] = len(reactor.tcpClients)

    def end():
        for host, port, factory, timeout, bind in reactor.tcpClients[cur.pop("_ntcp"):]:
            cur["connects"].append(servers.index((host, port)) + 1 if (host, port) in servers else 0)
            conns.append(dict(state="connecting", proto=None, tr=None, off=0, asked=[], factory=factory))
        for ci, c in enumerate(conns):
            if c["tr"] is None:
                continue
            data = c["tr"].value()
            while len(data) - c["off"] >= 2:
                (ln,) = struct.unpack("!H", data[c["off"]:c["off"] + 2])
                if len(data) - c["off"] - 2 < ln:
                    break
                m = dns.Message()
                m.fromStr(data[c["off"] + 2:c["off"] + 2 + ln])
                c["off"] += 2 + ln
                c["asked"].append([m.id, _nameidx(m.queries[0].name.name) if len(m.queries) == 1 else 0, False])
                cur["tcpsent"].append([ci + 1, m.id, _nameidx(m.queries[0].name.name) if len(m.queries) == 1 else 0])
        cur["timers"] = len(reactor.getDelayedCalls())
        cur.pop("_draws", None)
        ev.append(dict(cur))

    def observer(d):
        if d.get("isError"):
            cur["logerr"] = cur.get("logerr", 0) + 1
        elif "Unexpected message" in " ".join(str(x) for x in d.get("message", ())):
            cur["unexpected"] = cur.get("unexpected", 0) + 1

    handles = []

    def on_result(r, h):
        if isinstance(r, Failure):
            cur["fired"].append([h, r.type.__name__, 0])
        else:
            try:
                ans = r[0][0].payload.dottedQuad().split(".")
                cur["fired"].append([h, "ok", int(ans[2]) * 256 + int(ans[3])])
            except Exception as e:       # an unexpected result shape is logged, TLC rejects it
                cur["fired"].append([h, "weird:" + type(e).__name__, 0])

    def message(i, name, kind, rc):
        st["nrep"] += 1
        m = dns.Message(id=i, answer=1, trunc=1 if kind == "trunc" else 0, rCode=rc if kind == "err" else 0)
        m.queries = [dns.Query(_qname(name), dns.A, dns.IN)]
        if kind == "ok":
            r = st["nrep"]
            m.answers = [dns.RRHeader(_qname(name), dns.A, dns.IN, 60, dns.Record_A("10.0.%d.%d" % (r // 256, r % 256)))]
        return m.toStr()

    def open_attempts():
        return [p for p in reactor.ports if not p.closed]

    def pick(seq, sel):
        return seq[sel % len(seq)] if seq else None

    def wrong(i):
        return (i % idmax) + 1 if idmax > 1 else i + 1

    def step(op):
        k = op[0]
        if k == "lookup":
            begin({"e": "lookup", "n": op[1]})
            h = len(handles) + 1
            d = guard(resolver.lookupAddress, _qname(op[1]), timeout=tuple(T))
            handles.append(d)
            if d is not None:
                d.addBoth(on_result, h)
            end()
        elif k in ("reply", "garbage"):
            # op = [reply, sel, prefer_open, idmode, kind, rc, spoof, echoed name (0 = the one asked)]
            cands = open_attempts() if op[2] else list(reactor.ports)
            p = pick(cands or list(reactor.ports), op[1])
            if p is None:
                return
            sent_id = port_id[p.n]
            i = sent_id if op[3] == "right" else wrong(sent_id)
            if k == "garbage":
                st["nrep"] += 1
                begin({"e": "reply", "a": p.n, "i": i, "kind": "garbage", "rc": 0, "v": st["nrep"], "qn": port_name[p.n], "spoof": False})
                data = b"\x00\x01"
            else:
                qn = (op[7] if len(op) > 7 else 0) or port_name[p.n]      # the question section the "server" echoes
                data = message(i, qn, op[4], op[5])
                begin({"e": "reply", "a": p.n, "i": i, "kind": op[4], "rc": op[5], "v": st["nrep"], "qn": qn, "spoof": bool(op[6])})
            if not p.closed:     # a datagram to a closed port is dropped by the OS
                guard(p.proto.datagramReceived, data, ("6.6.6.6", 53) if op[6] else servers[port_srv[p.n] - 1])
            end()
        elif k == "advance":
            begin({"e": "advance", "d": op[1]})
            end()
            reactor.advance(op[1])
        elif k in ("connup", "connfail", "connlost"):
            want = "up" if k == "connlost" else "connecting"
            cs = [i for i, c in enumerate(conns) if c["state"] == want]
            ci = pick(cs, op[1])
            if ci is None:
                return
            c = conns[ci]
            host, port, factory, timeout, bind = reactor.tcpClients[ci]
            begin({"e": k, "c": ci + 1})
            if k == "connup":
                c["proto"] = factory.buildProtocol(IPv4Address("TCP", host, port))
                c["proto"].callLater = reactor.callLater      # documented test hook of DNSMixin
                c["tr"] = StringTransport()
                c["state"] = "up"
                guard(c["proto"].makeConnection, c["tr"])
            elif k == "connfail":
                c["state"] = "failed"
                guard(factory.clientConnectionFailed, reactor.connectors[ci], Failure(error.ConnectionRefusedError()))
            else:
                c["state"] = "lost"
                guard(c["proto"].connectionLost, Failure(error.ConnectionDone()))
            end()
        elif k == "tcpreply":
            # op = [tcpreply, csel, qsel, idmode, kind, rc, echoed name (0 = the one asked)]
            cs = [i for i, c in enumerate(conns) if c["state"] == "up"]
            ci = pick(cs, op[1])
            if ci is None:
                return
            c = conns[ci]
            out = [q for q in c["asked"] if not q[2]] or c["asked"]
            q = pick(out, op[2])
            if q is None:
                i, name = 1, 1
            else:
                i, name = q[0], q[1]
            if op[3] != "right":
                i = wrong(i)
            for qq in c["asked"]:              # a sane server echoes the question it was asked under this id
                if qq[0] == i and not qq[2]:
                    name = qq[1]
                    break
            name = (op[6] if len(op) > 6 else 0) or name
            data = message(i, name, op[4], op[5])
            begin({"e": "tcpreply", "c": ci + 1, "i": i, "kind": op[4], "rc": op[5], "v": st["nrep"], "qn": name})
            for qq in c["asked"]:
                if qq[0] == i and not qq[2]:
                    qq[2] = True
                    break
            guard(c["proto"].dataReceived, struct.pack("!H", len(data)) + data)
            end()
        else:
            raise ValueError(op)

    port_id, port_name, port_srv = {}, {}, {}
    saved = dns.randomSource

    def small_random():
        # seeded stand-in for dns.randomSource; a caller spinning on it (pickID with no free id) is cut off
        cur["_draws"] = cur.get("_draws", 0) + 1
        if cur["_draws"] > 3000:
            raise RuntimeError("randomSource drawn 3000 times within one call")
        return rnd.randint(1, idmax)

    dns.randomSource = small_random
    tlog.addObserver(observer)
    try:
        resolver = client.Resolver(servers=list(servers), timeout=tuple(T), reactor=reactor)
        for op in ops:
            n0 = len(ev)
            step(op)
            for e in ev[n0:]:
                for a, srv, i, name in e["sent"]:
                    port_id[a], port_name[a], port_srv[a] = i, name, srv
        begin({"e": "end"})
        end()
    finally:
        tlog.removeObserver(observer)
        dns.randomSource = saved
    return {"cfg": cfg, "ops": [list(o) for o in ops], "rseed": rseed, "ev": ev}


def run_proto_history(cfg, ops, rseed=0):
    """Second layer: one shared dns.DNSDatagramProtocol driven directly.  cfg = {"idmax": n}."""
    import random
    from twisted.internet import task
    from twisted.names import dns
    from twisted.python import log as tlog
    from twisted.python.failure import Failure

    idmax = cfg["idmax"]
    rnd = random.Random(rseed)
    ev, cur = [], {}
    server = ("10.1.0.1", 53)

    def guard(f, *a, **kw):
        return _guard(cur, f, *a, **kw)

    def begin(e):
        cur.clear()
        cur.update(dict(e, sent=[], listens=0, fired=[], unexpected=0, logerr=0, raised=""))

    def end():
        cur["timers"] = len(clock.getDelayedCalls())
        cur.pop("_draws", None)
        ev.append(dict(cur))

    class Port:
        closed = False

        def __init__(self, proto):
            self.proto = proto

        def write(self, data, addr=None):
            m = dns.Message()
            m.fromStr(data)
            cur["sent"].append(m.id)

        def stopListening(self):
            if not self.closed:
                self.closed = True
                self.proto.doStop()

    class R(task.Clock):
        def listenUDP(self, port, protocol, interface="", maxPacketSize=8192):
            cur["listens"] += 1
            p = Port(protocol)
            protocol.makeConnection(p)
            return p

        def callLater(self, delay, f, *a, **kw):
            def fire():
                begin({"e": "fire"})
                guard(f, *a, **kw)
                end()
            return task.Clock.callLater(self, delay, fire)

    class Controller:
        def messageReceived(self, message, protocol, address=None):
            cur["unexpected"] += 1

    def observer(d):
        if d.get("isError"):
            cur["logerr"] = cur.get("logerr", 0) + 1

    clock = R()
    issued = []        # per query: dict(id, done, epoch)
    st = dict(epoch=0, nrep=0)

    def on_result(r, q):
        issued[q - 1]["done"] = True
        if isinstance(r, Failure):
            cur["fired"].append([q, r.type.__name__, getattr(r.value, "id", 0)])
        else:
            try:
                ans = r.answers[0].payload.dottedQuad().split(".")
                cur["fired"].append([q, "ok", int(ans[2]) * 256 + int(ans[3])])
            except Exception as e:
                cur["fired"].append([q, "weird:" + type(e).__name__, 0])

    def step(op):
        k = op[0]
        if k == "query":
            want, t = op[1], op[2]
            if want:
                busy = {x["id"] for x in issued if not x["done"] and x["epoch"] == st["epoch"]}
                free = [i for i in range(1, idmax + 1) if i not in busy]
                if not free:
                    return
                want = free[want % len(free)]
            elif len([x for x in issued if not x["done"] and x["epoch"] == st["epoch"]]) >= idmax:
                return                      # pickID would spin for ever
            begin({"e": "query", "k": want, "t": t})
            d = guard(proto.query, server, [dns.Query(b"n1.example.com", dns.A, dns.IN)], timeout=t, id=want or None)
            issued.append(dict(id=cur["sent"][0] if cur["sent"] else 0, done=False, epoch=st["epoch"]))
            if d is not None:
                d.addBoth(on_result, len(issued))
            end()
        elif k in ("deliver", "garbage"):
            if proto.transport is None:
                return                      # closed port: the OS drops the datagram
            if k == "garbage":
                begin({"e": "garbage"})
                guard(proto.datagramReceived, b"\x00\x01", server)
            else:
                st["nrep"] += 1
                r = st["nrep"]
                m = dns.Message(id=op[1], answer=1)
                m.answers = [dns.RRHeader(b"n1.example.com", dns.A, dns.IN, 60, dns.Record_A("10.0.%d.%d" % (r // 256, r % 256)))]
                begin({"e": "deliver", "i": op[1], "v": r})
                guard(proto.datagramReceived, m.toStr(), server)
            end()
        elif k == "advance":
            begin({"e": "advance", "d": op[1]})
            end()
            clock.advance(op[1])
        elif k == "rmresend":
            if proto.transport is None:
                return
            begin({"e": "rmresend", "i": op[1]})
            guard(proto.removeResend, op[1])
            end()
        elif k == "stop":
            if proto.transport is None:
                return
            begin({"e": "stop"})
            guard(proto.transport.stopListening)
            st["epoch"] += 1
            end()
        else:
            raise ValueError(op)

    saved = dns.randomSource

    def small_random():
        # seeded stand-in for dns.randomSource; a caller spinning on it (pickID with no free id) is cut off
        cur["_draws"] = cur.get("_draws", 0) + 1
        if cur["_draws"] > 3000:
            raise RuntimeError("randomSource drawn 3000 times within one call")
        return rnd.randint(1, idmax)

    dns.randomSource = small_random
    tlog.addObserver(observer)
    try:
        proto = dns.DNSDatagramProtocol(Controller(), reactor=clock)
        for op in ops:
            step(op)
        begin({"e": "end"})
        end()
    finally:
        tlog.removeObserver(observer)
        dns.randomSource = saved
    return {"cfg": cfg, "ops": [list(o) for o in ops], "rseed": rseed, "ev": ev}
