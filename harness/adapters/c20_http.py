"""Helpers shared by C20 / C24 / C23 (HTTP wire format checks): octet classes, field generators,
and cause attribution for rejected executions.

Nothing here decides a verdict.  Attribution only *names* a rejected execution (fingerprint): it
re-runs variants of the rejected scenario on the real code with hazardous octets replaced by plain
ones and lets TLC validate those variants, so the fingerprint names the smallest input feature
that still makes TLC reject.
"""
import copy

ALPHA = list(range(65, 91)) + list(range(97, 123))
DIGIT = list(range(48, 58))
TPUNCT = [ord(c) for c in "!#$%&'*+-.^_`|~"]
CLASS_MEMBERS = {
    "LB": [13, 10],
    "NUL": [0],
    "CTL": [1, 8, 11, 12, 14, 27, 31, 127],
    "WS": [32, 9],
    "OBS": [128, 160, 233, 255],
    "SEMI": [59],
    "EQ": [61],
    "COLON": [58],
    "COMMA": [44],
    "DQ": [34],
    "PUNCT": [ord(c) for c in "()/<>?@[\\]{}"],
    "TPUNCT": TPUNCT,
    "DIGIT": DIGIT,
    "ALPHA": ALPHA,
}
PLAIN = {"ALPHA", "DIGIT"}
_CLS = {}
for _k, _v in CLASS_MEMBERS.items():
    for _b in _v:
        _CLS[_b] = _k
for _b in range(256):
    if _b not in _CLS:
        _CLS[_b] = "CTL" if _b < 32 else ("OBS" if _b >= 128 else "PUNCT")


def cls_of(b):
    """Class of an octet or code point."""
    if b > 255:
        return "UNI"
    return _CLS[b]


def classes_in(seq):
    return sorted({cls_of(b) for b in seq} - PLAIN)


def neutral(seq, cls, repl=120):
    return [repl if cls_of(b) == cls else b for b in seq]


def member(rng, cls, text=False):
    if cls == "UNI":
        return rng.choice([0x100, 0x3A9, 0x20AC, 0xFFFD, 0x1F600, 0x10FFFF])
    if cls == "CR":          # CR and LF are distinct grammar symbols in the enumerated families
        return 13
    if cls == "LF":
        return 10
    m = CLASS_MEMBERS[cls]
    return rng.choice(m)


def plain_seq(rng, lo=1, hi=6):
    return [rng.choice(ALPHA + DIGIT) for _ in range(rng.randint(lo, hi))]


def token_seq(rng, lo=1, hi=8):
    pool = ALPHA * 3 + DIGIT + TPUNCT
    return [rng.choice(pool) for _ in range(rng.randint(lo, hi))]


def spicy_seq(rng, classes, lo=0, hi=7, text=False, density=0.4):
    """Random sequence mixing plain octets with members of the given hazard classes."""
    n = rng.randint(lo, hi)
    out = []
    for _ in range(n):
        if rng.random() < density:
            c = rng.choice(classes)
            if c == "LB" and rng.random() < 0.4:
                out += [13, 10]
            else:
                out.append(member(rng, c, text))
        else:
            out.append(rng.choice(ALPHA + DIGIT))
    return out


def all_seqs(alphabet, maxlen):
    out = [[]]
    layer = [[]]
    for _ in range(maxlen):
        layer = [s + [a] for s in layer for a in alphabet]
        out += layer
    return out


def actions_from_prints(ctx, module, r):
    """Vacuity guard input without -coverage: the MC spec prints <<"ACTION", name>> when an action is taken."""
    import re
    for m in re.finditer(r'<<"ACTION", "(\w+)">>', r.out):
        key = "%s.%s" % (module, m.group(1))
        ctx.coverage_actions[key] = ctx.coverage_actions.get(key, 0) + 1


# --------------------------------------------------------------------------- attribution

def attribute(ctx, module, scenarios, run_scn, features, neutralise, fp_of, context_of, describe, max_scn=None):
    """Name the cause of each rejected scenario.

    scenarios : list of scenario dicts whose real execution TLC rejected
    run_scn(scn) -> trace dict (real execution)
    features(scn) -> list of hashable feature keys (hazardous input features present)
    neutralise(scn, keys) -> copy of scn with those features replaced by plain input
    fp_of(scn, key) -> fingerprint string of one feature
    context_of(scn) -> string describing the structural context (used when no feature explains it)
    describe(scn) -> short human-readable description

    Returns list of (fingerprint, what, replay_scenario) -- one per distinct cause per scenario.
    Every variant is executed on the real code and judged by TLC (count=False: bookkeeping of
    primary executions is not inflated).
    """
    out = []
    # every rejected execution is attributed (no cap: an unattributed rejection could hide a new defect
    # behind a known one; a cap turned known findings into VIOLATION lines in the thorough tier)
    todo = scenarios if max_scn is None else scenarios[:max_scn]
    for s in ([] if max_scn is None else scenarios[max_scn:]):
        out.append(("unattributed:" + context_of(s), "rejected execution not attributed (cap %d reached): %s" % (max_scn, describe(s)), s))
    if not todo:
        return out
    # round 1: for every scenario: all features neutralised ("none"), and each feature alone ("only i")
    variants, index = [], []
    for si, s in enumerate(todo):
        fs = features(s)
        variants.append(neutralise(s, fs))
        index.append((si, "none", None))
        if len(fs) > 1:
            for f in fs:
                variants.append(neutralise(s, [g for g in fs if g != f]))
                index.append((si, "only", f))
    traces = [run_scn(v) for v in variants]
    rej = {r.idx for r in ctx.validate(module, traces, count=False)}
    res = {}
    for vi, (si, kind, f) in enumerate(index):
        res.setdefault(si, {"none": None, "only": {}})
        if kind == "none":
            res[si]["none"] = (vi in rej, variants[vi])
        else:
            res[si]["only"][f] = (vi in rej, variants[vi])
    second = []
    for si, s in enumerate(todo):
        fs = features(s)
        none_rej, none_v = res[si]["none"]
        if none_rej or not fs:
            out.append(("plain:" + context_of(s), "rejected even with every hazardous octet replaced by a plain one: " + describe(none_v), none_v))
            if none_rej:
                continue
        if len(fs) == 1:
            out.append((fp_of(s, fs[0]), describe(s), s))
            continue
        suff = [f for f in fs if res[si]["only"][f][0]]
        for f in suff:
            out.append((fp_of(s, f), describe(res[si]["only"][f][1]), res[si]["only"][f][1]))
        rest = [f for f in fs if f not in suff]
        if rest and (suff or True):
            second.append((si, suff, rest))
    # round 2: with all single sufficient causes neutralised the scenario must be accepted;
    # otherwise the remaining features interact
    if second:
        v2 = [neutralise(todo[si], suff) for si, suff, rest in second]
        t2 = [run_scn(v) for v in v2]
        rej2 = {r.idx for r in ctx.validate(module, t2, count=False)}
        for k, (si, suff, rest) in enumerate(second):
            if k in rej2:
                fp = "combo:" + "+".join(sorted({fp_of(todo[si], f) for f in rest}))
                out.append((fp, "rejected only with several features together: " + describe(v2[k]), v2[k]))
            elif not suff:
                from harness.core import MachineryError
                raise MachineryError("attribution inconsistent: scenario rejected, accepted without change? " + describe(todo[si]))
    return out
