"""Shared binding for C08 (ReactorBase timed calls) and C09 (task.Clock).

Recording and concretisation only -- no verdicts.  A *history* is

    {"flavour": "reactor" | "clock", "neg": bool, "ops": [op, ...]}

    op = ["later", d, script]      callLater(d * UNIT, f); when f runs it performs `script` (a list of ops)
         ["cancel", k] | ["reset", k, d] | ["delay", k, d]     on the k-th call created so far (k is taken
                                                               modulo the number of calls that exist)
         ["gdc"]                   getDelayedCalls()
         ["adv", d]                reactor: move the controlled clock; Clock: advance(d * UNIT)
         ["iter"]                  reactor only: runUntilCurrent()
         ["timeout"]               reactor only: timeout()
    scripts contain later / cancel / reset / delay / gdc only.

run_history() drives the real object and returns the trace: one event per public call at its return,
one "run" event when a scheduled function starts (with the time it reads from the provider and the
getDelayedCalls() it sees) and one "ret" when it returns.  Only observable things are logged: ids of the
IDelayedCall objects handed out (numbered in creation order), exception class names, getTime(), timeout().
Times are integers: every delay is an integer multiple of UNIT (a dyadic rational, so float arithmetic is exact).
"""
import math

UNIT = 0.125
BAD = 777777          # marks a time that is not a multiple of UNIT (never matches the spec)

_reactor_cls = None


def reactor_class():
    global _reactor_cls
    if _reactor_cls is None:
        from twisted.internet.base import ReactorBase

        class ControlledReactor(ReactorBase):
            """ReactorBase with a controlled clock and no I/O: only the timer machinery is exercised."""

            def __init__(self):
                self._now = 0.0
                ReactorBase.__init__(self)

            def seconds(self):
                return self._now

            def installWaker(self):
                pass

            def wakeUp(self):
                pass

            def doIteration(self, delay):
                pass

            def removeAll(self):
                return []

            def getReaders(self):
                return []

            def getWriters(self):
                return []

        _reactor_cls = ControlledReactor
    return _reactor_cls


def scale(x):
    v = x / UNIT
    r = round(v)
    return int(r) if abs(v - r) < 1e-9 and abs(r) < 10 ** 6 else BAD


def run_history(h):
    from twisted.internet import error

    flavour = h["flavour"]
    if flavour == "reactor":
        prov = reactor_class()()
    else:
        from twisted.internet.task import Clock
        prov = Clock()
    calls = []          # IDelayedCall objects in creation order
    ident = {}          # id(obj) -> call number
    ev = []

    def ids(objs):
        return sorted(ident.get(id(o), 0) for o in objs)

    def target(k):
        n = len(calls)
        return ((k - 1) % n) + 1 if n else 0

    def outcome(fn):
        try:
            fn()
            return "ok"
        except error.AlreadyCalled:
            return "AlreadyCalled"
        except error.AlreadyCancelled:
            return "AlreadyCancelled"
        except Exception as e:      # not an outcome the specification knows
            return "EXC:" + type(e).__name__

    def make(script):
        me = []

        def f():
            ev.append({"e": "run", "id": me[0], "now": scale(prov.seconds()), "gdc": ids(prov.getDelayedCalls())})
            try:
                for op in script:
                    do(op, False)
            finally:
                ev.append({"e": "ret"})
        return f, me

    def do(op, top):
        kind = op[0]
        if kind == "later":
            f, me = make(op[2])
            me.append(len(calls) + 1)
            try:
                dc = prov.callLater(op[1] * UNIT, f)
            except Exception as e:
                ev.append({"e": "later", "d": op[1], "id": 0, "t": 0, "exc": type(e).__name__})
                return
            calls.append(dc)
            ident[id(dc)] = len(calls)
            ev.append({"e": "later", "d": op[1], "id": len(calls), "t": scale(dc.getTime())})
        elif kind in ("cancel", "reset", "delay"):
            k = target(op[1])
            if not k:
                return
            dc = calls[k - 1]
            if kind == "cancel":
                ev.append({"e": "cancel", "id": k, "res": outcome(dc.cancel)})
            else:
                d = op[2]
                res = outcome((lambda: dc.reset(d * UNIT)) if kind == "reset" else (lambda: dc.delay(d * UNIT)))
                ev.append({"e": kind, "id": k, "d": d, "res": res, "t": scale(dc.getTime()) if res == "ok" else 0})
        elif kind == "gdc":
            ev.append({"e": "gdc", "ids": ids(prov.getDelayedCalls())})
        elif not top:
            raise ValueError("op %r not allowed inside a call" % (op,))
        elif kind == "adv":
            ev.append({"e": "adv", "d": op[1]})
            if flavour == "reactor":
                prov._now += op[1] * UNIT
            else:
                try:
                    prov.advance(op[1] * UNIT)
                except Exception as e:
                    ev.append({"e": "EXC", "what": type(e).__name__})
                ev.append({"e": "iterend"})
        elif kind == "iter":
            ev.append({"e": "iter"})
            try:
                prov.runUntilCurrent()
            except Exception as e:
                ev.append({"e": "EXC", "what": type(e).__name__})
            ev.append({"e": "iterend"})
        elif kind == "timeout":
            try:
                v = prov.timeout()
            except Exception as e:
                ev.append({"e": "EXC", "what": type(e).__name__})
                return
            if v is None:
                ev.append({"e": "timeout", "v": 0, "none": True})
            else:
                c = math.ceil(v / UNIT - 1e-9)
                ev.append({"e": "timeout", "v": int(c) if abs(c) < 10 ** 6 else BAD, "none": False})
        else:
            raise ValueError("unknown op %r" % (op,))

    for op in h["ops"]:
        do(op, True)
    # cfg.neg tells the specification whether this history contains a negative delay() at all
    # (the literal order clauses are only meaningful without them, see TimersProp)
    return {"cfg": {"flavour": flavour, "neg": has_negative(h["ops"])}, "hist": h, "ev": ev}


def has_negative(ops):
    for op in ops:
        if op[0] == "delay" and op[2] < 0:
            return True
        if op[0] == "later" and has_negative(op[2]):
            return True
    return False


# --------------------------------------------------------------------------- history generators

def _nested_op(rng, neg, ncalls, depth, budget):
    r = rng.random()
    k = max(1, ncalls - int(rng.random() ** 2 * min(ncalls, 8))) if ncalls else 1
    if r < 0.30 and budget[0] > 0:
        budget[0] -= 1
        return ["later", rng.choice([0, 0, 1, 1, 2, 3]), _script(rng, neg, ncalls + 1, depth + 1, budget) if depth < 2 and rng.random() < 0.3 else []]
    if r < 0.50:
        return ["cancel", k]
    if r < 0.72:
        return ["reset", k, rng.choice([0, 0, 1, 2, 3, 5])]
    if r < 0.92:
        return ["delay", k, rng.choice([-3, -2, -1, -1] if neg and rng.random() < 0.5 else [0, 1, 1, 2, 4])]
    return ["gdc"]


def _script(rng, neg, ncalls, depth, budget):
    return [_nested_op(rng, neg, ncalls, depth, budget) for _ in range(rng.choice([1, 1, 2, 3]))]


def random_history(rng, flavour, neg, nops, maxcalls=60):
    """General mix: up to `nops` top-level operations over at most `maxcalls` calls."""
    ops = []
    budget = [maxcalls]
    reactor = flavour == "reactor"
    while len(ops) < nops:
        ncalls = maxcalls - budget[0]
        r = rng.random()
        k = max(1, ncalls - int(rng.random() ** 2 * min(ncalls, 10))) if ncalls else 1
        if r < 0.30:
            if budget[0] <= 0:
                continue
            budget[0] -= 1
            d = rng.choice([0, 0, 1, 1, 2, 2, 3, 4, 6])
            ops.append(["later", d, _script(rng, neg, ncalls + 1, 1, budget) if rng.random() < 0.4 else []])
        elif r < 0.40:
            ops.append(["cancel", k])
        elif r < 0.52:
            ops.append(["reset", k, rng.choice([0, 0, 1, 2, 3, 5])])
        elif r < 0.64:
            ops.append(["delay", k, rng.choice([-3, -2, -1, -1] if neg and rng.random() < 0.5 else [0, 1, 1, 2, 4])])
        elif r < 0.69:
            ops.append(["gdc"])
        elif r < 0.74 and reactor:
            ops.append(["timeout"])
        elif r < 0.94:
            ops.append(["adv", rng.choice([0, 1, 1, 1, 2, 2, 3, 5])])
            if reactor:
                if rng.random() < 0.3:
                    ops.append(["timeout"])
                ops.append(["iter"])
        elif reactor:
            ops.append(["iter"] if rng.random() < 0.7 else ["adv", rng.choice([1, 2])])
    return {"flavour": flavour, "neg": neg, "ops": ops[:nops + 2]}


def compaction_history(rng, flavour, neg):
    """Many queued calls of which more than 50 (and more than half) are cancelled while queued -- the reactor's
    lazy-deletion compaction threshold -- then iterations, resets/delays of the survivors and a run-down.
    Two sizes: within the property's sampling frame (<= 60 calls, few survivors) and larger (up to ~130 calls,
    dozens of survivors, so that the rebuilt queue has a non-trivial shape)."""
    reactor = flavour == "reactor"
    ops = []
    small = rng.random() < 0.4
    n = rng.randint(56, 60) if small else rng.randint(90, 130)
    step = [["adv", 1], ["iter"]] if reactor else [["adv", 1]]
    settle = [["iter"]] if reactor else [["adv", 0]]
    for i in range(n):
        d = rng.choice([3, 4, 5, 6, 8, 10, 12, 14, 16, 20, 24])
        scr = []
        if rng.random() < 0.15:
            scr = [rng.choice([["cancel", rng.randint(1, n)], ["reset", rng.randint(1, n), rng.choice([0, 1, 3])],
                               ["delay", rng.randint(1, n), rng.choice([1, 2] + ([-1, -2] if neg else []))], ["gdc"]])]
        ops.append(["later", d, scr])
        if rng.random() < 0.03:
            ops.extend(step if rng.random() < 0.5 else ([["timeout"]] if reactor else [["gdc"]]))
    ops.extend(settle)                      # everything created so far is queued now
    victims = list(range(1, n + 1))
    rng.shuffle(victims)
    ncancel = rng.randint(51, min(n - 2, 57)) if small else rng.randint(n // 2 + 2, n // 2 + 12)
    live = victims[ncancel:]
    for j, k in enumerate(victims[:ncancel]):
        ops.append(["cancel", k])
        if rng.random() < 0.05:
            ops.append(["reset", rng.choice(live), rng.choice([1, 2, 4, 9])])
        if rng.random() < 0.05:
            ops.append(["delay", rng.choice(live), rng.choice([1, 2, 5] + ([-1, -2] if neg else []))])
    ops.extend(settle)                      # an iteration with more than 50 cancelled entries queued
    ops.append(["gdc"])
    if reactor:
        ops.append(["timeout"])
    for _ in range(rng.randint(10, 30)):
        r = rng.random()
        if r < 0.4:
            ops.append(["adv", rng.choice([1, 1, 2, 3])])
            if reactor:
                ops.append(["iter"])
        elif r < 0.6:
            ops.append(["reset", rng.choice(live), rng.choice([0, 1, 2, 6])])
        elif r < 0.8:
            ops.append(["delay", rng.choice(live), rng.choice([1, 2, 4] + ([-1, -2, -4] if neg else []))])
        elif r < 0.88:
            ops.append(["later", rng.choice([0, 1, 3, 7]), []])
        elif r < 0.94:
            ops.append(["gdc"])
        else:
            ops.append(["timeout"] if reactor else ["gdc"])
    ops.append(["adv", 40])
    if reactor:
        ops.append(["iter"])
    ops.append(["gdc"])
    return {"flavour": flavour, "neg": neg, "ops": ops}


def heap_history(rng, flavour, neg):
    """A populated queue (8..30 calls spread over a wide time range, all queued), then mostly operations that
    move calls *sooner* (reset to a near time, negative delay) or later, from top level and from inside running
    calls, with small clock steps in between: exercises re-ordering of an already ordered queue."""
    reactor = flavour == "reactor"
    n = rng.randint(8, 30)
    ops = []

    def mover(k):
        r = rng.random()
        if r < 0.5:
            return ["reset", k, rng.choice([0, 0, 1, 1, 2, 3])]
        if r < 0.8:
            return ["delay", k, rng.choice([-6, -4, -2, -1]) if neg and rng.random() < 0.7 else rng.choice([1, 2, 5])]
        return ["cancel", k]

    for i in range(n):
        scr = [mover(rng.randint(1, n)) for _ in range(rng.choice([0, 0, 1, 1, 2]))]
        ops.append(["later", rng.randint(2, 40), scr])
    ops.extend([["iter"]] if reactor else [["adv", 0]])
    for _ in range(rng.randint(15, 50)):
        r = rng.random()
        if r < 0.6:
            ops.append(mover(rng.randint(1, n)))
        elif r < 0.9:
            ops.append(["adv", rng.choice([1, 1, 2, 3])])
            if reactor:
                if rng.random() < 0.3:
                    ops.append(["timeout"])
                ops.append(["iter"])
        elif r < 0.95:
            ops.append(["later", rng.choice([0, 1, 2, 5]), [mover(rng.randint(1, n))]])
        else:
            ops.append(["gdc"])
    ops.append(["adv", 60])
    if reactor:
        ops.append(["iter"])
    ops.append(["gdc"])
    return {"flavour": flavour, "neg": neg, "ops": ops}


def tie_history(rng, flavour, neg):
    """Clusters of calls created for the SAME time and never rescheduled, interleaved with reset / delay / cancel
    of *other* calls (decoys scheduled around that time, moved sooner or later so that whatever internal order the
    provider keeps is disturbed), then one clock step that runs the cluster: creation order among the cluster is
    what C09 pins (and C08 leaves free)."""
    reactor = flavour == "reactor"
    ops = []
    n = 0
    for _ in range(rng.randint(1, 3)):
        T = rng.randint(2, 6)
        decoys = []
        for _ in range(rng.randint(2, 7)):
            ops.append(["later", rng.randint(0, 12), []])
            n += 1
            decoys.append(n)

        def disturb():
            k = rng.choice(decoys)
            r = rng.random()
            if r < 0.5:
                return ["reset", k, rng.choice([0, 1, 1, 2, 3, T, T + 1, 8])]
            if r < 0.75:
                return ["delay", k, rng.choice([-4, -2, -1]) if neg and rng.random() < 0.6 else rng.choice([1, 2, 5])]
            return ["cancel", k]

        for _ in range(rng.randint(1, 5)):
            ops.append(disturb())
        for _ in range(rng.randint(2, 5)):
            ops.append(["later", T, [disturb()] if rng.random() < 0.15 else []])
            n += 1
            for _ in range(rng.choice([0, 1, 1, 2, 3])):
                ops.append(disturb())
        if rng.random() < 0.3:
            ops.append(["gdc"])
        ops.append(["adv", rng.choice([T, T, T + 1, 15])])
        if reactor:
            ops.append(["iter"])
    ops.append(["adv", 20])
    if reactor:
        ops.append(["iter"])
    ops.append(["gdc"])
    return {"flavour": flavour, "neg": neg, "ops": ops}


def exhaustive_histories(flavour, depth, maxcalls, neg, scripts=True):
    """Every top-level history of exactly `depth` steps over a small alphabet (at most `maxcalls` calls;
    delays 0/1; a reactor step is adv(1)+runUntilCurrent or a bare runUntilCurrent, a Clock step is
    advance(0|1)), and -- with `scripts` -- every way of giving one of its calls one nested operation."""
    reactor = flavour == "reactor"

    def alphabet(n):
        a = []
        if n < maxcalls:
            a += [[["later", 0, []]], [["later", 1, []]]]
        for k in range(1, n + 1):
            a.append([["cancel", k]])
            a += [[["reset", k, 0]], [["reset", k, 1]]]
            a += [[["delay", k, 1]]] + ([[["delay", k, -1]]] if neg else [])
        if reactor:
            a += [[["adv", 1], ["iter"]], [["iter"]]]
        else:
            a += [[["adv", 1]], [["adv", 0]]]
        return a

    def nested(n):
        s = [["later", 0, []], ["later", 1, []], ["gdc"]]
        for k in range(1, n + 1):
            s += [["cancel", k], ["reset", k, 0], ["reset", k, 1], ["delay", k, 1]] + ([["delay", k, -1]] if neg else [])
        return s

    def rec(prefix, n, left):
        if not left:
            yield prefix, n
            return
        for step in alphabet(n):
            yield from rec(prefix + step, n + (1 if step[0][0] == "later" else 0), left - 1)

    for ops, n in rec([], 0, depth):
        # the last step must be a run phase, otherwise the tail is unobserved: finish with one
        tail = ([["adv", 1], ["iter"], ["gdc"]] if reactor else [["adv", 1], ["gdc"]])
        yield {"flavour": flavour, "neg": neg, "ops": ops + tail}
        if scripts:
            pos = [i for i, o in enumerate(ops) if o[0] == "later"]
            for p in pos:
                for s in nested(n):
                    ops2 = [list(o) for o in ops]
                    ops2[p] = ["later", ops[p][1], [s]]
                    yield {"flavour": flavour, "neg": neg, "ops": ops2 + tail}


def history_from_behaviour(beh):
    """Turn a TLC-generated behaviour (TimersSim) into a history: operations between a call's `run` and
    `ret` become that call's script."""
    flavour = beh["cfg"]["flavour"]
    top = []
    stack = [top]
    laters = []          # the op lists of the "later" ops in creation order
    for hstep in beh["hist"]:
        e = hstep["e"]
        cur = stack[-1]
        if e == "later":
            op = ["later", hstep["d"], []]
            laters.append(op)
            cur.append(op)
        elif e == "cancel":
            cur.append(["cancel", hstep["id"]])
        elif e in ("reset", "delay"):
            cur.append([e, hstep["id"], hstep["d"]])
        elif e == "gdc":
            cur.append(["gdc"])
        elif e == "timeout":
            cur.append(["timeout"])
        elif e == "adv":
            cur.append(["adv", hstep["d"]])
        elif e == "iter":
            cur.append(["iter"])
        elif e == "run":
            stack.append(laters[hstep["id"] - 1][2])
        elif e == "ret":
            stack.pop()
        elif e == "iterend":
            pass
    return {"flavour": flavour, "neg": bool(beh["cfg"]["neg"]), "ops": top}


def project(e):
    """The fields of an event the specification predicts (for comparing with a TimersSim behaviour)."""
    return {k: (sorted(v) if isinstance(v, list) else v) for k, v in e.items()}


# --------------------------------------------------------------------------- orchestration shared by c08.py / c09.py

def fingerprint(trace, rej):
    """Stable name of a failure: flavour, the first event the specification could not take, whether it
    happened inside a running call, and the class of the input (negative delays or not)."""
    evs = trace["ev"]
    e = evs[rej.reached] if rej.reached < len(evs) else {"e": "end"}
    depth = 0
    for x in evs[:rej.reached]:
        depth += 1 if x["e"] == "run" else -1 if x["e"] == "ret" else 0
    parts = [trace["cfg"]["flavour"], e["e"]]
    if "res" in e:
        parts.append(e["res"])
    parts.append("nested" if depth > 0 else "top")
    parts.append("neg" if trace["cfg"]["neg"] else "nonneg")
    return "/".join(parts)


def shrink(ctx, hist, fp, rounds=12):
    """Delta-debug a rejected history (top-level operations and script entries) keeping the fingerprint."""
    import copy

    def variants(h):
        ops = h["ops"]
        n = len(ops)
        out = []
        size = n // 2
        while size >= 1:
            for i in range(0, n, size):
                out.append(ops[:i] + ops[i + size:])
            size //= 2
        for i, o in enumerate(ops):          # simplify scripts
            if o[0] == "later" and o[2]:
                for j in range(len(o[2])):
                    o2 = [o[0], o[1], o[2][:j] + o[2][j + 1:]]
                    out.append(ops[:i] + [o2] + ops[i + 1:])
        seen = set()
        res = []
        for v in out:
            k = repr(v)
            if k not in seen and k != repr(ops):
                seen.add(k)
                res.append({"flavour": h["flavour"], "neg": h["neg"], "ops": copy.deepcopy(v)})
        return res

    cur = hist
    for _ in range(rounds):
        cands = variants(cur)
        if not cands:
            break
        cost = max(1, len(run_history(cur)["ev"]))
        cands = cands[:max(8, min(400, 30000 // cost))]       # big chunks come first; bound the TLC work per round
        traces = [run_history(c) for c in cands]
        rej = ctx.validate("TimersTrace", traces, count=False)
        good = [(len(repr(cands[x.idx]["ops"])), x.idx) for x in rej if fingerprint(traces[x.idx], x) == fp]
        if not good:
            break
        cur = cands[min(good)[1]]
    return cur


def report(ctx, traces, rej, what):
    shrunk = set()
    for x in rej:
        t = traces[x.idx]
        fp = fingerprint(t, x)
        known = any(k["fingerprint"] == fp for k in ctx.known)
        if fp not in shrunk and len(shrunk) < 2 and not known:
            shrunk.add(fp)
            try:
                hist = shrink(ctx, t["hist"], fp)
                t2 = run_history(hist)
                r2 = ctx.validate("TimersTrace", [t2], count=False)
                if r2 and fingerprint(t2, r2[0]) == fp:
                    t, x = t2, r2[0]
            except Exception as e:      # shrinking is a convenience; the original history is still a witness
                ctx.log("shrink failed: %r" % (e,))
        ev = t["ev"][x.reached] if x.reached < len(t["ev"]) else None
        ctx.violation(fp, "%s: real execution not explained by TimersAbs/TimersProp at event %d: %s; history=%s" % (
            what, x.reached, ev, _short(t["hist"]["ops"])), dict(hist=t["hist"], rejected_at=x.reached))


def _short(ops):
    import json
    s = json.dumps(ops, separators=(",", ":"))
    return s if len(s) < 600 else s[:600] + "..."


def pick_actions(ctx, module, alternatives):
    """require_actions with alternative spellings (TLC's coverage names a disjunct of Next after the
    operator it finds first: NFoo or the PFoo/IFoo it applies)."""
    names = []
    for alt in alternatives:
        alt = [alt] if isinstance(alt, str) else list(alt)
        have = [a for a in alt if ctx.coverage_actions.get("%s.%s" % (module, a), 0) > 0]
        names.append(have[0] if have else alt[0])
    ctx.require_actions(module, names)


def run_flavour(ctx, flavour, what):
    """The whole check for one provider: real executions (exhaustive short, random long, compaction-sized,
    TLC-generated behaviours) recorded and validated by TLC against TimersTrace."""
    traces = []
    depth, maxcalls = ctx.pick(3, 4), 3
    for h in exhaustive_histories(flavour, depth, maxcalls, True, scripts=True):
        traces.append(run_history(h))
    if not ctx.quick:
        for h in exhaustive_histories(flavour, depth + 1, maxcalls, True, scripts=False):
            traces.append(run_history(h))
    nex = len(traces)
    ctx.exhaustive = True
    ctx.extra["exhaustive_depth_with_one_nested_op"] = depth
    ctx.extra["exhaustive_depth_top_level_only"] = depth if ctx.quick else depth + 1
    ctx.extra["exhaustive_max_calls"] = maxcalls
    ctx.extra["exhaustive_histories"] = nex
    for i in range(ctx.pick(250, 6000)):
        neg = ctx.rng.random() < 0.4
        traces.append(run_history(random_history(ctx.rng, flavour, neg, ctx.rng.choice([12, 25, 40, 80, 200]))))
    ncomp = ctx.pick(12, 200)
    for i in range(ncomp):
        traces.append(run_history(compaction_history(ctx.rng, flavour, ctx.rng.random() < 0.4)))
    ctx.extra["compaction_sized_histories"] = ncomp
    nheap = ctx.pick(60, 1500)
    for i in range(nheap):
        traces.append(run_history(heap_history(ctx.rng, flavour, ctx.rng.random() < 0.5)))
    ctx.extra["queue_reordering_histories"] = nheap
    ntie = ctx.pick(200, 5000)
    for i in range(ntie):
        traces.append(run_history(tie_history(ctx.rng, flavour, ctx.rng.random() < 0.3)))
    ctx.extra["same_time_cluster_histories"] = ntie
    behs = ctx.simulate("TimersSim", "TimersSim.%s.cfg" % flavour, num=ctx.pick(40, 600), depth=25)
    drift = 0
    for b in behs:
        t = run_history(history_from_behaviour(b))
        pred = [project(x) for x in b["hist"]]
        if [project(x) for x in t["ev"]][:len(pred)] != pred:
            drift += 1          # tie order / timeout value chosen differently by TLC: not a verdict
        traces.append(t)
    ctx.extra["spec_behaviours_replayed"] = len(behs)
    ctx.extra["spec_behaviours_with_other_free_choice"] = drift
    ctx.extra["max_ops"] = max(len(t["ev"]) for t in traces)
    ctx.extra["max_calls"] = max(sum(1 for e in t["ev"] if e["e"] == "later") for t in traces)
    ctx.extra["max_cancellations"] = max(sum(1 for e in t["ev"] if e["e"] == "cancel" and e["res"] == "ok") for t in traces)
    ctx.extra["runs_observed"] = sum(1 for t in traces for e in t["ev"] if e["e"] == "run")
    ctx.note_traces(traces)
    ctx.log("recorded %d real executions (%d events)" % (len(traces), sum(len(t["ev"]) for t in traces)))
    rej = ctx.validate("TimersTrace", traces, shard_size=ctx.pick(1200, 3000))
    report(ctx, traces, rej, what)
    bad = {x.idx for x in rej}
    good = [t for i, t in enumerate(traces) if i not in bad and any(e["e"] == "run" for e in t["ev"])]
    # Impl layer bound to the code: the same executions replayed through the algorithm as transcribed
    # (deterministic, so it also predicts tie order and the exact timeout()).  A mismatch is drift of the
    # transcription, not a property violation.
    implmod = "TimersImplTrace" if flavour == "reactor" else "ClockImplTrace"
    ok = [(i, t) for i, t in enumerate(traces) if i not in bad]
    nsim = len(behs)
    sample = [t for i, t in ok if (nex <= i < len(traces) - nsim) or (i < nex and i % ctx.pick(20, 3) == 0)
              or (i >= len(traces) - nsim and i % ctx.pick(8, 1) == 0)]
    rej_i = ctx.validate(implmod, sample, shard_size=ctx.pick(400, 3000), count=False)
    ctx.impl_drift = len(rej_i)
    ctx.extra["impl_traces_replayed"] = len(sample)
    if rej_i:
        x = rej_i[0]
        ctx.extra["impl_drift_example"] = dict(hist=sample[x.idx]["hist"], at=x.reached)
        ctx.log("impl drift: %d of %d executions are not reproduced step by step by %s (not a verdict)" % (len(rej_i), len(sample), implmod))
    else:
        ctx.log("%s reproduces %d real executions step by step" % (implmod, len(sample)))
    if good:
        ctx.selftest_rejects("TimersTrace", good[::max(1, len(good) // 24)], mutate, n=20)
    return traces, rej


def replay_history(ctx, obj, what):
    t = run_history(obj["hist"])
    ctx.note_trace(t)
    rej = ctx.validate("TimersTrace", [t])
    for x in rej:
        ev = t["ev"][x.reached] if x.reached < len(t["ev"]) else None
        ctx.violation(fingerprint(t, x), "%s: replayed history rejected at event %d: %s" % (what, x.reached, ev),
                      dict(hist=t["hist"], rejected_at=x.reached))
    for i, e in enumerate(t["ev"]):
        print(i, e)


# --------------------------------------------------------------------------- binding self-test

def mutate(t, rng):
    """Corrupt one logged field or drop one event -- only corruptions the specification must reject
    (every field touched here is determined by the history)."""
    evs = t["ev"]
    for _ in range(20):
        if not evs:
            return None
        i = rng.randrange(len(evs))
        e = evs[i]
        k = e["e"]
        r = rng.random()
        if k == "run":
            if r < 0.35:
                e["now"] += 1
            elif r < 0.7:
                g = e["gdc"]
                if g and rng.random() < 0.5:
                    g.pop(rng.randrange(len(g)))
                else:
                    g.append(e["id"])
                    g.sort()
            else:                      # drop the whole run (run + its nested events + ret)
                depth = 0
                j = i
                while True:
                    if evs[j]["e"] == "run":
                        depth += 1
                    elif evs[j]["e"] == "ret":
                        depth -= 1
                        if depth == 0:
                            break
                    j += 1
                del evs[i:j + 1]
            return t
        if k in ("cancel", "reset", "delay"):
            e["res"] = {"ok": "AlreadyCalled", "AlreadyCalled": "ok", "AlreadyCancelled": "ok"}.get(e["res"], "ok")
            return t
        if k == "later":
            e["t"] += 1
            return t
        if k == "gdc":
            if e["ids"]:
                e["ids"].pop()
            else:
                e["ids"].append(1)
            return t
        if k in ("iter", "ret", "iterend") and i < len(evs) - 1:
            del evs[i]
            return t
    return None
