"""C15 subprocess driver: loopback TCP connections under one real reactor.

Usage:  python c15_driver.py < config.json > result.json        (PYTHONPATH must point at the twisted tree)

config = {"reactor": "select|poll|epoll|asyncio", "scenarios": [scenario, ...], "timeout_ms": int, "idle_ms": int}
         (a connection is given up when it made no progress -- no event at all -- for idle_ms, or after timeout_ms)
scenario = {"closer": 1|2, "kind": "lose"|"half"|"abort", "hc": [bool, bool],
            "sndbuf": int (0 = default), "rcvbuf": int,
            "ops": [ops of side 1, ops of side 2],        op = ["w", n] | ["ws", [n, ...]] | ["d", ms]
            "rdpause": [[[at_bytes, ms], ...], [...]],    reading paused for ms once at_bytes were received
            "abort_delay_ms": int}
Side 1 is the client protocol, side 2 the server protocol.  Every side writes a stream whose content is
a function of the byte offset (32-bit big-endian counter words, salted per side), so a received chunk
identifies its own offset.

Scenario discipline (so that the property applies; see specs/TcpStream.tla):
  lose  : the closer, having issued all its writes and received everything the other side was going to
          write, calls loseConnection();
  half  : the closer issues its writes and calls loseWriteConnection(); the other side (IHalfCloseableProtocol)
          finishes its own writes and, once readConnectionLost has been called, calls loseConnection();
  abort : the closer issues its writes and calls abortConnection() (abort_delay_ms later).
A half-closeable protocol answers readConnectionLost with loseConnection() once its own writes are issued.
scenario["reent"] = [policy of side 1, policy of side 2] makes half-closeable protocols act RE-ENTRANTLY, from inside
their half-close callbacks (policy = {"rdl": "lose" | "half" | "write+lose" | "write+half", "wrl": "lose" | "later", "extra": n}):
  in readConnectionLost : optionally write `extra` more bytes (only when the peer merely half-closed, i.e. still reads),
                          then loseConnection() or loseWriteConnection();
  in writeConnectionLost: loseConnection() right there ("lose") or a few ms later ("later") -- only if this side has
                          nothing left to wait for (end of the peer's stream seen, or all the peer will ever write received).

Events (observable only): w/ws (bytes handed to transport.write/writeSequence), r (dataReceived: offset decoded
from content, length), req (close call), rdl / wrl (half-close callbacks), lost (connectionLost + reason class),
end (both sides lost and a quiet period passed) or gaveup (the connection stopped making progress).  Recording only; TLC decides (specs/TcpStreamTrace.tla).
"""
import json
import socket
import struct
import sys

MAXSTREAM = 4 * 1024 * 1024 + 4096
SALT = {1: 0x00000000, 2: 0x5A000000}
BAD = 1 << 30
_streams = {}


def build_stream(side, nbytes):
    n = min(MAXSTREAM, nbytes + 4096) // 4 + 1
    salt = SALT[side]
    _streams[side] = struct.pack(">%dI" % n, *[k ^ salt for k in range(n)])


def stream(side):
    return _streams[side]


def decode(side_from, chunk, hint):
    """Offset of `chunk` in side_from's stream, decoded from the content (BAD if it is not a slice of it)."""
    st = stream(side_from)
    n = len(chunk)
    if st[hint:hint + n] == chunk:
        # content equals the stream at the position right after the previous delivery; for chunks of >= 7
        # bytes no other offset can match (each aligned word is unique), for shorter ones this is the hint
        return hint
    salt = SALT[side_from]
    for a in range(4):
        if a + 4 <= n:
            k = struct.unpack(">I", chunk[a:a + 4])[0] ^ salt
            off = 4 * k - a
            if 0 <= off and st[off:off + n] == chunk:
                return off
    if n < 7:
        i = st.find(chunk)
        if i >= 0:
            return i
    return BAD


def make_reactor(name):
    if name == "select":
        from twisted.internet.selectreactor import SelectReactor as R
    elif name == "poll":
        from twisted.internet.pollreactor import PollReactor as R
    elif name == "epoll":
        from twisted.internet.epollreactor import EPollReactor as R
    elif name == "asyncio":
        import asyncio
        asyncio.set_event_loop(asyncio.new_event_loop())
        from twisted.internet.asyncioreactor import AsyncioSelectorReactor as R
    else:
        raise SystemExit("unknown reactor " + name)
    r = R()
    from twisted.internet.main import installReactor
    installReactor(r)
    return r, R.__name__


def main():
    cfg = json.load(sys.stdin)
    reactor, rname = make_reactor(cfg["reactor"])
    from twisted.internet import protocol, interfaces
    from zope.interface import implementer

    results = []
    timeout = cfg.get("timeout_ms", 600000) / 1000.0
    idle = cfg.get("idle_ms", 60000) / 1000.0

    def tot(ops):
        return sum(op[1] if op[0] == "w" else sum(op[1]) if op[0] == "ws" else 0 for op in ops)
    for side in (1, 2):      # streams are built before any connection exists (not on a scenario's clock)
        build_stream(side, max([tot(sc["ops"][side - 1]) + (sc.get("reent") or [{}, {}])[side - 1].get("extra", 0)
                                for sc in cfg["scenarios"]] + [0]))

    def run_scenario(idx):
        if idx >= len(cfg["scenarios"]):
            reactor.stop()
            return
        sc = cfg["scenarios"][idx]

        class Log(list):
            def append(self, e):
                if not state["done"]:          # nothing is recorded once the observation has ended
                    list.append(self, e)
                    state["progress"] += 1
        ev = Log()
        state = {"done": False, "port": None, "timer": None, "idle": None, "progress": 0, "seen": -1}
        sides = {}
        total = {s: sum(op[1] if op[0] == "w" else sum(op[1]) if op[0] == "ws" else 0 for op in sc["ops"][s - 1]) for s in (1, 2)}
        reent = sc.get("reent") or [{}, {}]

        def writes_extra(s):     # side s writes `extra` bytes from inside readConnectionLost
            pol = reent[s - 1]
            return pol.get("extra", 0) if (sc["kind"] == "half" and s != sc["closer"] and sc["hc"][s - 1]
                                           and "write" in pol.get("rdl", "lose")) else 0
        final_total = {s: total[s] + writes_extra(s) for s in (1, 2)}     # all that side s will ever write

        class Side(protocol.Protocol):
            side = 0

            def __init__(self):
                self.pos = 0            # bytes handed to write so far
                self.got = 0            # bytes delivered so far (harness bookkeeping: decode hint, scenario discipline)
                self.ops = list(sc["ops"][self.side - 1])
                self.opsdone = False
                self.lostn = 0
                self.rdlost = False
                self.closed = False     # this side issued its (latest) close call, or is about to abort
                self.closekind = None
                self.pauses = sorted(sc.get("rdpause", [[], []])[self.side - 1])
                self.paused = False
                self.pol = reent[self.side - 1]

            def connectionMade(self):
                sides[self.side] = self
                h = self.transport.getHandle()
                if sc.get("sndbuf"):
                    h.setsockopt(socket.SOL_SOCKET, socket.SO_SNDBUF, sc["sndbuf"])
                if sc.get("rcvbuf"):
                    h.setsockopt(socket.SOL_SOCKET, socket.SO_RCVBUF, sc["rcvbuf"])
                if sc.get("peer_noread") and self.side != sc["closer"]:
                    self.paused = True              # a peer that does not read until the closer has been told of the loss
                    self.transport.pauseProducing()
                reactor.callLater(0, self.step)

            # ---- writing
            def step(self):
                while self.ops and not self.lostn and not self.closed:
                    op = self.ops.pop(0)
                    if op[0] == "d":
                        reactor.callLater(op[1] / 1000.0, self.step)
                        return
                    st = stream(self.side)
                    if op[0] == "w":
                        n = op[1]
                        ev.append({"e": "w", "s": self.side, "n": n})
                        self.transport.write(st[self.pos:self.pos + n])
                        self.pos += n
                    else:
                        parts = []
                        p = self.pos
                        for n in op[1]:
                            parts.append(st[p:p + n])
                            p += n
                        ev.append({"e": "ws", "s": self.side, "n": p - self.pos})
                        self.transport.writeSequence(parts)
                        self.pos = p
                if not self.ops:
                    self.opsdone = True
                    self.maybe_close()
                    if self.rdlost:
                        self.after_eof()

            def maybe_close(self):
                if self.closed or self.lostn or not self.opsdone:
                    return
                peer_total = final_total[3 - self.side]
                if self.side == sc["closer"]:
                    if sc["kind"] == "lose":
                        if self.got >= peer_total:
                            self.close("lose")
                    elif sc["kind"] == "half":
                        self.close("half")
                        # loseWriteConnection() immediately followed by loseConnection(), before anything was flushed
                        if sc.get("half_then_lose") and not self.lostn and self.nothing_to_wait_for():
                            self.close("lose")
                    elif sc.get("lose_then_abort"):
                        # orderly close requested while the peer does not read, then abortConnection()
                        self.close("lose")
                        reactor.callLater(sc.get("abort_delay_ms", 20) / 1000.0, self.do_abort)
                    else:
                        d = sc.get("abort_delay_ms", 0)
                        if d:
                            self.closed = True
                            reactor.callLater(d / 1000.0, self.do_abort)
                        else:
                            self.close("abort")

            def after_eof(self):
                # the peer's stream has ended: a half-closeable protocol still owns the connection and closes it
                # once it has nothing more to write
                if self.lostn or not self.opsdone or self.closekind in ("lose", "abort"):
                    return
                if self.closekind == "half":
                    self.close("lose")
                elif self.side != sc["closer"]:
                    n = writes_extra(self.side)
                    if n:
                        ev.append({"e": "w", "s": self.side, "n": n})
                        self.transport.write(stream(self.side)[self.pos:self.pos + n])
                        self.pos += n
                    self.close("half" if self.pol.get("rdl", "lose").endswith("half") else "lose")

            def nothing_to_wait_for(self):
                return self.rdlost or self.got >= final_total[3 - self.side]

            def late_lose(self):
                if not self.lostn and self.closekind == "half" and self.nothing_to_wait_for():
                    self.close("lose")

            def do_abort(self):
                if not self.lostn:
                    self.closed = False
                    self.close("abort")

            def close(self, kind):
                self.closed = True
                self.closekind = kind
                ev.append({"e": "req", "s": self.side, "k": kind})
                if kind == "lose":
                    self.transport.loseConnection()
                elif kind == "half":
                    self.transport.loseWriteConnection()
                else:
                    self.transport.abortConnection()

            # ---- reading
            def dataReceived(self, data):
                off = decode(3 - self.side, data, self.got)
                ev.append({"e": "r", "s": self.side, "off": off, "len": len(data)})
                self.got += len(data)
                if self.pauses and self.got >= self.pauses[0][0] and not self.lostn and not self.closed:
                    _, ms = self.pauses.pop(0)
                    self.paused = True
                    self.transport.pauseProducing()
                    reactor.callLater(ms / 1000.0, self.resume)
                self.maybe_close()

            def resume(self):
                self.paused = False
                if not self.lostn and self.closekind in (None, "half"):
                    self.transport.resumeProducing()

            def connectionLost(self, reason):
                self.lostn += 1
                ev.append({"e": "lost", "s": self.side, "why": reason.type.__name__})
                other = sides.get(3 - self.side)
                if sc.get("peer_noread") and other is not None and other.paused and not other.lostn:
                    other.resume()
                check_end()

        class Plain1(Side):
            side = 1

        class Plain2(Side):
            side = 2

        class HCMixin:
            def readConnectionLost(self):
                ev.append({"e": "rdl", "s": self.side})
                self.rdlost = True
                self.after_eof()

            def writeConnectionLost(self):
                ev.append({"e": "wrl", "s": self.side})
                how = self.pol.get("wrl")
                if how == "lose" and self.closekind == "half" and self.nothing_to_wait_for():
                    self.close("lose")                      # re-entrant: we are inside the transport's doWrite
                elif how == "later":
                    reactor.callLater(0.003, self.late_lose)

        @implementer(interfaces.IHalfCloseableProtocol)
        class HC1(HCMixin, Side):
            side = 1

        @implementer(interfaces.IHalfCloseableProtocol)
        class HC2(HCMixin, Side):
            side = 2

        def finish(timed_out):
            if state["done"]:
                return
            for k in ("timer", "idle"):
                if state[k] is not None and state[k].active():
                    state[k].cancel()
            # "end": both protocols were told of the loss and a quiet period passed; "gaveup": the connection made no
            # progress any more (not an action of the specification: a connection must come to its end)
            ev.append({"e": "end"} if not timed_out else {"e": "gaveup"})
            state["done"] = True
            results.append({"ev": list(ev), "timed_out": bool(timed_out)})
            d = state["port"].stopListening()
            for s in sides.values():          # only after a timeout: do not leave sockets behind
                if not s.lostn:
                    try:
                        s.transport.abortConnection()
                    except Exception:
                        pass
            reactor.callLater(0.01, run_scenario, idx + 1)

        def check_end():
            if len(sides) == 2 and all(s.lostn for s in sides.values()) and not state.get("ending"):
                state["ending"] = True
                reactor.callLater(0.08, finish, False)       # quiet period: a second connectionLost / late data would show

        sf = protocol.Factory()
        sf.protocol = HC2 if sc["hc"][1] else Plain2
        cf = protocol.ClientFactory()
        cf.protocol = HC1 if sc["hc"][0] else Plain1
        state["port"] = reactor.listenTCP(0, sf, interface="127.0.0.1")
        reactor.connectTCP("127.0.0.1", state["port"].getHost().port, cf)
        state["timer"] = reactor.callLater(timeout, finish, True)

        def watchdog():
            if state["done"]:
                return
            if state["progress"] == state["seen"]:
                finish(True)
                return
            state["seen"] = state["progress"]
            state["idle"] = reactor.callLater(idle, watchdog)
        state["idle"] = reactor.callLater(idle, watchdog)

    reactor.callWhenRunning(run_scenario, 0)
    reactor.run()
    import twisted
    sys.stdout.write(json.dumps({"traces": results, "reactor_class": rname, "twisted": twisted.__file__}, separators=(",", ":")))
    sys.stdout.flush()


if __name__ == "__main__":
    main()
