"""C13 subprocess driver: one real reactor run with producer threads issuing callFromThread.

Usage:  python c13_driver.py  < config.json  > result.json      (PYTHONPATH must point at the twisted tree)

config = {"reactor": "select|poll|epoll|asyncio", "clock": "real|ms", "timer": 0|seconds,
          "producers": [[[kind, usec] or [kind, usec, 1], ...], ...], "lat_unit_ms": int, "grace_ms": int,
          "cb_yield": N (every N-th callback gives up the GIL for a moment, so that producers run -- and enqueue --
                         while the reactor is in the middle of running queued calls; 0 = never),
          "switch_us": thread switch interval of the interpreter in microseconds (0 = default 5000)}
   kind 0: sleep usec microseconds (0 = no pause), then issue the call
   kind 1: wait until every call issued so far (by anybody) has run, sleep usec more (the reactor is now
           asleep in its event wait with nothing to do), then issue the call
   a third element 1 makes the issued callable raise an exception after it has recorded that it ran (the reactor
   logs such failures; a call that raised has still run exactly once)

Only observable things are recorded: which thread ran the callback, its arguments, the time since the
callFromThread call was made.  The reactor has no timers and no other descriptors of ours (unless
cfg.timer asks for one far in the future), so a call that is not woken for would wait forever.

Recording only; the verdict is TLC's (specs/ThreadCallsTrace.tla).
"""
import json
import os
import sys
import threading
import time


def make_reactor(name, clock):
    if name == "select":
        from twisted.internet.selectreactor import SelectReactor as Base
    elif name == "poll":
        from twisted.internet.pollreactor import PollReactor as Base
    elif name == "epoll":
        from twisted.internet.epollreactor import EPollReactor as Base
    elif name == "asyncio":
        from twisted.internet.asyncioreactor import AsyncioSelectorReactor as Base
    else:
        raise SystemExit("unknown reactor " + name)
    if clock == "ms":
        # a platform clock with 1 ms granularity (IReactorTime.seconds is the reactor's clock)
        class Coarse(Base):
            def seconds(self):
                return int(time.time() * 1000) / 1000.0
        r = Coarse()
    else:
        r = Base()
    from twisted.internet.main import installReactor
    installReactor(r)
    return r, Base.__name__


def main():
    cfg = json.load(sys.stdin)
    if cfg["reactor"] == "asyncio":
        import asyncio
        asyncio.set_event_loop(asyncio.new_event_loop())
    reactor, rname = make_reactor(cfg["reactor"], cfg.get("clock", "real"))
    lat_unit = cfg.get("lat_unit_ms", 5000) / 1000.0
    grace = cfg.get("grace_ms", 15000) / 1000.0
    scripts = cfg["producers"]
    cb_yield = int(cfg.get("cb_yield", 0))
    if cfg.get("switch_us"):
        sys.setswitchinterval(cfg["switch_us"] / 1e6)
    np_ = len(scripts)
    main_ident = threading.get_ident()

    log = []                      # appended by whoever runs the callback
    ran_total = [0]
    issued_total = [0]
    lock = threading.Lock()       # protects the harness' own counters only
    issued = [0] * (np_ + 1)      # callFromThread calls that returned normally; the last "producer" is the
    excs = [0] * (np_ + 1)        # supervisor thread, whose single call stops the reactor
    result_written = threading.Event()

    class CallRaised(Exception):
        pass

    def cb(p, i, idle, t0, then=None, raises=False):
        t = time.monotonic()
        log.append((p, i, "R" if threading.get_ident() == main_ident else "T", idle, min(3, int((t - t0) / lat_unit))))
        ran_total[0] += 1
        if cb_yield and ran_total[0] % cb_yield == 0:
            time.sleep(0.00005 if ran_total[0] % (2 * cb_yield) else 0)     # the callback does a little blocking work
        if then is not None:
            then()
        if raises:
            raise CallRaised("call %d of producer %d raises" % (i, p))

    def issue(p, k, then=None, raises=False):
        with lock:
            idle = issued_total[0] == ran_total[0]
            issued_total[0] += 1
        t0 = time.monotonic()
        try:
            if (k + p) % 3 == 1:      # callFromThread(f, *args, **kw): both calling conventions, mixed per thread
                reactor.callFromThread(cb, p + 1, k + 1, idle=idle, t0=t0, then=then, raises=raises)
            elif (k + p) % 3 == 2:
                reactor.callFromThread(cb, p + 1, k + 1, idle, t0, raises=raises, then=then)
            else:
                reactor.callFromThread(cb, p + 1, k + 1, idle, t0, then, raises)
            issued[p] += 1
        except BaseException:
            excs[p] += 1

    def producer(p):
        for k, ent in enumerate(scripts[p]):
            kind, usec = ent[0], ent[1]
            if kind == 1:
                deadline = time.monotonic() + 2.0
                while issued_total[0] != ran_total[0] and time.monotonic() < deadline:
                    time.sleep(0.0005)
            if usec:
                time.sleep(usec / 1e6)
            elif kind == 0 and (k & 7) == 7:
                time.sleep(0)
            issue(p, k, None, len(ent) > 2 and bool(ent[2]))

    threads = [threading.Thread(target=producer, args=(p,), daemon=True) for p in range(np_)]

    def write_result(stuck):
        if result_written.is_set():
            return
        result_written.set()
        ev = [{"e": "run", "p": p, "i": i, "thr": thr, "idle": idle, "lat": lat} for (p, i, thr, idle, lat) in list(log)]
        ev.append({"e": "end", "issued": list(issued), "exc": sum(excs)})
        import twisted
        out = {"ev": ev, "reactor_class": rname, "stuck": bool(stuck), "twisted": twisted.__file__}
        sys.stdout.write(json.dumps(out, separators=(",", ":")))
        sys.stdout.flush()

    def supervisor():
        for t in threads:
            t.join()
        deadline = time.monotonic() + grace
        while ran_total[0] < issued_total[0] and time.monotonic() < deadline:
            time.sleep(0.002)
        time.sleep(0.05)          # let duplicates / stragglers show up
        issue(np_, 0, reactor.stop)
        sup_issued.set()
        # if the reactor never reacts to stop (it was not woken), report what was observed
        if not main_done.wait(grace):
            write_result(True)
            os._exit(0)

    main_done = threading.Event()
    sup_issued = threading.Event()

    def start():
        for t in threads:
            t.start()
        threading.Thread(target=supervisor, daemon=True).start()

    if cfg.get("timer"):
        reactor.callLater(cfg["timer"], lambda: None)
    reactor.callWhenRunning(start)
    reactor.run()
    sup_issued.wait(10.0)         # the supervisor's callFromThread(stop) call has returned (its count is final)
    main_done.set()
    write_result(False)


if __name__ == "__main__":
    main()
