"""C58 adapter: drives the REAL twisted.application.internet.ClientService with a fake endpoint,
fake transports, a scripted prepareConnection hook and task.Clock, and records observable events.

Nothing here decides a verdict: it records (a) the outcome (exception class) of every top-level call,
(b) the user-visible effects that happened during the call (endpoint.connect invoked, attempt Deferred
cancelled, retry policy consulted with n, prepareConnection invoked, transport.loseConnection invoked,
whenConnected Deferred fired with protocol-of-connection c / failure class, stopService Deferred fired),
(c) the calls user callbacks made re-entrantly and their outcomes.

op vocabulary (lists, JSON-able):
  ["start"] ["stop", then] ["when", k, then]     k = -1 (failAfterFailures=None) or the failure limit 0, 1, 2, ..; then = what the Deferred's callback
                                                 does when it fires: "none" | "start" | "stop" | "when"
  ["succeed"] ["fail"]                           the pending endpoint attempt succeeds / fails
  ["prepok", c] ["prepfail", c]                  the pending prepareConnection Deferred of connection c fires
  ["drop", c]                                    connection c is lost (protocol.connectionLost)
  ["adv", d]                                     clock.advance(d)
  ["cmode", m]  m in async|ok|fail               behaviour of the next endpoint.connect calls
  ["hmode", m]  m in ok|fail|async               behaviour of the next prepareConnection calls
cfg: {"hook": bool, "cmode": m, "hmode": m, "pol": [d1, d2, ...], "syncClose": bool}
"""


class Env:
    def __init__(self, cfg):
        from twisted.internet import task
        from twisted.internet.protocol import Factory, Protocol
        from twisted.application.internet import ClientService

        env = self
        self.cfg = cfg
        self.clock = task.Clock()
        self.cmode = cfg["cmode"]
        self.hmode = cfg["hmode"]
        self.obs = None            # list collecting observations of the current top-level event
        self.nested = None
        self.nAtt = 0
        self.intent = "never-started"   # last of startService/stopService issued by the user
        self.spending = set()           # stopService Deferreds not fired yet
        self.rejected = set()           # connections whose prepareConnection hook failed
        self.abandoned = set()          # connections whose pending prepareConnection Deferred the service cancelled
        self.wthen = {}                 # unfired whenConnected Deferreds: id -> (limit, then)
        self.sthen = {}                 # unfired stopService Deferreds: id -> then
        self.nConn = 0
        self.nW = 0
        self.nS = 0
        self.att = {}              # attempt id -> (Deferred, factory) pending
        self.conns = {}            # conn id -> proxy protocol (open)
        self.hooks = {}            # conn id -> pending prepareConnection Deferred
        self.ev = []
        self.errs = []             # informational: failure classes delivered (not compared by the spec)
        self.ctx = []              # informational: environment phase before each event (used for fingerprints only)

        class UserProto(Protocol):
            cid = 0

        class UserFactory(Factory):
            def buildProtocol(self, addr):
                p = UserProto()
                return p

        class Transport:
            def __init__(self, cid):
                self.cid = cid

            def loseConnection(self):
                env.o("lose", self.cid)
                if env.cfg["syncClose"] and self.cid in env.conns:
                    env._drop(self.cid)

            def write(self, data):
                pass

            def getPeer(self):
                return None

            def getHost(self):
                return None

        class Endpoint:
            def connect(self, factory):
                from twisted.internet.defer import Deferred
                env.nAtt += 1
                a = env.nAtt
                env.o("connect", a)

                def cancelled(d, a=a):
                    env.o("cancel", a)
                    env.att.pop(a, None)
                d = Deferred(cancelled)
                env.att[a] = (d, factory)
                if env.cmode == "ok":
                    env._succeed(a)
                elif env.cmode == "fail":
                    env._fail(a)
                return d

        self.Transport = Transport

        def policy(n):
            env.o("policy", n)
            pol = env.cfg["pol"]
            return pol[max(0, min(n, len(pol)) - 1)]

        def hook(proto):
            from twisted.internet.defer import Deferred
            cid = proto.cid
            env.o("prep", cid)
            if env.hmode == "ok":
                return None
            if env.hmode == "fail":
                env.rejected.add(cid)
                raise RuntimeError("rejected by prepareConnection")
            def hook_cancelled(_d, cid=cid):
                env.hooks.pop(cid, None)
                env.abandoned.add(cid)
            d = Deferred(hook_cancelled)
            env.hooks[cid] = d
            return d

        self.svc = ClientService(Endpoint(), UserFactory(), retryPolicy=policy, clock=self.clock,
                                 prepareConnection=hook if cfg["hook"] else None)

    # ---- recording
    def o(self, k, i, r="-", c=0):
        self.obs.append({"k": k, "i": i, "r": r, "c": c})

    # ---- environment stimuli
    def _succeed(self, a):
        d, factory = self.att.pop(a)
        self.nConn += 1
        c = self.nConn
        proto = factory.buildProtocol(None)
        proto._protocol.cid = c
        self.conns[c] = proto
        proto.makeConnection(self.Transport(c))
        d.callback(proto)

    def _fail(self, a):
        from twisted.internet.error import ConnectError
        d, factory = self.att.pop(a)
        d.errback(ConnectError("scripted failure"))

    def _drop(self, c):
        from twisted.internet.error import ConnectionDone
        from twisted.python.failure import Failure
        proto = self.conns.pop(c)
        proto.connectionLost(Failure(ConnectionDone()))

    # ---- user calls (top level or re-entrant)
    def _call(self, call, k, then):
        """Perform a user call; returns (res, newid)."""
        try:
            if call == "start":
                self.intent = "started"
                self.svc.startService()
                return "ok", 0
            if call == "stop":
                self.intent = "stopped"
                d = self.svc.stopService()
                self.nS += 1
                sid = self.nS
                self.spending.add(sid)
                self.sthen[sid] = then
                d.addBoth(self._fired_s, sid, then)
                return "ok", sid
            if call == "when":
                d = self.svc.whenConnected(failAfterFailures=(None if k < 0 else k))
                self.nW += 1
                wid = self.nW
                self.wthen[wid] = (k, then)
                d.addCallbacks(self._fired_w_ok, self._fired_w_err, callbackArgs=(wid, then), errbackArgs=(wid, then))
                return "ok", wid
        except BaseException as e:
            return "EXC:" + type(e).__name__, 0
        raise ValueError(call)

    def _then(self, by, i, then):
        if then == "none":
            return
        res, newid = self._call(then, -1, "none")
        self.nested.append({"by": by, "id": i, "call": then, "res": res, "newid": newid})

    def _fired_w_ok(self, proto, wid, then):
        self.wthen.pop(wid, None)
        self.o("w", wid, "OK", getattr(proto, "cid", -1))
        self._then("w", wid, then)

    def _fired_w_err(self, f, wid, then):
        self.wthen.pop(wid, None)
        self.errs.append(["w", wid, f.type.__name__])
        self.o("w", wid, "ERR")
        self._then("w", wid, then)

    def _fired_s(self, r, sid, then):
        from twisted.python.failure import Failure
        self.spending.discard(sid)
        self.sthen.pop(sid, None)
        if isinstance(r, Failure):
            self.errs.append(["s", sid, r.type.__name__])
        self.o("s", sid, "ERR" if isinstance(r, Failure) else "OK")
        self._then("s", sid, then)

    # ---- which ops are possible now (environment side); user calls are always possible
    def enabled_env_ops(self):
        ops = []
        if self.att:
            ops += [["succeed"], ["fail"]]
        for c in sorted(self.hooks):
            ops += [["prepok", c], ["prepfail", c]]
        for c in sorted(self.conns):
            ops.append(["drop", c])
        return ops

    def phase(self):
        """Environment-side description of the situation (what a user could know), for fingerprints only."""
        def label(c):
            return ("preparing" if c in self.hooks else "rejected" if c in self.rejected
                    else "abandoned" if c in self.abandoned else "open")
        return {"intent": self.intent, "attempt": bool(self.att), "conns": {str(c): label(c) for c in sorted(self.conns)},
                "stop_pending": bool(self.spending), "waiters_pending": bool(self.wthen)}

    def step(self, op):
        """Execute one top-level op; append its event.  Returns False if the op is not applicable."""
        self.obs = []
        self.nested = []
        phase = self.phase()
        e = {"e": op[0], "a": 0, "k": 0, "then": "none", "m": "-", "res": "ok", "newid": 0}
        kind = op[0]
        try:
            if kind in ("start", "stop", "when"):
                k = op[1] if kind == "when" else 0
                then = op[-1] if kind != "start" else "none"
                e["k"], e["then"] = k, then
                e["res"], e["newid"] = self._call(kind, k, then)
            elif kind == "succeed":
                if not self.att:
                    return False
                a = min(self.att)
                e["a"] = a
                self._succeed(a)
            elif kind == "fail":
                if not self.att:
                    return False
                a = min(self.att)
                e["a"] = a
                self._fail(a)
            elif kind in ("prepok", "prepfail"):
                c = op[1]
                if c not in self.hooks:
                    return False
                e["a"] = c
                d = self.hooks.pop(c)
                if kind == "prepok":
                    d.callback(None)
                else:
                    self.rejected.add(c)
                    d.errback(RuntimeError("rejected by prepareConnection (async)"))
            elif kind == "drop":
                c = op[1]
                if c not in self.conns:
                    return False
                e["a"] = c
                self._drop(c)
            elif kind == "adv":
                e["a"] = op[1]
                self.clock.advance(op[1])
            elif kind == "cmode":
                e["m"] = op[1]
                self.cmode = op[1]
            elif kind == "hmode":
                e["m"] = op[1]
                self.hmode = op[1]
            else:
                raise ValueError(op)
        except BaseException as x:   # an exception escaping an environment stimulus (e.g. out of connectionLost)
            if isinstance(x, ValueError) and x.args and x.args[0] is op:
                raise
            e["res"] = "EXC:" + type(x).__name__
        e["obs"] = self.obs
        e["nested"] = self.nested
        self.obs = None
        self.ev.append(e)
        self.ctx.append(phase)
        return True


def run_history(cfg, ops):
    env = Env(cfg)
    done = []
    for op in ops:
        if env.step(list(op)):
            done.append(list(op))
    return {"cfg": cfg, "ops": done, "ev": env.ev, "ctx": env.ctx, "errs": env.errs}
