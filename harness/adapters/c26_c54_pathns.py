"""Shared binding helpers for C26 (FilePath / static.File confinement) and C54 (FTP confinement).

What is here is recording and concretisation only -- no verdicts:

* a scratch directory-tree namespace (a root R, a sibling whose name has R's name as a prefix, a parent P,
  a grandparent G) built under ctx.work;
* a sys.addaudithook recorder for file-system accesses (open / list / create / rename / delete ...),
  which turns every accessed path into its sequence of "/"-separated components (lexical split only);
* drivers for the real twisted objects (FilePath, static.File behind server.Site, FTP + FTPShell over
  StringTransport).

Whether an accessed or returned path is inside the root is decided by TLC (specs/PathNS.tla) from the
component sequences logged here.
"""
import os
import re
import shutil
import sys

ROOTNAME = "root"
SIBNAME = "rootbar"        # sibling of the root whose name has the root's name as a prefix
MISSING = "nx"             # a name that exists nowhere (only nx.ext does)
NONUTF = "ro\udcffot"      # a directory in P whose on-disk name b"ro\xffot" is not UTF-8 (as os.fsdecode / children() return it)

# --------------------------------------------------------------------------- path <-> JSON

_SAFE = set(b"abcdefghijklmnopqrstuvwxyzABCDEFGHIJKLMNOPQRSTUVWXYZ0123456789._-~ ")


def enc_comp(b):
    """Injective, JSON/TLC-safe rendering of one path component (bytes).  '.', '..' and '' map to themselves."""
    return "".join(chr(c) if c in _SAFE else "{%02x}" % c for c in b)


def to_bytes(p):
    if isinstance(p, bytes):
        return p
    if isinstance(p, str):
        return p.encode("utf-8", "surrogateescape")
    return os.fsencode(os.fspath(p))


def comps(p):
    """Path (str/bytes/PathLike) -> list of components exactly as split at '/' (no normalisation)."""
    return [enc_comp(c) for c in to_bytes(p).split(b"/")]


# --------------------------------------------------------------------------- the namespace

class Namespace:
    """
    <base>/G/P/f, nx.ext
             /a/f
             /root/           <- R (the confined root)
                  f, nx.ext
                  a/f, a/index.html, a/a/f, a/e/ (empty)
             /rootbar/        <- sibling sharing R's name as a prefix
                  f, nx.ext, a/f
    Every file's content names its own location, so a served body identifies the file it came from.
    """

    DIRS = ["P", "P/a", "P/root", "P/root/a", "P/root/a/a", "P/root/a/e", "P/rootbar", "P/rootbar/a", "P/" + NONUTF, "P/" + NONUTF + "/a"]
    FILES = ["P/f", "P/nx.ext", "P/a/f", "P/root/f", "P/root/nx.ext", "P/root/a/f", "P/root/a/index.html",
             "P/root/a/a/f", "P/rootbar/f", "P/rootbar/nx.ext", "P/rootbar/a/f"]

    DEPTH = 12      # G sits this many directories below `base`: no ".." chain a driver generates (<= 8 + the
                    # depth of the working directory) can climb out of `base`, even if the code under test is broken

    def __init__(self, base):
        self.base = os.path.realpath(base)
        self.g = os.path.join(self.base, *(["_"] * self.DEPTH), "G")
        self.parent = os.path.join(self.g, "P")
        self.root = os.path.join(self.parent, ROOTNAME)
        self.sibling = os.path.join(self.parent, SIBNAME)
        self.nonutf = os.path.join(self.parent, NONUTF)
        self.gc = comps(self.g)
        self.dirty = True

    def comps(self, p):
        """comps(p), with the component prefix of G (lexical match, no normalisation) abbreviated to one
        component "{G}": the namespace is presented to TLC as if G were mounted at /{G}.  Paths that do not
        lexically start with G's components are left as they are (and so are outside the root)."""
        return self.short(comps(p))

    def short(self, c):
        n = len(self.gc)
        if c[:n] == self.gc:
            return ["", "{G}"] + c[n:]
        return c

    def build(self):
        was = AUDIT.enabled
        AUDIT.enabled = False
        try:
            shutil.rmtree(self.base, ignore_errors=True)
            os.makedirs(self.g)
            for d in self.DIRS:
                os.mkdir(os.path.join(self.g, d))
            for f in self.FILES:
                with open(os.path.join(self.g, f), "wb") as fh:
                    fh.write(b"FILE:" + f.encode() + b";")
            self.dirty = False
        finally:
            AUDIT.enabled = was

    def snapshot(self):
        """Sorted listing of everything under G (relative names, '/' suffix for directories)."""
        was = AUDIT.enabled
        AUDIT.enabled = False
        try:
            out = []
            for dp, dn, fn in os.walk(self.g):
                rel = os.path.relpath(dp, self.g)
                for d in dn:
                    out.append(os.path.normpath(os.path.join(rel, d)) + "/")
                for f in fn:
                    out.append(os.path.normpath(os.path.join(rel, f)))
            return sorted(out)
        finally:
            AUDIT.enabled = was

    def pristine(self):
        return self.snapshot() == sorted([d + "/" for d in self.DIRS] + self.FILES)

    def served(self, body):
        """Locations (component lists of absolute paths) of the scratch files whose content occurs in `body`."""
        out = []
        for m in re.finditer(rb"FILE:([A-Za-z0-9_./-]*);", body):
            out.append(self.comps(os.path.join(self.g, m.group(1).decode())))
        return out


# --------------------------------------------------------------------------- audit recorder

_KIND = {
    "open": "open", "os.listdir": "list", "os.scandir": "list", "glob.glob": "list", "glob.glob/2": "list",
    "os.mkdir": "create", "os.rename": "rename", "os.remove": "delete", "os.rmdir": "delete",
    "os.link": "create", "os.symlink": "create", "os.truncate": "open", "os.chmod": "other", "os.chown": "other",
    "os.utime": "other", "shutil.rmtree": "delete", "shutil.copyfile": "open", "shutil.move": "rename",
    "shutil.copytree": "open", "os.mkfifo": "create", "os.mknod": "create",
}
_NPATHS = {"os.rename": 2, "os.link": 2, "os.symlink": 2, "shutil.copyfile": 2, "shutil.move": 2, "shutil.copytree": 2}
# accesses made by the interpreter on its own behalf (module import, traceback source lines)
_INTERP = ("importlib._bootstrap", "importlib._bootstrap_external", "linecache", "zipimport", "tokenize")


class _Audit:
    def __init__(self):
        self.enabled = False
        self.installed = False
        self.sink = []
        self.interp = 0

    def install(self):
        if not self.installed:
            sys.addaudithook(self._hook)
            self.installed = True

    def _hook(self, event, args):
        if not self.enabled:
            return
        kind = _KIND.get(event)
        if kind is None:
            return
        self.enabled = False          # the recorder itself must not be audited / re-entered
        try:
            f = sys._getframe(1)
            while f is not None:
                if f.f_globals.get("__name__") in _INTERP:
                    self.interp += 1
                    return
                f = f.f_back
            n = _NPATHS.get(event, 1)
            for p in args[:n]:
                if isinstance(p, int) or p is None:
                    continue          # open(fd): no path involved
                try:
                    c = comps(p)
                except Exception:
                    c = ["{unrepresentable}"]
                self.sink.append([kind, c])
        finally:
            self.enabled = True

    def record(self):
        return _Recording(self)


class _Recording:
    def __init__(self, a):
        self.a = a

    def __enter__(self):
        self.a.install()
        self.a.sink = []
        self.a.enabled = True
        return self.a.sink

    def __exit__(self, *exc):
        self.a.enabled = False
        return False


AUDIT = _Audit()


# --------------------------------------------------------------------------- reactor

def memory_reactor():
    """Install (once) an in-memory reactor as the global reactor so that the HTTP and FTP servers'
    callLater()/listenTCP() calls are served without any network or real time."""
    from twisted.internet import error, main
    from twisted.internet.testing import MemoryReactorClock

    mod = sys.modules.get("twisted.internet.reactor")
    if mod is not None:
        if isinstance(mod, MemoryReactorClock):
            return mod
        raise RuntimeError("a real reactor is already installed")
    r = MemoryReactorClock()
    try:
        main.installReactor(r)
    except error.ReactorAlreadyInstalledError:
        raise RuntimeError("a real reactor is already installed")
    return r


def settle(reactor, n=4):
    for _ in range(n):
        reactor.advance(0)
