"""File-system tap shared by the crash-consistency checks C51 / C52 / C53 (Pattern D).

The real twisted code runs on a real scratch directory.  While it runs, the *mutating*
file-system entry points it can reach (builtins.open / os.open / os.fdopen for writing,
file.write/flush/close, os.rename / os.replace / os.remove / os.unlink / os.rmdir) are
monkeypatched -- no change to the twisted source -- so that

  * every mutating call under the scratch root is recorded as one event, in program order;
  * a process crash can be injected at a chosen call index: a `Crash` (BaseException
    subclass) is raised *instead of* performing call number `crash_at`, or -- for a write
    call -- after only `crash_bytes` bytes of it reached the file;
  * after the crash the process is dead: every later mutating call raises `Crash` again
    and has no effect (so `except BaseException:` clean-up handlers of the code under test
    cannot repair anything, exactly as after kill -9).  Data still sitting in a user-space
    buffer at that moment is lost, as it would be.

Buffering is modelled as CPython does it: a file opened without `buffering=0` collects
written data and hands it to the operating system at flush()/close() (or when more than
BUFSZ bytes are pending); an unbuffered file writes through.  Only what was handed to the
operating system is in the real file when the crash happens.

Read-only calls (stat, exists, listdir, glob, open for reading) are not intercepted: a
crash before a read leaves the same directory as a crash after the previous mutation.
"""
import builtins
import io
import os

BUFSZ = 8192


class Crash(BaseException):
    """The simulated death of the process."""


class TapFile:
    """Stand-in for the object returned by open()/os.fdopen() for a file opened for writing."""

    def __init__(self, tap, raw, path, buffered):
        self._tap = tap
        self._raw = raw            # io.FileIO, unbuffered
        self._path = path
        self._buffered = buffered
        self._buf = b""
        self.closed = False
        self.name = path
        self.mode = raw.mode
        tap._files.append(self)

    # -- writing
    def write(self, data):
        if self.closed:
            raise ValueError("write to closed file")
        data = bytes(data)
        if self._buffered:
            self._buf += data
            if len(self._buf) >= BUFSZ:
                self._drain()
        else:
            self._tap._sys_write(self._raw, self._path, data)
        return len(data)

    def writelines(self, lines):
        for ln in lines:
            self.write(ln)

    def _drain(self):
        if self._buf:
            data, self._buf = self._buf, b""
            self._tap._sys_write(self._raw, self._path, data)

    def flush(self):
        if self.closed:
            raise ValueError("flush of closed file")
        self._drain()

    def close(self):
        if self.closed:
            return
        try:
            self._drain()
        finally:
            self.closed = True
            self._buf = b""
            self._raw.close()

    def __enter__(self):
        return self

    def __exit__(self, *exc):
        self.close()
        return False

    def __del__(self):
        try:
            if not self.closed:
                self.closed = True
                self._raw.close()
        except Exception:
            pass

    # -- the rest is passed to the raw file (position, reading back, descriptor)
    def _sync(self):
        if self._buf:
            self._drain()

    def seek(self, *a):
        self._sync()
        return self._raw.seek(*a)

    def tell(self):
        return self._raw.tell() + len(self._buf)

    def read(self, *a):
        self._sync()
        return self._raw.read(*a)

    def readline(self, *a):
        self._sync()
        out = b""
        while True:
            c = self._raw.read(1)
            if not c:
                return out
            out += c
            if c == b"\n":
                return out

    def truncate(self, *a):
        self._sync()
        return self._raw.truncate(*a)

    def fileno(self):
        return self._raw.fileno()

    def isatty(self):
        return False

    def readable(self):
        return self._raw.readable()

    def writable(self):
        return True

    def seekable(self):
        return True


class FsTap:
    """Context manager: while active, mutating file-system calls under `root` are recorded
    and a crash can be injected.

    namer(abspath) -> JSON-able model name of the file (uniformly typed list).
    crash_at: index (0-based, counted over the mutating calls made while this tap is active)
              of the call at which the process dies, None = no crash.
    crash_bytes: for a write call, how many bytes of it still reach the file (0 = none;
              >= len(data) means the whole run arrives and the process dies right after).
    """

    def __init__(self, root, namer, crash_at=None, crash_bytes=0, ident=None):
        self.root = os.path.realpath(root)
        self.namer = namer
        self.crash_at = crash_at
        self.crash_bytes = crash_bytes
        self.ident = ident or (lambda data: 0)     # bytes of a write call -> id of the run
        self.events = []       # recorded fs events (dicts)
        self.calls = []        # (op, path, nbytes) of every mutating call that was reached
        self.dead = False
        self.n = 0
        self._saved = None
        self._fds = {}         # fd from os.open -> path
        self._files = []       # every TapFile handed out (to release descriptors of a dead process)
        self.crash_ok = None   # optional predicate (op, index) -> bool restricting where the crash may strike

    def arm(self, crash_at=None, crash_bytes=0):
        """Start recording a new call of a long-lived object: reset the call counter and the event list."""
        self.n = 0
        self.calls = []
        self.events = []
        self.crash_at = crash_at
        self.crash_bytes = crash_bytes

    def reap(self):
        """The process is gone: release the descriptors it held (nothing is flushed)."""
        for f in self._files:
            try:
                f.closed = True
                f._raw.close()
            except Exception:
                pass
        self._files = []

    # ---- helpers
    def _mine(self, path):
        try:
            if isinstance(path, int):
                return False
            p = os.fsdecode(path)
            p = os.path.realpath(os.path.join(os.getcwd(), p)) if not os.path.isabs(p) else os.path.normpath(p)
        except Exception:
            return False
        return p == self.root or p.startswith(self.root + os.sep)

    def _abs(self, path):
        p = os.fsdecode(path)
        return os.path.normpath(p if os.path.isabs(p) else os.path.join(os.getcwd(), p))

    def _ev(self, op, a, b=None, v=0, cls="", ok=True):
        self.events.append({"e": "fs", "op": op, "a": self.namer(a), "b": self.namer(b if b is not None else a),
                            "v": v, "cls": cls, "ok": ok})

    def _gate(self, op, path, nbytes=0):
        """Called at the start of every mutating call.  Returns True if the process dies *here*."""
        if self.dead:
            raise Crash("dead")
        i = self.n
        self.n += 1
        self.calls.append((op, path, nbytes))
        return self.crash_at is not None and i == self.crash_at and (self.crash_ok is None or self.crash_ok(op, i))

    def _die(self):
        self.dead = True
        raise Crash("crash injected at call %s" % self.crash_at)

    def _do(self, op, fn, a, b=None):
        if self._gate(op, a):
            self._die()
        try:
            r = fn()
        except OSError:
            self._ev(op, a, b, ok=False)
            raise
        self._ev(op, a, b)
        return r

    def _sys_write(self, raw, path, data):
        die = self._gate("write", path, len(data))
        vid = self.ident(data)
        if die:
            k = max(0, min(self.crash_bytes, len(data)))
            if k:
                raw.write(data[:k])
                self._ev("write", path, v=vid, cls="all" if k == len(data) else "part")
            self._die()
        raw.write(data)
        self._ev("write", path, v=vid, cls="all")

    # ---- patched entry points
    def _open(self, file, mode="r", buffering=-1, *a, **kw):
        if isinstance(file, int) or not self._mine(file) or not any(c in mode for c in "wax+") or "b" not in mode:
            # (text-mode writers are not modelled: they pass through untapped -- the Impl layer would show
            #  drift, the verdict layer still sees the resulting directory)
            if self.dead and not isinstance(file, int) and self._mine(file) and any(c in mode for c in "wax+"):
                raise Crash("dead")
            return self._saved["open"](file, mode, buffering, *a, **kw)
        path = self._abs(file)
        existed = os.path.exists(path)
        creates = ("w" in mode) or ("x" in mode) or ("a" in mode and not existed)
        if creates:
            # creating / truncating is a mutation of the directory
            raw = self._do("open", lambda: io.FileIO(path, mode.replace("b", "").replace("t", "")), path)
        else:
            if self.dead:
                raise Crash("dead")
            raw = io.FileIO(path, mode.replace("b", "").replace("t", ""))
        return TapFile(self, raw, path, buffering != 0)

    def _os_open(self, path, flags, mode=0o777, *a, **kw):
        if not self._mine(path) or not (flags & (os.O_WRONLY | os.O_RDWR | os.O_CREAT | os.O_TRUNC)):
            return self._saved["os.open"](path, flags, mode, *a, **kw)
        p = self._abs(path)
        if flags & (os.O_CREAT | os.O_TRUNC):
            fd = self._do("open", lambda: self._saved["os.open"](path, flags, mode, *a, **kw), p)
        else:
            if self.dead:
                raise Crash("dead")
            fd = self._saved["os.open"](path, flags, mode, *a, **kw)
        self._fds[fd] = p
        return fd

    def _os_fdopen(self, fd, mode="r", buffering=-1, *a, **kw):
        if fd not in self._fds:
            return self._saved["os.fdopen"](fd, mode, buffering, *a, **kw)
        p = self._fds.pop(fd)
        raw = io.FileIO(fd, "r+" if "+" in mode else ("w" if "w" in mode else "a"), closefd=True)
        return TapFile(self, raw, p, buffering != 0)

    def _os_close(self, fd):
        self._fds.pop(fd, None)
        return self._saved["os.close"](fd)

    def _os_write(self, fd, data):
        if fd in self._fds:
            p = self._fds[fd]

            class _Raw:
                def write(_s, d):
                    return self._saved["os.write"](fd, d)
            self._sys_write(_Raw(), p, bytes(data))
            return len(data)
        return self._saved["os.write"](fd, data)

    def _rename(self, src, dst, *a, **kw):
        if not (self._mine(src) or self._mine(dst)):
            return self._saved["os.rename"](src, dst, *a, **kw)
        return self._do("rename", lambda: self._saved["os.rename"](src, dst, *a, **kw), self._abs(src), self._abs(dst))

    def _replace(self, src, dst, *a, **kw):
        if not (self._mine(src) or self._mine(dst)):
            return self._saved["os.replace"](src, dst, *a, **kw)
        return self._do("rename", lambda: self._saved["os.replace"](src, dst, *a, **kw), self._abs(src), self._abs(dst))

    def _remove(self, path, *a, **kw):
        if not self._mine(path):
            return self._saved["os.remove"](path, *a, **kw)
        return self._do("remove", lambda: self._saved["os.remove"](path, *a, **kw), self._abs(path))

    def _rmdir(self, path, *a, **kw):
        if not self._mine(path):
            return self._saved["os.rmdir"](path, *a, **kw)
        return self._do("rmdir", lambda: self._saved["os.rmdir"](path, *a, **kw), self._abs(path))

    def _truncate(self, path, length):
        if isinstance(path, int) or not self._mine(path):
            return self._saved["os.truncate"](path, length)
        return self._do("truncate", lambda: self._saved["os.truncate"](path, length), self._abs(path))

    # ---- activation
    def __enter__(self):
        self._saved = {
            "open": builtins.open, "os.open": os.open, "os.fdopen": os.fdopen, "os.close": os.close,
            "os.write": os.write, "os.rename": os.rename, "os.replace": os.replace, "os.remove": os.remove,
            "os.unlink": os.unlink, "os.rmdir": os.rmdir, "os.truncate": os.truncate,
        }
        builtins.open = self._open
        os.open = self._os_open
        os.fdopen = self._os_fdopen
        os.close = self._os_close
        os.write = self._os_write
        os.rename = self._rename
        os.replace = self._replace
        os.remove = self._remove
        os.unlink = self._remove
        os.rmdir = self._rmdir
        os.truncate = self._truncate
        self._extra = []
        # modules that captured builtins.open under another name at import time
        import sys
        m = sys.modules.get("twisted.persisted.dirdbm")
        if m is not None and hasattr(m, "_open"):
            self._extra.append((m, "_open", m._open))
            m._open = self._open
        return self

    def __exit__(self, *exc):
        s = self._saved
        builtins.open = s["open"]
        os.open = s["os.open"]
        os.fdopen = s["os.fdopen"]
        os.close = s["os.close"]
        os.write = s["os.write"]
        os.rename = s["os.rename"]
        os.replace = s["os.replace"]
        os.remove = s["os.remove"]
        os.unlink = s["os.unlink"]
        os.rmdir = s["os.rmdir"]
        os.truncate = s["os.truncate"]
        for m, name, old in self._extra:
            setattr(m, name, old)
        for fd in list(self._fds):
            try:
                s["os.close"](fd)
            except OSError:
                pass
        self._fds.clear()
        return False


def run_tapped(tap, fn):
    """Run fn() under the tap.  Returns ("ok", value) | ("crash", None) | ("exc", exception)."""
    try:
        with tap:
            v = fn()
    except Crash:
        return "crash", None
    except BaseException as e:          # noqa -- includes Crash-in-context chains resolved below
        if tap.dead:
            return "crash", None
        return "exc", e
    if tap.dead:                        # the code swallowed the crash: the process is dead all the same
        return "crash", None
    return "ok", v


def validate_layers(ctx, abs_module, impl_module, traces, skip=("fs", "ls"), shards=8, min_shard=150):
    """Two-layer TLC validation of recorded executions (dicts with "cfg" and "ev").

    Verdict layer: the events the property talks about (everything but file-system calls and raw listings,
    which the Abs trace spec would skip anyway) are validated against `abs_module`; a rejection is reported
    as (trace index, index of the rejected event in the full event list).
    Impl layer: the complete event lists of the accepted traces are validated against `impl_module`; its
    rejections are drift (the real code does not follow the modelled algorithm), never a verdict.
    Returns (rejects, drift), both lists of (trace index, event index)."""
    slim, maps = [], []
    for t in traces:
        idx = [i for i, e in enumerate(t["ev"]) if e["e"] not in skip]
        maps.append(idx)
        slim.append({"cfg": t["cfg"], "ev": [t["ev"][i] for i in idx]})
    size = max(min_shard, -(-len(traces) // shards))
    rej = ctx.validate(abs_module, slim, shard_size=size)
    out = []
    for x in rej:
        m = maps[x.idx]
        out.append((x.idx, m[x.reached] if x.reached < len(m) else len(traces[x.idx]["ev"])))
    bad = {i for i, _ in out}
    good_idx = [i for i in range(len(traces)) if i not in bad]
    full = [{"cfg": traces[i]["cfg"], "ev": traces[i]["ev"]} for i in good_idx]
    rej2 = ctx.validate(impl_module, full, shard_size=size, count=False) if full else []
    drift = [(good_idx[x.idx], x.reached) for x in rej2]
    return out, drift, slim
